"""C10: strings and AST shapes of the stream-lifecycle code (cancel / close guards, input coercion, finish rules).

Emits lean/VgiVerif/Gen/C10.lean.  The model (Model/C10.lean) uses the strings and the `iterChecksFinishedAtToken` flag
directly; the remaining shapes are pinned by the obligation `VgiVerif.C10.C10_shapes`, so an edit of the anchored code
either changes the model or breaks that theorem.
"""

from __future__ import annotations

import ast
import os
from pathlib import Path

REPO = Path(os.environ.get("VERIF_REPO", "/repo"))
PROPS = ["C10"]


def lean_str(s: str) -> str:
    out = []
    for ch in s:
        if ch == "\\":
            out.append("\\\\")
        elif ch == '"':
            out.append('\\"')
        elif ch == "\n":
            out.append("\\n")
        elif ord(ch) < 32 or ord(ch) == 127:
            out.append("\\x%02x" % ord(ch))
        else:
            out.append(ch)  # Lean source is UTF-8
    return '"' + "".join(out) + '"'


def lb(b: bool) -> str:
    return "true" if b else "false"


def _cls(tree: ast.Module, name: str) -> ast.ClassDef:
    for n in tree.body:
        if isinstance(n, ast.ClassDef) and n.name == name:
            return n
    raise KeyError(name)


def _fn(scope: ast.AST, name: str) -> ast.FunctionDef:
    for n in ast.walk(scope):
        if isinstance(n, ast.FunctionDef) and n.name == name:
            return n
    raise KeyError(name)


def _body(fn: ast.FunctionDef) -> list[ast.stmt]:
    b = list(fn.body)
    if b and isinstance(b[0], ast.Expr) and isinstance(b[0].value, ast.Constant) and isinstance(b[0].value.value, str):
        b = b[1:]
    return b


def _const_str(e: ast.AST) -> str | None:
    if isinstance(e, ast.Constant) and isinstance(e.value, str):
        return e.value
    return None


def _guard_raise(fn: ast.FunctionDef, test_src: str) -> tuple[bool, str, str]:
    """first statement `if <test_src>: raise RpcError(<type>, <msg>, ...)` → (ok, type, msg)"""
    b = _body(fn)
    if not b or not isinstance(b[0], ast.If) or ast.unparse(b[0].test) != test_src or len(b[0].body) != 1:
        return False, "", ""
    r = b[0].body[0]
    if not (isinstance(r, ast.Raise) and isinstance(r.exc, ast.Call) and ast.unparse(r.exc.func) == "RpcError" and len(r.exc.args) >= 2):
        return False, "", ""
    t, m = _const_str(r.exc.args[0]), _const_str(r.exc.args[1])
    if t is None or m is None:
        return False, "", ""
    return True, t, m


def _guard_return(fn: ast.FunctionDef, test_src: str) -> bool:
    b = _body(fn)
    return bool(b) and isinstance(b[0], ast.If) and ast.unparse(b[0].test) == test_src and isinstance(b[0].body[-1], ast.Return) \
        and b[0].body[-1].value is None


def _has_io(stmt: ast.stmt) -> bool:
    src = ast.unparse(stmt)
    return any(k in src for k in ("write_batch", "new_ipc_stream", "_client.post", "_input_writer.close", "open_stream", "_drain_output"))


def _sets_before_io(fn: ast.FunctionDef, assigns: list[str]) -> bool:
    """every `self.X = V` in `assigns` occurs as a top-level statement before the first top-level statement doing I/O"""
    seen: set[str] = set()
    for st in _body(fn)[1:]:  # after the guard
        if _has_io(st):
            break
        if isinstance(st, ast.Assign):
            seen.add(ast.unparse(st))
    return all(a in seen for a in assigns)


def _handlers_closing(fn: ast.FunctionDef) -> list[str]:
    """exception names whose handler is exactly `self.close(); raise` (in order of appearance)"""
    out = []
    for n in ast.walk(fn):
        if isinstance(n, ast.ExceptHandler) and n.type is not None and len(n.body) == 2:
            if ast.unparse(n.body[0]) == "self.close()" and isinstance(n.body[1], ast.Raise) and n.body[1].exc is None:
                out.append(ast.unparse(n.type))
    return out


def _serve_stream_shape(fn: ast.FunctionDef) -> dict[str, bool]:
    """the CANCEL_KEY branch inside the `while True` loop of _serve_stream"""
    res = {"found": False, "before_process": False, "breaks": False, "one_hook": False, "hook_guarded": False, "no_process": False}
    for w in ast.walk(fn):
        if not isinstance(w, ast.While):
            continue
        for holder in ast.walk(w):
            body = getattr(holder, "body", None)
            if not isinstance(body, list):
                continue
            for i, st in enumerate(body):
                if isinstance(st, ast.If) and "CANCEL_KEY" in ast.unparse(st.test):
                    res["found"] = True
                    res["breaks"] = isinstance(st.body[-1], ast.Break)
                    src = ast.unparse(st)
                    res["one_hook"] = src.count("state.on_cancel(") == 1
                    res["no_process"] = "state.process(" not in src
                    for t in ast.walk(st):
                        if isinstance(t, ast.Try) and "state.on_cancel(" in "".join(ast.unparse(x) for x in t.body):
                            res["hook_guarded"] = any(ast.unparse(h.type) == "Exception" for h in t.handlers if h.type is not None)
                    later = "".join(ast.unparse(x) for x in body[i + 1:])
                    earlier = "".join(ast.unparse(x) for x in body[:i])
                    res["before_process"] = "state.process(" in later and "state.process(" not in earlier
    return res


def _http_server_cancel_shape(fn: ast.FunctionDef) -> dict[str, bool]:
    res = {"found": False, "returns": False, "one_hook": False, "hook_guarded": False, "no_turn": False, "before_turns": False}
    for holder in ast.walk(fn):
        body = getattr(holder, "body", None)
        if not isinstance(body, list):
            continue
        for i, st in enumerate(body):
            if isinstance(st, ast.If) and ast.unparse(st.test) == "cancel_flag":
                res["found"] = True
                src = ast.unparse(st)
                last = st.body[-1]
                while isinstance(last, ast.With):
                    last = last.body[-1]
                res["returns"] = isinstance(last, ast.Return)
                res["one_hook"] = src.count(".on_cancel(") == 1
                res["no_turn"] = "_run_http_producer_turn" not in src and "_run_http_exchange_turn" not in src and ".process(" not in src
                for t in ast.walk(st):
                    if isinstance(t, ast.Try) and ".on_cancel(" in "".join(ast.unparse(x) for x in t.body):
                        res["hook_guarded"] = any(ast.unparse(h.type) == "Exception" for h in t.handlers if h.type is not None)
                later = "".join(ast.unparse(x) for x in body[i + 1:])
                earlier = "".join(ast.unparse(x) for x in body[:i])
                res["before_turns"] = ("_run_http_producer_turn" in later and "_run_http_exchange_turn" in later
                                       and "_run_http_producer_turn" not in earlier and "_run_http_exchange_turn" not in earlier)
    return res


def _iter_token_check(fn: ast.FunctionDef) -> tuple[bool, bool]:
    """HttpStreamSession.__iter__: (checks `_finished` before the first continuation, checks it in the token branch before
    `_send_continuation(token)`)"""
    start = False
    for st in _body(fn):
        if isinstance(st, ast.If) and ast.unparse(st.test) == "self._finished" and isinstance(st.body[-1], ast.Return):
            start = True
        if isinstance(st, ast.Try):
            break
    at_token = False
    for n in ast.walk(fn):
        if isinstance(n, ast.If) and ast.unparse(n.test) == "token is not None":
            for i, st in enumerate(n.body):
                if "_send_continuation(token)" in ast.unparse(st):
                    before = n.body[:i]
                    at_token = any(isinstance(b, ast.If) and ast.unparse(b.test) == "self._finished" and isinstance(b.body[-1], ast.Return)
                                   for b in before)
                    break
    return start, at_token


def _coerce_shape(fn: ast.FunctionDef) -> tuple[list[str], list[str], list[str], str]:
    """guards (tests of the top-level ifs), handlers ("what is tried | exceptions caught -> class raised", in source
    order), the parts of the error f-string, and the class of the first top-level raise"""
    guards = [ast.unparse(st.test) for st in _body(fn) if isinstance(st, ast.If)]
    handlers: list[str] = []
    raised = ""
    parts: list[str] = []
    for n in ast.walk(fn):
        if isinstance(n, ast.Try):
            tried = "; ".join(ast.unparse(x) for x in n.body)
            for h in n.handlers:
                caught = [ast.unparse(e) for e in (h.type.elts if isinstance(h.type, ast.Tuple) else [h.type])] if h.type is not None else ["*"]
                cls = ""
                for r in h.body:
                    if isinstance(r, ast.Raise) and isinstance(r.exc, ast.Call):
                        cls = ast.unparse(r.exc.func)
                handlers.append(f"{tried} | {', '.join(caught)} -> {cls}")
        if isinstance(n, ast.Raise) and isinstance(n.exc, ast.Call) and n.exc.args and isinstance(n.exc.args[0], ast.JoinedStr):
            if not raised:
                raised = ast.unparse(n.exc.func)
            elif raised != ast.unparse(n.exc.func):
                raised = "<differing classes>"
            p = []
            for v in n.exc.args[0].values:
                p.append(v.value if isinstance(v, ast.Constant) else "{" + ast.unparse(v.value) + "}")
            if not parts:
                parts = p
            elif parts != p:
                parts = ["<differing messages>"]
    return guards, handlers, parts, raised


def _post_kind(fn: ast.AST) -> str:
    """how a function sends its POSTs: "retry" (only `_post_with_retry(…, config=…retry…)`), "bare" (only `<client>.post`),
    "mixed" or "none" """
    kinds = set()
    for n in ast.walk(fn):
        if isinstance(n, ast.Call):
            f = ast.unparse(n.func)
            if f == "_post_with_retry":
                kinds.add("retry")
            elif f.endswith("client.post") or f.endswith("_client.post"):
                kinds.add("bare")
    if not kinds:
        return "none"
    return kinds.pop() if len(kinds) == 1 else "mixed"


def _serve_loop_handlers(fn: ast.FunctionDef) -> tuple[list[str], list[str]]:
    """`_serve_stream`: exception classes handled by the `try` that wraps the `while True` loop (what ends the stream with an
    error batch), and "what is tried | class -> first statement of the handler" for every `try` INSIDE the loop whose
    handler leaves the loop silently (break / pass / continue / return)"""
    outer: list[str] = []
    inner: list[str] = []
    for t in ast.walk(fn):
        if isinstance(t, ast.Try) and any(isinstance(x, ast.While) for x in t.body):
            for h in t.handlers:
                outer.append(ast.unparse(h.type) if h.type is not None else "*")
            for w in t.body:
                if isinstance(w, ast.While):
                    for n in ast.walk(w):
                        if isinstance(n, ast.Try):
                            for h in n.handlers:
                                if isinstance(h.body[0], (ast.Break, ast.Pass, ast.Continue, ast.Return)):
                                    tried = "; ".join(ast.unparse(x).split("=")[-1].strip() for x in n.body)
                                    inner.append(f"{tried} | {ast.unparse(h.type) if h.type is not None else '*'} -> {type(h.body[0]).__name__.lower()}")
    return outer, inner


def _raise_guards(fn: ast.FunctionDef) -> list[tuple[str, str, str]]:
    """top-level `if <test>: raise <Class>("<message>")` statements of a method, in order: (test, class, message)"""
    out = []
    for st in _body(fn):
        if isinstance(st, ast.If) and len(st.body) == 1 and isinstance(st.body[0], ast.Raise) and not st.orelse:
            exc = st.body[0].exc
            if isinstance(exc, ast.Call) and exc.args:
                try:
                    msg = ast.literal_eval(exc.args[0])
                except Exception:
                    msg = None
                if isinstance(msg, str):
                    out.append((ast.unparse(st.test), ast.unparse(exc.func), msg))
                    continue
            out.append((ast.unparse(st.test), "?", "?"))
    return out


def _emit_helpers_delegate(cls: ast.ClassDef) -> bool:
    """every other `emit_*` method of OutputCollector hands its batch to `self.emit(...)`"""
    ok = True
    for n in cls.body:
        if isinstance(n, ast.FunctionDef) and n.name.startswith("emit_") and n.name != "emit_client_log_message":
            ok = ok and "self.emit(" in ast.unparse(n)
    return ok


def _raise_msg(fn: ast.FunctionDef) -> str:
    for n in ast.walk(fn):
        if isinstance(n, ast.Raise) and isinstance(n.exc, ast.Call) and n.exc.args:
            a = n.exc.args[0]
            try:
                v = ast.literal_eval(a)
            except Exception:
                continue
            if isinstance(v, str):
                return v
    return ""


def emit() -> dict[str, str]:
    t_client = ast.parse((REPO / "vgi_rpc/rpc/_client.py").read_text())
    t_http = ast.parse((REPO / "vgi_rpc/http/_client.py").read_text())
    t_server = ast.parse((REPO / "vgi_rpc/rpc/_server.py").read_text())
    t_app = ast.parse((REPO / "vgi_rpc/http/server/_app_stream.py").read_text())
    t_wire = ast.parse((REPO / "vgi_rpc/rpc/_wire.py").read_text())
    t_types = ast.parse((REPO / "vgi_rpc/rpc/_types.py").read_text())
    md_src = ast.parse((REPO / "vgi_rpc/metadata.py").read_text())

    ss = _cls(t_client, "StreamSession")
    hs = _cls(t_http, "HttpStreamSession")
    oc = _cls(t_types, "OutputCollector")

    ex_ok, ex_t, ex_m = _guard_raise(_fn(ss, "exchange"), "self._closed")
    tk_ok, tk_t, tk_m = _guard_raise(_fn(ss, "tick"), "self._closed")
    close_guard = _guard_return(_fn(ss, "close"), "self._closed")
    cancel_guard = _guard_return(_fn(ss, "cancel"), "self._closed")
    close_sets = _sets_before_io(_fn(ss, "close"), ["self._closed = True"])
    cancel_sets = _sets_before_io(_fn(ss, "cancel"), ["self._closed = True"])
    tick_closing = _handlers_closing(_fn(ss, "tick"))
    exch_closing = _handlers_closing(_fn(ss, "exchange"))

    hx_ok, hx_t, hx_m = _guard_raise(_fn(hs, "exchange"), "self._state_bytes is None")
    hc_fn = _fn(hs, "cancel")
    hb = _body(hc_fn)
    hcancel_guard = (bool(hb) and isinstance(hb[0], ast.If) and ast.unparse(hb[0].test) == "self._finished or self._state_bytes is None"
                     and isinstance(hb[0].body[-1], ast.Return) and "_client.post" not in ast.unparse(hb[0]))
    hcancel_seals = _sets_before_io(hc_fn, ["self._finished = True", "self._state_bytes = None"])
    hclose_noop = len(_body(_fn(hs, "close"))) == 0
    it_start, it_token = _iter_token_check(_fn(hs, "__iter__"))

    proxy = _cls(t_http, "_HttpProxy")
    post_init = _post_kind(_fn(_fn(proxy, "_make_stream_caller"), "caller"))
    post_cont = _post_kind(_fn(hs, "_send_continuation"))
    post_exchange = _post_kind(_fn(hs, "exchange"))
    post_cancel = _post_kind(hc_fn)

    sv = _serve_stream_shape(_fn(t_server, "_serve_stream"))
    hv = _http_server_cancel_shape(_fn(t_app, "_run_stream_exchange_sync"))
    guards, handlers, parts, raised = _coerce_shape(_fn(t_wire, "_coerce_input_batch"))
    coerce_sites = {
        "pipe": "_coerce_input_batch(input_batch, input_schema)" in ast.unparse(_fn(t_server, "_serve_stream")),
        "http": "_coerce_input_batch(input_batch, input_schema)" in ast.unparse(_fn(t_app, "_run_http_exchange_turn")),
    }
    finish_msg = _raise_msg(_fn(oc, "finish"))
    finish_guard = ast.unparse(_body(_fn(oc, "finish"))[0].test) if isinstance(_body(_fn(oc, "finish"))[0], ast.If) else ""
    nodata_msg = _raise_msg(_fn(oc, "validate"))
    loop_outer, loop_inner = _serve_loop_handlers(_fn(t_server, "_serve_stream"))
    emit_guards = _raise_guards(_fn(oc, "emit"))
    finish_guards = _raise_guards(_fn(oc, "finish"))
    one_data = next((g for g in emit_guards if "_data_batch_idx" in g[0]), ("", "", ""))
    after_fin = next((g for g in emit_guards if "_finished" in g[0]), None)
    cancel_key = ""
    for n in md_src.body:
        if isinstance(n, ast.Assign) and ast.unparse(n.targets[0]) == "CANCEL_KEY":
            cancel_key = ast.literal_eval(n.value).decode()

    def sl(xs: list[str]) -> str:
        return "[" + ", ".join(lean_str(x) for x in xs) + "]"

    body = f"""namespace VgiVerif.Gen.C10

/-! strings -/
/-- `StreamSession.exchange` / `tick`: `if self._closed: raise RpcError(<type>, <msg>, "")` -/
def pipeRefuseType : String := {lean_str(ex_t)}
def pipeRefuseMsg : String := {lean_str(ex_m)}
/-- `HttpStreamSession.exchange`: `if self._state_bytes is None: raise RpcError(<type>, <msg>, "")` -/
def httpRefuseType : String := {lean_str(hx_t)}
def httpRefuseMsg : String := {lean_str(hx_m)}
/-- `OutputCollector.finish` on an exchange stream / `OutputCollector.validate` -/
def finishOnExchangeMsg : String := {lean_str(finish_msg)}
def noDataMsg : String := {lean_str(nodata_msg)}
/-- the f-string of `_coerce_input_batch`'s TypeError, split at its two interpolations -/
def mismatchParts : List String := {sl(parts)}
def cancelKey : String := {lean_str(cancel_key)}

/-! shapes -/
/-- tests of the top-level `if` statements of `_coerce_input_batch`, in order -/
def coerceGuards : List String := {sl(guards)}
/-- the try blocks of `_coerce_input_batch`: "statements | exceptions caught -> class raised" -/
def coerceHandlers : List String := {sl(handlers)}
/-- the one class every refusal is raised as -/
def coerceCastRaises : String := {lean_str(raised)}
/-- `_coerce_input_batch(input_batch, input_schema)` is applied in `_serve_stream` and in `_run_http_exchange_turn` -/
def coerceAtPipe : Bool := {lb(coerce_sites["pipe"])}
def coerceAtHttp : Bool := {lb(coerce_sites["http"])}
/-- guard of `OutputCollector.finish` -/
def finishGuard : String := {lean_str(finish_guard)}

/-- `_serve_stream`: the handlers of the `try` around the `while True` loop — everything `state.process()` raises must reach
the one that writes the error batch — and the handlers inside the loop that leave it silently (only the end of the
client's input may) -/
def serveLoopHandlers : List String := {sl(loop_outer)}
def serveLoopSilentExits : List String := {sl(loop_inner)}

/-- `OutputCollector.emit` / `finish`: the `if …: raise …` guards at the top of each, as "test -> Class: message" -/
def emitGuards : List String := {sl([f"{t} -> {c}: {m}" for t, c, m in emit_guards])}
def finishGuards : List String := {sl([f"{t} -> {c}: {m}" for t, c, m in finish_guards])}
def onlyOneDataMsg : String := {lean_str(one_data[2])}
/-- used by the model: `emit()` refuses a batch once `finish()` has been called in the same `process()` call -/
def emitRefusesAfterFinish : Bool := {lb(after_fin is not None)}
def emitAfterFinishMsg : String := {lean_str(after_fin[2] if after_fin else "")}
/-- `emit_pydict` & co. hand their batch to `emit` -/
def emitHelpersDelegate : Bool := {lb(_emit_helpers_delegate(oc))}

/-- socket client: first statement of exchange / tick raises when `_closed`; of close / cancel returns when `_closed`;
both set `_closed = True` before any I/O -/
def pipeExchangeGuard : Bool := {lb(ex_ok)}
def pipeTickGuard : Bool := {lb(tk_ok and tk_t == ex_t and tk_m == ex_m)}
def pipeCloseGuard : Bool := {lb(close_guard and close_sets)}
def pipeCancelGuard : Bool := {lb(cancel_guard and cancel_sets)}
/-- handlers of the form `except X: self.close(); raise` -/
def pipeTickClosesOn : List String := {sl(tick_closing)}
def pipeExchangeClosesOn : List String := {sl(exch_closing)}

/-- `_serve_stream`: the CANCEL_KEY branch sits in the loop before `state.process`, calls `state.on_cancel` once inside
`try/except Exception`, never calls `process`, and ends in `break` -/
def serveCancelBranch : Bool := {lb(all(sv.values()))}

/-- HTTP client: exchange guard; cancel returns without a request when finished / token-less, and sets
`_finished = True`, `_state_bytes = None` before the POST; close() is empty -/
def httpExchangeGuard : Bool := {lb(hx_ok)}
def httpCancelGuard : Bool := {lb(hcancel_guard)}
def httpCancelSeals : Bool := {lb(hcancel_seals)}
def httpCloseNoop : Bool := {lb(hclose_noop)}
/-- `HttpStreamSession.__iter__` returns when `_finished` before its first continuation request … -/
def iterChecksFinishedAtStart : Bool := {lb(it_start)}
/-- … and in the token branch before `_send_continuation(token)` (used by the model) -/
def iterChecksFinishedAtToken : Bool := {lb(it_token)}

/-- which requests go through `_post_with_retry` ("retry") and which are a bare `client.post` ("bare"): every attempt
that reaches the server is served again, so a retried cancel would run `on_cancel` once per attempt -/
def postInit : String := {lean_str(post_init)}
def postContinuation : String := {lean_str(post_cont)}
def postExchange : String := {lean_str(post_exchange)}
def postCancel : String := {lean_str(post_cancel)}
/-- used by the model: `cancel()` is retried -/
def cancelRetried : Bool := {lb(post_cancel != "bare")}

/-- `_run_stream_exchange_sync`: `if cancel_flag:` precedes both turn helpers, calls `on_cancel` once inside
`try/except Exception`, runs no turn / `process`, and returns -/
def httpServerCancelBranch : Bool := {lb(all(hv.values()))}

end VgiVerif.Gen.C10
"""
    return {"C10.lean": body}
