"""C23: constants, comparison operators and shape facts of vgi_rpc/http/_replay.py (NonceCache).

Emits `Gen/Nonce.lean`.  The model (`Model/C23.lean`) evaluates the *extracted* comparison operators, the
theorems are stated over them, and `C23_shape` demands the structural facts the model relies on
(clock read before the lock, one lock, sweep -> test -> evict-oldest loop -> insert inside one `with`).
"""

from __future__ import annotations

import ast
import hashlib
import os
from pathlib import Path

REPO = Path(os.environ.get("VERIF_REPO", "/repo"))
PROPS = ["C23"]
SRC = "vgi_rpc/http/_replay.py"

CMP = {ast.Lt: "lt", ast.LtE: "le", ast.Gt: "gt", ast.GtE: "ge", ast.Eq: "eq", ast.NotEq: "ne"}


def _cmp(node: ast.AST, left: str, right: str, what: str) -> str:
    """`<left> <op> <right>` -> Cmp constructor name; anything else fails loudly."""
    if (
        isinstance(node, ast.Compare)
        and len(node.ops) == 1
        and type(node.ops[0]) in CMP
        and ast.unparse(node.left) == left
        and ast.unparse(node.comparators[0]) == right
    ):
        return CMP[type(node.ops[0])]
    raise ValueError(f"{what}: expected `{left} <cmp> {right}`, found `{ast.unparse(node)}`")


def _body(fn: ast.FunctionDef) -> list[ast.stmt]:
    b = list(fn.body)
    if b and isinstance(b[0], ast.Expr) and isinstance(b[0].value, ast.Constant) and isinstance(b[0].value.value, str):
        b = b[1:]
    return b


def _fingerprint(*nodes: ast.AST) -> str:
    h = hashlib.sha256()
    for n in nodes:
        h.update(ast.dump(n, annotate_fields=False, include_attributes=False).encode())
    return h.hexdigest()[:16]


def analyse(text: str) -> dict:
    tree = ast.parse(text)
    out: dict = {}
    # DEFAULT_CAPACITY
    for node in tree.body:
        if isinstance(node, ast.Assign) and len(node.targets) == 1 and ast.unparse(node.targets[0]) == "DEFAULT_CAPACITY":
            if not (isinstance(node.value, ast.Constant) and isinstance(node.value.value, int)):
                raise ValueError("DEFAULT_CAPACITY is not an integer literal")
            out["defaultCap"] = node.value.value
    if "defaultCap" not in out:
        raise ValueError("DEFAULT_CAPACITY not found")
    cls = next((n for n in tree.body if isinstance(n, ast.ClassDef) and n.name == "NonceCache"), None)
    if cls is None:
        raise ValueError("class NonceCache not found")
    fns = {n.name: n for n in cls.body if isinstance(n, ast.FunctionDef)}
    for need in ("__init__", "check_and_add", "_sweep"):
        if need not in fns:
            raise ValueError(f"NonceCache.{need} not found")

    # ---- __init__: validation comparisons, default capacity, exactly one lock
    init = fns["__init__"]
    ttl_cmp = cap_cmp = None
    for st in _body(init):
        if isinstance(st, ast.If) and any(isinstance(x, ast.Raise) for x in st.body):
            src = ast.unparse(st.test)
            if src.startswith("ttl_seconds"):
                ttl_cmp = _cmp(st.test, "ttl_seconds", "0", "__init__ ttl check")
            elif src.startswith("capacity"):
                cap_cmp = _cmp(st.test, "capacity", "0", "__init__ capacity check")
    if ttl_cmp is None or cap_cmp is None:
        raise ValueError("__init__: ttl/capacity validation not found")
    out["ttlRejectCmp"], out["capRejectCmp"] = ttl_cmp, cap_cmp
    kwdefaults = {a.arg: d for a, d in zip(init.args.kwonlyargs, init.args.kw_defaults) if d is not None}
    out["capDefaultIsConst"] = "capacity" in kwdefaults and ast.unparse(kwdefaults["capacity"]) == "DEFAULT_CAPACITY"
    lock_assigns = [
        ast.unparse(st.targets[0])
        for st in ast.walk(init)
        if isinstance(st, ast.Assign) and len(st.targets) == 1 and ast.unparse(st.value) in ("threading.Lock()", "threading.RLock()")
    ]
    lock_is_plain = any(
        isinstance(st, ast.Assign) and ast.unparse(st.value) == "threading.Lock()" and ast.unparse(st.targets[0]) == "self._lock"
        for st in ast.walk(init)
    )

    # the lock is created exactly once, eagerly, in __init__ — never lazily inside a method (a lazily published
    # lock is itself an unsynchronised check-then-act: two first callers would each build their own)
    def _is_lock_ctor(n: ast.AST) -> bool:
        return isinstance(n, ast.Call) and ast.unparse(n.func).split(".")[-1] in ("Lock", "RLock", "Semaphore", "BoundedSemaphore", "Condition")

    def _assigns_lock(n: ast.AST) -> bool:
        if isinstance(n, ast.Assign):
            return any(ast.unparse(t) == "self._lock" for t in n.targets)
        if isinstance(n, (ast.AnnAssign, ast.AugAssign)):
            return ast.unparse(n.target) == "self._lock"
        if isinstance(n, ast.NamedExpr):
            return False
        return False

    ctor_sites = [(fn.name, n) for fn in fns.values() for n in ast.walk(fn) if _is_lock_ctor(n)]
    assign_sites = [(fn.name, n) for fn in fns.values() for n in ast.walk(fn) if _assigns_lock(n)]
    setattr_sites = [n for fn in fns.values() for n in ast.walk(fn)
                     if isinstance(n, ast.Call) and ast.unparse(n.func) in ("setattr", "object.__setattr__")]
    out["lockCreatedInInit"] = (
        len(ctor_sites) == 1 and ctor_sites[0][0] == "__init__"
        and len(assign_sites) == 1 and assign_sites[0][0] == "__init__"
        and isinstance(assign_sites[0][1], ast.Assign)
        and ast.unparse(assign_sites[0][1]) == "self._lock = threading.Lock()"
        and assign_sites[0][1] in _body(init)  # unconditional top-level statement of __init__
        and not setattr_sites
    )

    # ---- check_and_add
    caa = fns["check_and_add"]
    body = _body(caa)
    withs = [st for st in body if isinstance(st, ast.With)]
    clock_calls = [n for n in ast.walk(caa) if isinstance(n, ast.Call) and ast.unparse(n.func) == "self._clock"]
    out["clockReadBeforeLock"] = (
        len(body) == 2
        and isinstance(body[0], ast.Assign)
        and ast.unparse(body[0]) == "now = self._clock()"
        and isinstance(body[1], ast.With)
        and len(clock_calls) == 1
    )
    all_withs = [n for n in ast.walk(caa) if isinstance(n, ast.With)]
    out["singleLock"] = (
        lock_assigns == ["self._lock"]
        and lock_is_plain
        and len(all_withs) == 1
        and len(withs) == 1
        and len(withs[0].items) == 1
        and ast.unparse(withs[0].items[0].context_expr) == "self._lock"
        and withs[0].items[0].optional_vars is None
    )
    cs = withs[0].body if withs else []
    order = False
    evict_cmp = None
    evicts_oldest = False
    expiry = False
    if len(cs) == 5:
        s0, s1, s2, s3, s4 = cs
        ok0 = ast.unparse(s0) == "self._sweep(now)"
        ok1 = (
            isinstance(s1, ast.If)
            and ast.unparse(s1.test) == "nonce in self._entries"
            and not s1.orelse
            and [ast.unparse(x) for x in s1.body] == ["self._replays += 1", "return False"]
        )
        ok2 = isinstance(s2, ast.While) and not s2.orelse
        if ok2:
            evict_cmp = _cmp(s2.test, "len(self._entries)", "self.capacity", "evict loop guard")
            stmts = [ast.unparse(x) for x in s2.body]
            ok2 = len(stmts) == 2 and stmts[0].startswith("self._entries.popitem(") and stmts[1] == "self._evicted += 1"
            evicts_oldest = ok2 and stmts[0] == "self._entries.popitem(last=False)"
        ok3 = isinstance(s3, ast.Assign) and ast.unparse(s3.targets[0]) == "self._entries[nonce]"
        expiry = ok3 and ast.unparse(s3.value) == "now + self.ttl_seconds"
        ok4 = ast.unparse(s4) == "return True"
        order = bool(ok0 and ok1 and ok2 and ok3 and ok4)
    if evict_cmp is None:
        # the loop is not where it is expected: find it anywhere in the function so that the model still follows the guard
        for n in ast.walk(caa):
            if isinstance(n, ast.While) and "capacity" in ast.unparse(n.test):
                evict_cmp = _cmp(n.test, "len(self._entries)", "self.capacity", "evict loop guard")
        if evict_cmp is None:
            raise ValueError("check_and_add: evict loop `while len(self._entries) <cmp> self.capacity` not found")
    out["criticalSectionOrder"], out["evictCmp"], out["evictsOldest"], out["expiryIsNowPlusTtl"] = order, evict_cmp, evicts_oldest, expiry

    # ---- _sweep
    sw = fns["_sweep"]
    sb = _body(sw)
    live_cmp = None
    front = False
    for n in ast.walk(sw):
        if isinstance(n, ast.If) and any(isinstance(x, ast.Break) for x in n.body):
            live_cmp = _cmp(n.test, "expires_at", "now", "_sweep liveness test")
    if live_cmp is None:
        raise ValueError("_sweep: `if expires_at <cmp> now: break` not found")
    if len(sb) == 2 and ast.unparse(sb[0]) == "entries = self._entries" and isinstance(sb[1], ast.While):
        w = sb[1]
        wb = [ast.unparse(x) for x in w.body if not isinstance(x, ast.If)]
        ifs = [x for x in w.body if isinstance(x, ast.If)]
        front = (
            ast.unparse(w.test) == "entries"
            and wb == ["nonce, expires_at = next(iter(entries.items()))", "del entries[nonce]"]
            and len(ifs) == 1
            and len(ifs[0].body) == 1
            and isinstance(ifs[0].body[0], ast.Break)
            and not ifs[0].orelse
            and isinstance(w.body[0], ast.Assign)
            and isinstance(w.body[1], ast.If)
            and isinstance(w.body[2], ast.Delete)
        )
    out["sweepLiveCmp"], out["sweepFromFront"] = live_cmp, front
    out["fingerprint"] = _fingerprint(init, caa, sw)
    return out


def _b(x: bool) -> str:
    return "true" if x else "false"


def emit() -> dict[str, str]:
    a = analyse((REPO / SRC).read_text())
    body = f"""/-
Extracted from {SRC} (NonceCache).
-/
namespace VgiVerif.Gen.Nonce

/-- a Python comparison operator as it appears in the source -/
inductive Cmp where
  | lt | le | gt | ge | eq | ne
deriving Repr, DecidableEq

/-- `DEFAULT_CAPACITY` -/
def defaultCap : Nat := {a["defaultCap"]}

/-- `__init__(…, capacity: int = DEFAULT_CAPACITY, …)` -/
def capDefaultIsConst : Bool := {_b(a["capDefaultIsConst"])}

/-- `_sweep`: `if expires_at <cmp> now: break` (the entry is live, the sweep stops) -/
def sweepLiveCmp : Cmp := .{a["sweepLiveCmp"]}

/-- `check_and_add`: `while len(self._entries) <cmp> self.capacity: popitem` -/
def evictCmp : Cmp := .{a["evictCmp"]}

/-- `__init__`: `if ttl_seconds <cmp> 0: raise ValueError` -/
def ttlRejectCmp : Cmp := .{a["ttlRejectCmp"]}

/-- `__init__`: `if capacity <cmp> 0: raise ValueError` -/
def capRejectCmp : Cmp := .{a["capRejectCmp"]}

/-- `check_and_add` is `now = self._clock()` followed by ONE `with` block, and the clock is read nowhere else -/
def clockReadBeforeLock : Bool := {_b(a["clockReadBeforeLock"])}

/-- `__init__` creates exactly one lock (`self._lock = threading.Lock()`), `check_and_add` has exactly one
`with self._lock:` -/
def singleLock : Bool := {_b(a["singleLock"])}

/-- `self._lock = threading.Lock()` is an unconditional statement of `__init__`, and no method constructs a
synchronisation primitive or assigns `self._lock` (the lock is never created or replaced lazily) -/
def lockCreatedInInit : Bool := {_b(a["lockCreatedInInit"])}

/-- the `with` body is: `self._sweep(now)`; `if nonce in self._entries: self._replays += 1; return False`;
the evict loop; `self._entries[nonce] = …`; `return True` -/
def criticalSectionOrder : Bool := {_b(a["criticalSectionOrder"])}

/-- the evict loop pops with `popitem(last=False)` (oldest first) and counts `_evicted` -/
def evictsOldest : Bool := {_b(a["evictsOldest"])}

/-- `_sweep` looks at `next(iter(entries.items()))`, breaks on the first live entry, else `del entries[nonce]` -/
def sweepFromFront : Bool := {_b(a["sweepFromFront"])}

/-- the stored expiry is `now + self.ttl_seconds` -/
def expiryIsNowPlusTtl : Bool := {_b(a["expiryIsNowPlusTtl"])}

/-- normalised-AST fingerprint of `__init__`, `check_and_add`, `_sweep` (drift indicator only) -/
def fingerprint : String := "{a["fingerprint"]}"

end VgiVerif.Gen.Nonce
"""
    return {"Nonce.lean": body}
