"""C38: retry defaults, the retryable set, the *shapes* of config validation / `_compute_delay` / the retry loop
(`vgi_rpc/http/_retry.py`) and the POST call sites of the HTTP client (`vgi_rpc/http/_client.py`).

Everything the Lean model branches on is regenerated here:

* values       — `_DEFAULT_RETRYABLE`, the dataclass defaults of `HttpRetryConfig`, `_MAX_BACKOFF_EXPONENT`
* BoundCheck   — which comparison `__post_init__` applies to `backoff_base` / `backoff_max`
                 (`x < 0` = negOnly: NaN and inf pass;  `not (0 <= x < math.inf)` = finiteNonneg)
* delay shape  — exponent clamp (`float(base) * 2.0 ** min(attempt, K)` vs `base * 2 ** attempt`), jitter guard for an infinite ceiling, and
                 the exact argument order of the `min` / `max` clamps (NaN semantics depend on it)
* loop shape   — the skeleton of `_request_with_retry` (logger calls and docstrings removed) compared with the
                 skeleton the model transliterates; the except clauses and the disconnect marker are also emitted
* call sites   — for `HttpStreamSession.exchange / cancel / _send_continuation` and the unary / stream-init callers:
                 every `.post(` in source order with: goes through `_post_with_retry`?, the guard it sits under
                 (`status == 413`, `status == 415 and …`), preceded by `externalize`?, inside a loop?, inside a
                 swallow-all `try`?
"""

from __future__ import annotations

import ast
import http
import os
from pathlib import Path

REPO = Path(os.environ.get("VERIF_REPO", "/repo"))
PROPS = ["C38"]


# ------------------------------------------------------------------------------------------------ helpers


def _lean_str(s: str) -> str:
    out = ['"']
    for ch in s:
        if ch == '"':
            out.append('\\"')
        elif ch == "\\":
            out.append("\\\\")
        elif ch == "\n":
            out.append("\\n")
        elif 32 <= ord(ch) < 127:
            out.append(ch)
        else:
            out.append("\\u{%x}" % ord(ch))
    out.append('"')
    return "".join(out)


def _b(x: bool) -> str:
    return "true" if x else "false"


def _func(tree: ast.AST, *path: str) -> ast.FunctionDef | None:
    """Find a (possibly nested) def: _func(tree, "Class", "method", "inner")."""
    cur: ast.AST = tree
    for name in path:
        nxt = None
        for n in ast.walk(cur):
            if n is cur:
                continue
            if isinstance(n, (ast.FunctionDef, ast.ClassDef)) and n.name == name:
                nxt = n
                break
        if nxt is None:
            return None
        cur = nxt
    return cur if isinstance(cur, ast.FunctionDef) else None


def _strip(stmts: list[ast.stmt]) -> list[ast.stmt]:
    """Drop docstrings and logging statements (`_logger.debug(...)`, `if wire_http_logger.isEnabledFor…`)."""
    out: list[ast.stmt] = []
    for st in stmts:
        if isinstance(st, ast.Expr) and isinstance(st.value, ast.Constant) and isinstance(st.value.value, str):
            continue
        if isinstance(st, ast.Expr) and isinstance(st.value, ast.Call):
            f = ast.unparse(st.value.func)
            if f.startswith("_logger.") or f.startswith("wire_http_logger."):
                continue
        if isinstance(st, ast.If) and "isEnabledFor" in ast.unparse(st.test):
            continue
        st = _strip_inner(st)
        out.append(st)
    return out


def _strip_inner(st: ast.stmt) -> ast.stmt:
    for fld in ("body", "orelse", "finalbody"):
        v = getattr(st, fld, None)
        if isinstance(v, list) and v and isinstance(v[0], ast.stmt):
            setattr(st, fld, _strip(v) or [ast.Pass()])
    if isinstance(st, ast.Try):
        for h in st.handlers:
            h.body = _strip(h.body) or [ast.Pass()]
    return st


def _skeleton(fn: ast.FunctionDef) -> str:
    import copy

    fn = copy.deepcopy(fn)
    return "\n".join(ast.unparse(s) for s in _strip(fn.body))


# ------------------------------------------------------------------------------------------------ _retry.py

LOOP_SKELETON = """last_resp: httpx2.Response | _SyncTestResponse | None = None
last_retry_after: float | None = None
for attempt in range(config.max_retries + 1):
    try:
        resp = make_request()
    except httpx2.RemoteProtocolError as exc:
        if 'without sending a response' not in str(exc):
            raise
        if not config.retry_on_connection_error or attempt >= config.max_retries:
            raise
        delay = _compute_delay(attempt, config, None)
        _sleep(delay)
        continue
    except (httpx2.ConnectError, httpx2.TimeoutException):
        if not config.retry_on_connection_error or attempt >= config.max_retries:
            raise
        delay = _compute_delay(attempt, config, None)
        _sleep(delay)
        continue
    if resp.status_code not in config.retryable_status_codes:
        return resp
    last_resp = resp
    last_retry_after = _get_retry_after(resp.headers)
    if attempt >= config.max_retries:
        break
    delay = _compute_delay(attempt, config, last_retry_after)
    _sleep(delay)
if last_resp is None:
    raise HttpTransientError(0, 'no response received')
raise HttpTransientError(last_resp.status_code, _body_preview(last_resp.content), last_retry_after)"""

POST_WRAPPER_SKELETON = """if config is None:
    return client.post(url, content=content, headers=headers)
return _request_with_retry(lambda: client.post(url, content=content, headers=headers), config=config, method_label='POST', url=url, _sleep=_sleep)"""

PARSE_RA_SKELETON = """try:
    return float(header_value)
except ValueError:
    pass
try:
    dt = parsedate_to_datetime(header_value)
    delay = (dt - datetime.now(tz=UTC)).total_seconds()
    return max(0.0, delay)
except (ValueError, TypeError):
    return None"""


def _bound_check(test_src: str, fld: str) -> str:
    if test_src == f"self.{fld} < 0":
        return "negOnly"
    if test_src == f"not 0 <= self.{fld} < math.inf":
        return "finiteNonneg"
    return "unknown"


def _validation(tree: ast.AST) -> dict:
    fn = _func(tree, "HttpRetryConfig", "__post_init__")
    res = {"order": [], "max_retries": "unknown", "backoff_base": "unknown", "backoff_max": "unknown"}
    if fn is None:
        return res
    for st in _strip(list(fn.body)):
        if not (isinstance(st, ast.If) and len(st.body) == 1 and isinstance(st.body[0], ast.Raise) and not st.orelse):
            res["order"].append("?")
            continue
        exc = st.body[0].exc
        is_value_error = isinstance(exc, ast.Call) and ast.unparse(exc.func) == "ValueError"
        src = ast.unparse(st.test)
        hit = None
        for fld in ("max_retries", "backoff_base", "backoff_max"):
            if f"self.{fld}" in src:
                hit = fld
        if hit is None or not is_value_error:
            res["order"].append("?")
            continue
        res["order"].append(hit)
        if hit == "max_retries":
            res[hit] = "ltZero" if src == "self.max_retries < 0" else "unknown"
        else:
            res[hit] = _bound_check(src, hit)
    return res


def _delay_shape(tree: ast.AST, max_exp: int | None) -> dict:
    fn = _func(tree, "_compute_delay")
    res = {"expClamp": None, "expRecognised": False, "jitterGuard": False, "jitterRecognised": False, "restRecognised": False}
    if fn is None:
        return res
    body = [ast.unparse(s) for s in _strip(list(fn.body))]
    # comments are not in the AST, so the body is exactly the statements
    if len(body) != 5:
        return res
    if body[0] == "exp_delay = config.backoff_base * 2 ** attempt":
        res["expClamp"], res["expRecognised"] = None, True
    elif body[0] == "exp_delay = float(config.backoff_base) * 2.0 ** min(attempt, _MAX_BACKOFF_EXPONENT)" and isinstance(max_exp, int) and max_exp >= 0:
        res["expClamp"], res["expRecognised"] = max_exp, True
    if body[1] == "jittered = random.uniform(0, exp_delay)":
        res["jitterGuard"], res["jitterRecognised"] = False, True
    elif body[1] == "jittered = random.uniform(0, exp_delay) if exp_delay < math.inf else exp_delay":
        res["jitterGuard"], res["jitterRecognised"] = True, True
    res["restRecognised"] = (
        body[2] == "delay = min(jittered, config.backoff_max)"
        and body[3]
        == "if config.respect_retry_after and retry_after is not None:\n    delay = max(delay, min(retry_after, config.backoff_max))"
        and body[4] == "return delay"
    )
    return res


def _handlers(tree: ast.AST) -> tuple[list[list[str]], str]:
    """except clauses of the retry loop's try (class names per clause) and the disconnect marker literal."""
    fn = _func(tree, "_request_with_retry")
    clauses: list[list[str]] = []
    marker = ""
    if fn is None:
        return clauses, marker
    for n in ast.walk(fn):
        if isinstance(n, ast.Try):
            for h in n.handlers:
                if h.type is None:
                    clauses.append(["<bare>"])
                elif isinstance(h.type, ast.Tuple):
                    clauses.append([ast.unparse(e).split(".")[-1] for e in h.type.elts])
                else:
                    clauses.append([ast.unparse(h.type).split(".")[-1]])
                for m in ast.walk(h):
                    if (
                        isinstance(m, ast.Compare)
                        and len(m.ops) == 1
                        and isinstance(m.ops[0], ast.NotIn)
                        and isinstance(m.left, ast.Constant)
                        and isinstance(m.left.value, str)
                    ):
                        marker = m.left.value
            break
    return clauses, marker


# ------------------------------------------------------------------------------------------------ _client.py

SITES = [
    ("exchange", ("HttpStreamSession", "exchange")),
    ("cancel", ("HttpStreamSession", "cancel")),
    ("continuation", ("HttpStreamSession", "_send_continuation")),
    ("unary", ("_HttpProxy", "_make_unary_caller", "caller")),
    ("init", ("_HttpProxy", "_make_stream_caller", "caller")),
]


def _classify_guard(test: ast.expr) -> tuple[str, int]:
    src = ast.unparse(test)

    def status_of(name: str) -> int | None:
        try:
            return int(http.HTTPStatus[name].value)
        except KeyError:
            return None

    pre = "resp.status_code == HTTPStatus."
    if src.startswith(pre):
        rest = src[len(pre) :]
        if rest.isidentifier():
            v = status_of(rest)
            if v is not None:
                return "status", v
        if " and " in rest:
            name, _, _extra = rest.partition(" and ")
            v = status_of(name) if name.isidentifier() else None
            if v is not None and " or " not in _extra:
                return "statusAnd", v
    return "other", 0


def _walk_posts(fn: ast.FunctionDef) -> list[dict]:
    posts: list[dict] = []

    def calls_in(node: ast.AST) -> list[ast.Call]:
        found: list[ast.Call] = []

        def rec(n: ast.AST) -> None:
            if isinstance(n, (ast.FunctionDef, ast.AsyncFunctionDef, ast.Lambda)) and n is not node:
                return
            for ch in ast.iter_child_nodes(n):
                rec(ch)
            if isinstance(n, ast.Call):
                found.append(n)

        rec(node)
        found.sort(key=lambda c: (c.lineno, c.col_offset))
        return found

    def visit(stmts: list[ast.stmt], guards: list[tuple[str, int]], loop: bool, swallowed: bool, ext: list[bool]) -> None:
        for st in stmts:
            if isinstance(st, (ast.FunctionDef, ast.AsyncFunctionDef, ast.ClassDef)):
                continue
            if isinstance(st, ast.If):
                visit(st.body, guards + [_classify_guard(st.test)], loop, swallowed, [False])
                visit(st.orelse, guards + [("other", 0)], loop, swallowed, [False])
                continue
            if isinstance(st, (ast.For, ast.While)):
                visit(st.body, guards, True, swallowed, [False])
                visit(st.orelse, guards, loop, swallowed, [False])
                continue
            if isinstance(st, ast.Try):
                swallow_all = any(
                    (h.type is None or ast.unparse(h.type) in ("Exception", "BaseException"))
                    and len(h.body) == 1
                    and isinstance(h.body[0], (ast.Return, ast.Pass))
                    for h in st.handlers
                )
                visit(st.body, guards, loop, swallowed or swallow_all, ext)
                for h in st.handlers:
                    visit(h.body, guards + [("other", 0)], loop, swallowed, [False])
                visit(st.orelse, guards, loop, swallowed, ext)
                visit(st.finalbody, guards, loop, swallowed, ext)
                continue
            if isinstance(st, ast.With):
                suppress = any("suppress" in ast.unparse(i.context_expr) for i in st.items)
                visit(st.body, guards, loop, swallowed or suppress, ext)
                continue
            for c in calls_in(st):
                f = ast.unparse(c.func)
                if f in ("externalize", "self._externalize_request_body"):
                    ext[0] = True
                elif f == "_post_with_retry" or f.endswith(".post") or f == "post":
                    retried = f == "_post_with_retry"
                    url_arg = None
                    if retried and len(c.args) >= 2:
                        url_arg = c.args[1]
                    elif not retried and c.args:
                        url_arg = c.args[0]
                    url = ast.unparse(url_arg) if url_arg is not None else "?"
                    kind = "exchange" if url.rstrip("'\"").endswith("/exchange") else ("init" if url.rstrip("'\"").endswith("/init") else "method")
                    posts.append(
                        {
                            "retried": retried,
                            "guards": list(guards),
                            "ext": ext[0],
                            "loop": loop,
                            "swallowed": swallowed,
                            "url": kind,
                            "via_client": f in ("_post_with_retry", "self._client.post", "client.post"),
                        }
                    )
                    ext[0] = False

    visit(list(fn.body), [], False, False, [False])
    return posts


def _site_lean(name: str, posts: list[dict] | None) -> tuple[str, bool]:
    if posts is None:
        return f"def {name}Prog : List PostSite := []", False
    ok = True
    rows = []
    for p in posts:
        if len(p["guards"]) == 0:
            g = ".always"
        elif len(p["guards"]) == 1 and p["guards"][0][0] == "status":
            g = f".status {p['guards'][0][1]}"
        elif len(p["guards"]) == 1 and p["guards"][0][0] == "statusAnd":
            g = f".statusAnd {p['guards'][0][1]}"
        else:
            g = ".other"
            ok = False
        if not p["via_client"]:
            ok = False
        rows.append(
            f"  {{ retried := {_b(p['retried'])}, guard := {g}, externalizeFirst := {_b(p['ext'])}, "
            f"inLoop := {_b(p['loop'])}, swallowed := {_b(p['swallowed'])}, url := {_lean_str(p['url'])} }}"
        )
    body = ",\n".join(rows)
    return f"def {name}Prog : List PostSite := [\n{body}\n]", ok and bool(posts)


def _cancel_guard(ctree: ast.AST) -> str:
    """Idempotence guard of `HttpStreamSession.cancel`: the first statement decides whether a POST may follow."""
    fn = _func(ctree, "HttpStreamSession", "cancel")
    if fn is None:
        return "unknown"
    import copy

    body = _strip(copy.deepcopy(fn).body)
    if not body:
        return "unknown"
    st = body[0]
    if isinstance(st, ast.If) and not st.orelse and st.body and isinstance(st.body[-1], ast.Return):
        marks_finished = any(ast.unparse(x) == "self._finished = True" for x in st.body)
        test = ast.unparse(st.test)
        # after the guard: the token is taken, the session is marked finished and the token cleared BEFORE the POST
        rest = [ast.unparse(x) for x in body[1:4]]
        ordered = rest == ["token = self._state_bytes", "self._finished = True", "self._state_bytes = None"]
        if test == "self._finished or self._state_bytes is None" and marks_finished and ordered:
            return "finishedOrNoToken"
        if test == "self._state_bytes is None":
            return "noTokenOnly"
        return "unknown"
    srcs = [ast.unparse(x) for x in body[:3]]
    if srcs[:1] == ["token, self._state_bytes = (self._state_bytes, None)"] and any(
        isinstance(x, ast.If) and ast.unparse(x.test) == "token is None" for x in body[:3]
    ):
        return "noTokenOnly"
    return "unknown"


# ------------------------------------------------------------------------------------------------ emit


def _ratio(x: object) -> tuple[int, int] | None:
    if isinstance(x, bool):
        return None
    if isinstance(x, int):
        return x, 1
    if isinstance(x, float) and x == x and x not in (float("inf"), float("-inf")):
        return x.as_integer_ratio()
    return None


def emit() -> dict[str, str]:
    tree = ast.parse((REPO / "vgi_rpc/http/_retry.py").read_text())
    ctree = ast.parse((REPO / "vgi_rpc/http/_client.py").read_text())

    # module-level literals, read from the source text (no import: the tree under test may differ from an installed copy)
    mod_consts: dict[str, object] = {}
    for st in tree.body:
        tgt, value = None, None
        if isinstance(st, ast.AnnAssign) and isinstance(st.target, ast.Name):
            tgt, value = st.target.id, st.value
        elif isinstance(st, ast.Assign) and len(st.targets) == 1 and isinstance(st.targets[0], ast.Name):
            tgt, value = st.targets[0].id, st.value
        if tgt is None or value is None:
            continue
        if isinstance(value, ast.Call) and ast.unparse(value.func) == "frozenset" and len(value.args) == 1:
            try:
                mod_consts[tgt] = frozenset(ast.literal_eval(value.args[0]))
            except ValueError:
                pass
        else:
            try:
                mod_consts[tgt] = ast.literal_eval(value)
            except ValueError:
                pass
    retryable = sorted(int(x) for x in mod_consts.get("_DEFAULT_RETRYABLE", frozenset()))  # type: ignore[union-attr]
    max_exp = mod_consts.get("_MAX_BACKOFF_EXPONENT")
    if isinstance(max_exp, bool) or not isinstance(max_exp, int):
        max_exp = None

    # dataclass field defaults of HttpRetryConfig
    defaults: dict[str, object] = {}
    d_set_is_default = False
    for n in ast.walk(tree):
        if isinstance(n, ast.ClassDef) and n.name == "HttpRetryConfig":
            for st in n.body:
                if isinstance(st, ast.AnnAssign) and isinstance(st.target, ast.Name) and st.value is not None:
                    if st.target.id == "retryable_status_codes":
                        d_set_is_default = ast.unparse(st.value) == "field(default_factory=lambda: _DEFAULT_RETRYABLE)"
                        continue
                    try:
                        defaults[st.target.id] = ast.literal_eval(st.value)
                    except ValueError:
                        pass

    def default(name: str) -> object:
        return defaults.get(name)

    d_mr = default("max_retries")
    d_base = _ratio(default("backoff_base")) or (0, 0)
    d_max = _ratio(default("backoff_max")) or (0, 0)

    val = _validation(tree)
    dly = _delay_shape(tree, max_exp)
    fn_loop = _func(tree, "_request_with_retry")
    loop_ok = fn_loop is not None and _skeleton(fn_loop) == LOOP_SKELETON
    fn_post = _func(tree, "_post_with_retry")
    post_ok = fn_post is not None and _skeleton(fn_post) == POST_WRAPPER_SKELETON
    fn_pra = _func(tree, "_parse_retry_after")
    pra_ok = fn_pra is not None and _skeleton(fn_pra) == PARSE_RA_SKELETON
    clauses, marker = _handlers(tree)

    site_defs = []
    sites_ok = True
    for name, path in SITES:
        fn = _func(ctree, *path)
        text, ok = _site_lean(name, _walk_posts(fn) if fn is not None else None)
        site_defs.append(text)
        sites_ok = sites_ok and ok

    cancel_guard = _cancel_guard(ctree)
    clamp = "none" if dly["expClamp"] is None else f"some {dly['expClamp']}"
    clauses_lean = "[" + ", ".join("[" + ", ".join(_lean_str(c) for c in cl) + "]" for cl in clauses) + "]"
    order_lean = "[" + ", ".join(_lean_str(o) for o in val["order"]) + "]"
    body = f"""namespace VgiVerif.Gen.Retry

/-- `vgi_rpc.http._retry._DEFAULT_RETRYABLE` (sorted) -/
def defaultRetryable : List Nat := {retryable}

/-- dataclass defaults of `HttpRetryConfig` (floats as exact `numerator / denominator`) -/
def defaultMaxRetries : Int := {int(d_mr) if isinstance(d_mr, int) and not isinstance(d_mr, bool) else -1}
def defaultBackoffBase : Int × Nat := ({d_base[0]}, {d_base[1]})
def defaultBackoffMax : Int × Nat := ({d_max[0]}, {d_max[1]})
def defaultRetryOnConnectionError : Bool := {_b(default("retry_on_connection_error") is True)}
def defaultRespectRetryAfter : Bool := {_b(default("respect_retry_after") is True)}
/-- the default of `retryable_status_codes` is `_DEFAULT_RETRYABLE` -/
def defaultSetIsDefaultRetryable : Bool := {_b(bool(d_set_is_default))}

/-- comparison `HttpRetryConfig.__post_init__` applies to a float bound before raising `ValueError` -/
inductive BoundCheck
  | negOnly        -- `if self.x < 0: raise`                       (NaN and inf pass)
  | finiteNonneg   -- `if not (0 <= self.x < math.inf): raise`     (NaN, inf, negatives rejected)
  | unknown
deriving DecidableEq, Repr

/-- order in which `__post_init__` checks its fields -/
def validationOrder : List String := {order_lean}
/-- `if self.max_retries < 0: raise ValueError` -/
def maxRetriesCheckIsLtZero : Bool := {_b(val["max_retries"] == "ltZero")}
def baseCheck : BoundCheck := .{val["backoff_base"]}
def maxCheck : BoundCheck := .{val["backoff_max"]}

/-- `_compute_delay`: `float(base) * 2.0 ** min(attempt, K)` → `some K`; `base * 2 ** attempt` → `none` -/
def expClamp : Option Nat := {clamp}
/-- `_compute_delay`: `random.uniform(0, exp_delay) if exp_delay < math.inf else exp_delay` -/
def jitterGuard : Bool := {_b(dly["jitterGuard"])}
/-- the statements of `_compute_delay` are the ones the model transliterates (incl. argument order of min / max) -/
def delayRecognised : Bool := {_b(dly["expRecognised"] and dly["jitterRecognised"] and dly["restRecognised"])}

/-- `_request_with_retry` (docstring and logger calls removed) is the skeleton the model transliterates -/
def loopRecognised : Bool := {_b(loop_ok)}
/-- `_post_with_retry`: `config is None` → one plain post, else `_request_with_retry(lambda: client.post(...))` -/
def postWrapperRecognised : Bool := {_b(post_ok)}
/-- `_parse_retry_after`: `float(v)` first, then HTTP-date with `max(0.0, …)`, `(ValueError, TypeError)` → `None` -/
def parseRetryAfterRecognised : Bool := {_b(pra_ok)}
/-- except clauses of the retry loop, in order -/
def exceptClauses : List (List String) := {clauses_lean}
/-- substring of `str(exc)` that marks a disconnect before any response byte -/
def disconnectMarker : String := {_lean_str(marker)}

/-- guard an HTTP POST call site sits under -/
inductive Guard
  | always
  | status (code : Nat)       -- `if resp.status_code == HTTPStatus.X:`
  | statusAnd (code : Nat)    -- `if resp.status_code == HTTPStatus.X and <one more condition>:`
  | other
deriving DecidableEq, Repr

/-- one `.post(` of a client method, in source order -/
structure PostSite where
  retried : Bool            -- goes through `_post_with_retry`
  guard : Guard
  externalizeFirst : Bool   -- `externalize(body)` runs in the same block before the post
  inLoop : Bool
  swallowed : Bool          -- inside `try: … except Exception: return`
  url : String              -- "exchange" | "init" | "method"
deriving DecidableEq, Repr

{chr(10).join(site_defs)}

/-- what makes `HttpStreamSession.cancel()` return without POSTing -/
inductive CancelGuard
  | finishedOrNoToken   -- `if self._finished or self._state_bytes is None: …; return`, then finished := True, token := None, POST
  | noTokenOnly         -- only the token is consulted (a token written back after a cancel re-arms it)
  | unknown
deriving DecidableEq, Repr

def cancelGuard : CancelGuard := .{cancel_guard}

/-- every call site was classified (guards recognised, posts go through the session's client) -/
def sitesRecognised : Bool := {_b(sites_ok)}

end VgiVerif.Gen.Retry
"""
    return {"Retry.lean": body}
