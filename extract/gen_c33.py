"""C33: constants and shape facts of the threaded accept loop (vgi_rpc/rpc/_transport.py) and of the launcher
(vgi_rpc/launcher.py), plus two facts about the installed `filelock` the launcher model depends on.

Emits `Gen/C33.lean`.  The models (`Model/C33.lean`) are parametric in the two repair shapes
(`clearsFlagOnAccept`, `callbackChecksCurrent`) and in `filelockChecksNlink`; the obligations `C33_loop_shape`,
`C33_loop_structure`, `C33_launch_shape`, `C33_launch_structure` demand the values the proofs need, so a source edit
that changes them breaks an obligation.
"""

from __future__ import annotations

import ast
import hashlib
import os
from pathlib import Path

REPO = Path(os.environ.get("VERIF_REPO", "/repo"))
PROPS = ["C33"]
TRANSPORT = "vgi_rpc/rpc/_transport.py"
LAUNCHER = "vgi_rpc/launcher.py"
SHARED = ("conn_count", "timer", "shutdown_requested")


def _u(n: ast.AST | None) -> str:
    return "" if n is None else ast.unparse(n)


def _body(fn: ast.FunctionDef) -> list[ast.stmt]:
    b = list(fn.body)
    if b and isinstance(b[0], ast.Expr) and isinstance(b[0].value, ast.Constant) and isinstance(b[0].value.value, str):
        b = b[1:]
    return b


def _fn(tree: ast.AST, name: str) -> ast.FunctionDef:
    for n in ast.walk(tree):
        if isinstance(n, ast.FunctionDef) and n.name == name:
            return n
    raise ValueError(f"function {name} not found")


def _is_lock_with(st: ast.stmt) -> bool:
    return isinstance(st, ast.With) and len(st.items) == 1 and _u(st.items[0].context_expr) == "state_lock"


def _strip_nonlocal(stmts: list[ast.stmt]) -> list[ast.stmt]:
    return [s for s in stmts if not isinstance(s, ast.Nonlocal)]


def _num(node: ast.AST, what: str) -> float:
    if isinstance(node, ast.Constant) and isinstance(node.value, (int, float)) and not isinstance(node.value, bool):
        return float(node.value)
    raise ValueError(f"{what}: expected a numeric literal, found `{_u(node)}`")


# ---------------------------------------------------------------------------------------------- (b) accept loop


def _shared_under_lock(fn: ast.FunctionDef) -> bool:
    """Every read/write of conn_count / timer / shutdown_requested (except the three initialisations at the top level
    of the function) is lexically inside `with state_lock:` or inside a `*_locked` helper, and every call of such a
    helper is inside `with state_lock:`."""
    ok = True
    helpers = {n.name for n in ast.walk(fn) if isinstance(n, ast.FunctionDef) and n.name.endswith("_locked")}

    def visit(node: ast.AST, locked: bool, top: bool) -> None:
        nonlocal ok
        if isinstance(node, ast.FunctionDef) and node is not fn:
            inner = node.name in helpers
            for ch in node.body:
                visit(ch, inner, False)
            return
        if isinstance(node, ast.Lambda):
            visit(node.body, False, False)
            return
        if isinstance(node, ast.With) and any(_u(i.context_expr) == "state_lock" for i in node.items):
            for ch in node.body:
                visit(ch, True, False)
            return
        if top and isinstance(node, (ast.Assign, ast.AnnAssign)):
            tgt = node.targets[0] if isinstance(node, ast.Assign) else node.target
            if isinstance(tgt, ast.Name) and tgt.id in SHARED:
                return  # initialisation before any thread exists
        if isinstance(node, ast.Name) and node.id in SHARED and not locked:
            ok = False
        if isinstance(node, ast.Call) and isinstance(node.func, ast.Name) and node.func.id in helpers and not locked:
            ok = False
        for ch in ast.iter_child_nodes(node):
            visit(ch, locked, False)

    for st in fn.body:
        visit(st, False, True)
    return ok


def analyse_loop(text: str) -> dict:
    tree = ast.parse(text)
    fn = _fn(tree, "_serve_socket_threaded")
    out: dict = {}
    body = _body(fn)
    nested = {n.name: n for n in body if isinstance(n, ast.FunctionDef)}
    for need in ("_close_listener_if_idle", "_arm_timer_locked", "_cancel_timer_locked", "_handle"):
        if need not in nested:
            raise ValueError(f"_serve_socket_threaded: nested function {need} not found")

    # accept timeout
    tmo = [n for n in body if isinstance(n, ast.Expr) and isinstance(n.value, ast.Call) and _u(n.value.func) == "sock.settimeout"]
    if len(tmo) != 1:
        raise ValueError("_serve_socket_threaded: expected exactly one top-level sock.settimeout(...)")
    out["acceptTimeoutMillis"] = int(round(_num(tmo[0].value.args[0], "sock.settimeout") * 1000))

    # start-up arm: if idle_timeout is not None: with state_lock: _arm_timer_locked(max(idle_timeout, <floor>))
    start = [n for n in body if isinstance(n, ast.If) and _u(n.test) == "idle_timeout is not None"]
    start_ok = False
    floor = None
    if len(start) == 1 and len(start[0].body) == 1 and _is_lock_with(start[0].body[0]) and not start[0].orelse:
        w = start[0].body[0]
        if len(w.body) == 1 and isinstance(w.body[0], ast.Expr) and isinstance(w.body[0].value, ast.Call):
            call = w.body[0].value
            if _u(call.func) == "_arm_timer_locked" and len(call.args) == 1 and isinstance(call.args[0], ast.Call):
                mx = call.args[0]
                if _u(mx.func) == "max" and len(mx.args) == 2 and _u(mx.args[0]) == "idle_timeout":
                    floor = _num(mx.args[1], "start-up grace floor")
                    start_ok = True
    if floor is None:
        raise ValueError("_serve_socket_threaded: start-up grace `_arm_timer_locked(max(idle_timeout, <const>))` not found")
    if floor != int(floor):
        raise ValueError("start-up grace floor is not a whole number of seconds")
    out["graceFloorSecs"] = int(floor)

    # ---- timer callback
    cb = nested["_close_listener_if_idle"]
    cbb = _strip_nonlocal(_body(cb))
    params = [a.arg for a in cb.args.args]
    check_form = None  # None | "plain" (`timer is not P`) | "guarded" (`P is None or timer is not P`)
    cb_ok = False

    def _is_not(t: ast.AST, pname: str) -> bool:
        return (isinstance(t, ast.Compare) and len(t.ops) == 1 and isinstance(t.ops[0], ast.IsNot) and _u(t.left) == "timer"
                and _u(t.comparators[0]) == pname)

    if len(cbb) == 1 and _is_lock_with(cbb[0]):
        wb = list(cbb[0].body)
        if wb and isinstance(wb[0], ast.If) and len(params) == 1:
            t = wb[0].test
            ret_only = len(wb[0].body) == 1 and isinstance(wb[0].body[0], ast.Return) and wb[0].body[0].value is None and not wb[0].orelse
            if ret_only and _is_not(t, params[0]):
                check_form = "plain"
                wb = wb[1:]
            elif (ret_only and isinstance(t, ast.BoolOp) and isinstance(t.op, ast.Or) and len(t.values) == 2
                  and _u(t.values[0]) == f"{params[0]} is None" and _is_not(t.values[1], params[0])):
                check_form = "guarded"
                wb = wb[1:]
        cb_ok = (
            len(wb) == 3
            and _u(wb[0]) == "timer = None"
            and isinstance(wb[1], ast.If) and _u(wb[1].test) == "conn_count != 0" and len(wb[1].body) == 1
            and isinstance(wb[1].body[0], ast.Return) and not wb[1].orelse
            and _u(wb[2]) == "shutdown_requested = True"
        )
    # ---- arm: which object does the callback get, and WHEN is that decided?
    #   "none"  Timer(seconds, _close_listener_if_idle)
    #   "early" X = Timer(seconds, lambda: cb(X)) … timer = X      X is a local of _arm_timer_locked, assigned once: every arming has
    #                                                              its own cell, the lambda sees the timer it belongs to
    #   "late"  timer = Timer(seconds, lambda: cb(timer))          the lambda reads the SHARED variable when it runs
    arm = nested["_arm_timer_locked"]
    ab = _strip_nonlocal(_body(arm))
    shared = {n for st in arm.body if isinstance(st, (ast.Nonlocal, ast.Global)) for n in st.names}
    arm_ok = False
    binding = None
    if ab and isinstance(ab[0], ast.If) and _u(ab[0].test) == "timer is not None" and [_u(x) for x in ab[0].body] == ["timer.cancel()"]:
        rest = [_u(x) for x in ab[1:]]
        if rest == ["timer = threading.Timer(seconds, _close_listener_if_idle)", "timer.daemon = True", "timer.start()"]:
            arm_ok, binding = True, "none"
        elif rest == ["timer = threading.Timer(seconds, lambda: _close_listener_if_idle(timer))", "timer.daemon = True", "timer.start()"]:
            arm_ok, binding = True, ("late" if "timer" in shared else None)
        elif len(ab) == 5 and isinstance(ab[1], ast.Assign) and isinstance(ab[1].targets[0], ast.Name):
            x = ab[1].targets[0].id
            stores = [n for n in ast.walk(arm) if isinstance(n, ast.Name) and n.id == x and isinstance(n.ctx, ast.Store)]
            if (_u(ab[1].value) == f"threading.Timer(seconds, lambda: _close_listener_if_idle({x}))"
                    and rest[1:] == [f"{x}.daemon = True", f"timer = {x}", "timer.start()"]
                    and x not in shared and x not in SHARED and len(stores) == 1):
                arm_ok, binding = True, "early"
    code = {("none", None): 0, ("early", "plain"): 1, ("early", "guarded"): 1, ("late", "guarded"): 2, ("late", "plain"): 3}.get(
        (binding, check_form))
    cancel = nested["_cancel_timer_locked"]
    cb2 = _strip_nonlocal(_body(cancel))
    cancel_ok = (len(cb2) == 1 and isinstance(cb2[0], ast.If) and _u(cb2[0].test) == "timer is not None"
                 and [_u(x) for x in cb2[0].body] == ["timer.cancel()", "timer = None"] and not cb2[0].orelse)
    out["callbackCheck"] = 0 if code is None else code
    out["callbackChecksCurrent"] = code == 1
    # the test in the callback and the way the callback is armed must be one of the modelled combinations
    out["timerShape"] = bool(cb_ok and arm_ok and cancel_ok and start_ok and code is not None)

    # ---- handler
    h = nested["_handle"]
    hb = _strip_nonlocal(_body(h))
    handler_ok = False
    # optional prologue: the connection is counted by its own thread (`with state_lock: conn_count += 1; _cancel_timer_locked()
    # [; shutdown_requested = False]` as the very first statement of `_handle`)
    reg_in_handler = False
    handler_clears = False
    if hb and _is_lock_with(hb[0]):
        pb = [_u(x) for x in hb[0].body]
        if pb[:2] == ["conn_count += 1", "_cancel_timer_locked()"] and pb[2:] in ([], ["shutdown_requested = False"]):
            reg_in_handler = True
            handler_clears = pb[2:] == ["shutdown_requested = False"]
            hb = hb[1:]
    if len(hb) == 3 and isinstance(hb[2], ast.Try):
        t = hb[2]
        fin = t.finalbody
        handler_ok = (
            _u(hb[0]) == "if semaphore is not None:\n    semaphore.acquire()"
            and _u(hb[1]) == "transport = transport_factory(conn)"
            and [_u(x) for x in t.body] == ["server.serve(transport)"]
            and len(t.handlers) == 1 and _u(t.handlers[0].type) == "Exception"
            and len(fin) == 3
            and _u(fin[0]) == "transport.close()"
            and _u(fin[1]) == "if semaphore is not None:\n    semaphore.release()"
            and _is_lock_with(fin[2])
            and [_u(x) for x in fin[2].body] == [
                "conn_count -= 1",
                "if conn_count == 0 and idle_timeout is not None:\n    _arm_timer_locked(idle_timeout)",
                "active.discard(threading.current_thread())",
            ]
        )
    out["handlerShape"] = bool(handler_ok)

    # ---- the loop
    trys = [n for n in body if isinstance(n, ast.Try)]
    loop_ok = False
    clears = False
    join_secs = None
    if len(trys) == 1 and len(trys[0].body) == 1 and isinstance(trys[0].body[0], ast.While):
        wl = trys[0].body[0]
        lb = wl.body
        if len(lb) == 5 and isinstance(lb[0], ast.Try):
            lb = [lb[0], lb[1], None, lb[2], lb[3], lb[4]]  # no counting section in the loop
        if _u(wl.test) == "True" and len(lb) == 6 and isinstance(lb[0], ast.Try):
            acc = lb[0]
            hs = acc.handlers
            acc_ok = (
                [_u(x) for x in acc.body] == ["conn, _ = sock.accept()"]
                and len(hs) == 2 and _u(hs[0].type) == "TimeoutError" and _u(hs[1].type) == "OSError"
                and len(hs[0].body) == 2 and _is_lock_with(hs[0].body[0])
                and [_u(x) for x in hs[0].body[0].body] == ["if shutdown_requested:\n    break"]
                and isinstance(hs[0].body[1], ast.Continue)
                and len(hs[1].body) == 1 and isinstance(hs[1].body[0], ast.Break)
                and not acc.finalbody and not acc.orelse
            )
            reg = lb[2]
            reg_ok = False
            if reg is None:
                # counted exactly once: in the loop XOR in the handler's prologue
                reg_ok = reg_in_handler
                clears = handler_clears
            elif _is_lock_with(reg) and not reg_in_handler:
                rb = [_u(x) for x in reg.body]
                if rb[:2] == ["conn_count += 1", "_cancel_timer_locked()"]:
                    if rb[2:] == []:
                        reg_ok = True
                    elif rb[2:] == ["shutdown_requested = False"]:
                        reg_ok = True
                        clears = True
            rest_ok = (
                _u(lb[1]) == "conn.settimeout(None)"
                and isinstance(lb[3], ast.Assign) and _u(lb[3].targets[0]) == "t" and _u(lb[3].value.func) == "threading.Thread"
                and any(k.arg == "target" and _u(k.value) == "_handle" for k in lb[3].value.keywords)
                and _is_lock_with(lb[4]) and [_u(x) for x in lb[4].body] == ["active.add(t)"]
                and _u(lb[5]) == "t.start()"
            )
            fin = trys[0].finalbody
            fin_ok = False
            if len(fin) == 2 and _is_lock_with(fin[0]) and isinstance(fin[1], ast.For):
                fin_ok = [_u(x) for x in fin[0].body] == ["_cancel_timer_locked()", "snapshot = list(active)"] and _u(fin[1].iter) == "snapshot"
                jb = fin[1].body
                if len(jb) == 1 and isinstance(jb[0], ast.Expr) and isinstance(jb[0].value, ast.Call) and _u(jb[0].value.func) == "t.join":
                    for k in jb[0].value.keywords:
                        if k.arg == "timeout":
                            join_secs = _num(k.value, "join timeout")
                else:
                    fin_ok = False
            loop_ok = bool(acc_ok and reg_ok and rest_ok and fin_ok and not trys[0].handlers)
    if join_secs is None or join_secs != int(join_secs):
        raise ValueError("_serve_socket_threaded: `t.join(timeout=<whole seconds>)` not found in the finally block")
    out["joinTimeoutSecs"] = int(join_secs)
    out["loopShape"] = bool(loop_ok)
    out["clearsFlagOnAccept"] = bool(clears)
    out["registersInHandler"] = bool(reg_in_handler)
    out["sharedUnderLock"] = _shared_under_lock(fn)
    out["_nodes"] = [fn]
    return out


# ---------------------------------------------------------------------------------------------- (a) launcher


def analyse_launcher(text: str, ttext: str) -> dict:
    tree = ast.parse(text)
    out: dict = {}
    gc_limit = None
    for n in tree.body:
        if isinstance(n, ast.AnnAssign) and _u(n.target) == "_DEFAULT_GC_LIMIT" and n.value is not None:
            gc_limit = int(_num(n.value, "_DEFAULT_GC_LIMIT"))
    if gc_limit is None:
        raise ValueError("_DEFAULT_GC_LIMIT not found")
    out["gcLimit"] = gc_limit

    launch = _fn(tree, "launch")
    lb = _body(launch)
    shape = False
    trys = [n for n in lb if isinstance(n, ast.Try)]
    lock_assign = [n for n in lb if isinstance(n, ast.Assign) and _u(n.targets[0]) == "lock"]
    if len(trys) == 2 and len(lock_assign) == 1 and lb.index(lock_assign[0]) < lb.index(trys[0]) < lb.index(trys[1]):
        t0, t1 = trys
        acq_ok = (
            _u(lock_assign[0].value) == "FileLock(str(lock_path), timeout=config.connect_timeout)"
            and [_u(x) for x in t0.body] == ["lock.acquire()"]
            and len(t0.handlers) == 1 and _u(t0.handlers[0].type) == "Timeout"
            and len(t0.handlers[0].body) == 1 and isinstance(t0.handlers[0].body[0], ast.Raise)
            and not t0.finalbody
        )
        b = t1.body
        body_ok = (
            len(b) == 7
            and _u(b[0]) == "_require_socket_or_absent(sock_path)"
            and isinstance(b[1], ast.If) and _u(b[1].test) == "_probe(sock_path)"
            and [_u(x) for x in b[1].body] == ["return str(sock_path)"] and not b[1].orelse
            and _u(b[2]) == "_unlink_stale_socket(sock_path)"
            and isinstance(b[3], ast.If) and _u(b[3].test) == "meta_path is not None"
            and len(b[3].body) == 1 and _u(b[3].body[0]).startswith("_write_meta(meta_path,")
            and isinstance(b[4], ast.Assign) and _u(b[4].value.func) == "_spawn_worker"
            and _u(b[5]).startswith("_logger.debug(")
            and _u(b[6]) == "return str(sock_path)"
            and not t1.handlers
        )
        f = t1.finalbody
        fin_ok = (
            len(f) == 2
            and _u(f[0]) == "lock.release()"
            and isinstance(f[1], ast.If) and _u(f[1].test) == "hash_id is not None"
            and len(f[1].body) == 1 and isinstance(f[1].body[0], ast.With)
            and _u(f[1].body[0].items[0].context_expr) == "contextlib.suppress(Exception)"
            and [_u(x) for x in f[1].body[0].body] == ["gc_state_dir(state_dir, limit=_DEFAULT_GC_LIMIT, exclude_hash=hash_id)"]
        )
        # nothing after the guarded section
        shape = bool(acq_ok and body_ok and fin_ok and lb[-1] is t1)
    out["launchShape"] = shape

    # the lock file is keyed by the socket itself: a sibling of the socket (same directory entry namespace), so whatever spelling
    # of the socket's path a caller uses, the file system resolves socket and lock alike
    sib_explicit = False
    hash_branch = False
    for n in ast.walk(launch):
        if isinstance(n, ast.If) and _u(n.test) == "config.socket_path is not None":
            for st in n.body:
                if isinstance(st, ast.Assign) and _u(st.targets[0]) == "lock_path":
                    sib_explicit = _u(st.value) == "sock_path.with_suffix(sock_path.suffix + '.lock')"
            for st in n.orelse:
                if isinstance(st, ast.Assign) and _u(st.targets[0]).replace("(", "").replace(")", "") == "lock_path, sock_path_p, meta_path":
                    hash_branch = _u(st.value) == "_socket_paths(state_dir, hash_id)"
    sp = _body(_fn(tree, "_socket_paths"))
    sp_ok = len(sp) == 1 and isinstance(sp[0], ast.Return) and _u(sp[0].value).replace(" ", "") == (
        "(state_dir/f'{hash_id}.lock',state_dir/f'{hash_id}.sock',state_dir/f'{hash_id}.meta')")
    lock_assigns = [n for n in ast.walk(launch) if isinstance(n, ast.Assign) and any("lock_path" in _u(t) for t in n.targets)]
    out["lockKeyedBySocket"] = bool(sib_explicit and hash_branch and sp_ok and len(lock_assigns) == 2)

    gc = _fn(tree, "gc_state_dir")
    loops = [n for n in _body(gc) if isinstance(n, ast.For)]
    gshape = False
    if len(loops) == 1 and _u(loops[0].iter) == "sorted(state_dir.glob('*.meta'))":
        fb = loops[0].body
        excl = [n for n in fb if isinstance(n, ast.If) and _u(n.test) == "exclude_hash is not None and hash_id == exclude_hash"]
        trs = [n for n in fb if isinstance(n, ast.Try)]
        if len(excl) == 1 and isinstance(excl[0].body[0], ast.Continue) and len(trs) == 2 and fb[-1] is trs[1] and fb.index(excl[0]) < fb.index(trs[0]):
            a, w = trs
            a_ok = (
                [_u(x) for x in a.body] == ["probe_lock = FileLock(str(lock_path), timeout=0.0)", "probe_lock.acquire()"]
                and len(a.handlers) == 1 and _u(a.handlers[0].type) == "Timeout"
                and isinstance(a.handlers[0].body[-1], ast.Continue)
            )
            wb = w.body
            w_ok = (
                len(wb) == 3
                and isinstance(wb[0], ast.If) and _u(wb[0].test) == "_probe(sock_path)" and isinstance(wb[0].body[-1], ast.Continue)
                and isinstance(wb[1], ast.For) and _u(wb[1].iter) == "(sock_path, meta_path, lock_path)"
                and len(wb[1].body) == 1 and isinstance(wb[1].body[0], ast.With)
                and _u(wb[1].body[0].items[0].context_expr) == "contextlib.suppress(OSError)"
                and [_u(x) for x in wb[1].body[0].body] == [f"os.unlink({_u(wb[1].target)})"]
                and _u(wb[2]) == "cleaned.append(hash_id)"
                and len(w.finalbody) == 1 and isinstance(w.finalbody[0], ast.With)
                and [_u(x) for x in w.finalbody[0].body] == ["probe_lock.release()"]
            )
            paths_ok = any(_u(n) == "sock_path = state_dir / f'{hash_id}.sock'" for n in fb) and any(
                _u(n) == "lock_path = state_dir / f'{hash_id}.lock'" for n in fb)
            gshape = bool(a_ok and w_ok and paths_ok)
    out["gcShape"] = gshape

    # worker exit (serve_unix finally) and its non-atomic unlink
    ttree = ast.parse(ttext)
    su = _fn(ttree, "serve_unix")
    sut = [n for n in _body(su) if isinstance(n, ast.Try)]
    wshape = False
    if len(sut) == 1:
        fin = sut[0].finalbody
        starts = [_u(n) for n in _body(su)]
        order_ok = (
            "_check_no_existing_listener(path)" in starts and "_unlink_stale_unix_socket(path)" in starts
            and starts.index("_check_no_existing_listener(path)") < starts.index("_unlink_stale_unix_socket(path)")
        )
        tb = [_u(n) for n in sut[0].body]
        bound_before_loop = any(x.startswith("if on_bound is not None") for x in tb) and any("_serve_socket_threaded(server, sock, max_connections, idle_timeout" in x for x in tb)
        fin_ok = (
            len(fin) == 2 and _u(fin[0]) == "sock.close()"
            and isinstance(fin[1], ast.If) and _u(fin[1].test) == "bound_identity is not None"
            and [_u(x) for x in fin[1].body] == ["_unlink_bound_unix_socket(path, bound_identity)"]
        )
        ub = _body(_fn(ttree, "_unlink_bound_unix_socket"))
        ub_ok = (
            len(ub) == 2 and isinstance(ub[0], ast.Try) and [_u(x) for x in ub[0].body] == ["entry = os.lstat(path)"]
            and len(ub[0].handlers) == 1 and _u(ub[0].handlers[0].type) == "FileNotFoundError"
            and isinstance(ub[1], ast.If)
            and _u(ub[1].test) == "stat.S_ISSOCK(entry.st_mode) and (entry.st_dev, entry.st_ino) == identity"
            and len(ub[1].body) == 1 and isinstance(ub[1].body[0], ast.With)
            and [_u(x) for x in ub[1].body[0].body] == ["os.unlink(path)"]
        )
        guard = [n for n in _body(su) if isinstance(n, ast.If) and _u(n.test) == "idle_timeout is not None and (not threaded)"]
        st = _fn(ttree, "serve_tcp")
        tcp_ok = any("_serve_socket_threaded(server, sock, max_connections, idle_timeout" in _u(n) for n in ast.walk(st) if isinstance(n, ast.Expr))
        wshape = bool(order_ok and bound_before_loop and fin_ok and ub_ok and len(guard) == 1 and tcp_ok)
    out["workerExitShape"] = wshape

    # worker start-up order: bind -> listen -> announce (on_bound) -> accept loop.  `_spawn_worker` (hence `launch`) returns on
    # the announcement, so it must come after listen().
    def _order(stmts: list[ast.stmt], announce: str) -> bool:
        idx: dict[str, int] = {}
        for i, st in enumerate(stmts):
            u = _u(st)
            if isinstance(st, ast.Expr) and u.startswith("sock.bind("):
                idx.setdefault("bind", i)
            elif isinstance(st, ast.Try) and any(_u(x).startswith("sock.bind(") for x in st.body):
                idx.setdefault("bind", i)  # serve_unix binds under a umask guard
            elif isinstance(st, ast.Expr) and u.startswith("sock.listen("):
                idx.setdefault("listen", i)
            elif isinstance(st, ast.If) and _u(st.test) == "on_bound is not None" and [_u(x) for x in st.body] == [announce]:
                idx.setdefault("announce", i)
            elif "_serve_socket_threaded(" in u or "_serve_socket_sequential(" in u:
                idx.setdefault("serve", i)
        return set(idx) == {"bind", "listen", "announce", "serve"} and idx["bind"] < idx["listen"] < idx["announce"] < idx["serve"]

    out["listenBeforeAnnounce"] = bool(len(sut) == 1 and _order(list(sut[0].body), "on_bound(path)"))
    out["tcpListenBeforeAnnounce"] = _order(_body(_fn(ttree, "serve_tcp")), "on_bound(host, bound_port)")
    out["_nodes"] = [launch, gc, su, _fn(ttree, "_unlink_bound_unix_socket")]
    return out


def analyse_filelock() -> dict:
    """Two facts about the installed `filelock` (the dependency the launcher's mutual exclusion rests on)."""
    import filelock  # noqa: PLC0415 - extraction fails loudly when the dependency is absent

    src = (Path(filelock.__file__).parent / "_unix.py").read_text()
    tree = ast.parse(src)
    cls = [n for n in ast.walk(tree) if isinstance(n, ast.ClassDef) and n.name == "UnixFileLock"]
    checks = False
    unlinks = False
    for c in cls:
        fns = {f.name: f for f in c.body if isinstance(f, ast.FunctionDef)}
        if "_acquire" not in fns or "_release" not in fns or all(
                isinstance(s, ast.Raise) for s in fns["_acquire"].body if not isinstance(s, ast.Expr)):
            continue  # the win32 stub
        # the re-check: some method reachable from _acquire compares `<fstat result>.st_nlink` and closes the fd when it is 0
        for f in fns.values():
            if f.name == "_release":
                continue
            for n in ast.walk(f):
                if isinstance(n, ast.Compare) and any(isinstance(x, ast.Attribute) and x.attr == "st_nlink" for x in ast.walk(n)):
                    checks = True
        for n in ast.walk(fns["_release"]):
            if isinstance(n, ast.Call) and (_u(n.func).endswith("unlink") or _u(n.func).endswith("remove")):
                unlinks = True
    return {"filelockChecksNlink": checks, "filelockUnlinksOnRelease": unlinks, "filelockVersion": getattr(filelock, "__version__", "?")}


def _fingerprint(nodes: list[ast.AST]) -> str:
    h = hashlib.sha256()
    for n in nodes:
        h.update(ast.dump(n, annotate_fields=False, include_attributes=False).encode())
    return h.hexdigest()[:16]


def _b(x: bool) -> str:
    return "true" if x else "false"


def emit() -> dict[str, str]:
    ttext = (REPO / TRANSPORT).read_text()
    a = analyse_loop(ttext)
    l = analyse_launcher((REPO / LAUNCHER).read_text(), ttext)
    f = analyse_filelock()
    fp = _fingerprint(a["_nodes"] + l["_nodes"])
    body = f"""/-
Extracted from {TRANSPORT} (`_serve_socket_threaded`, `serve_unix`, `serve_tcp`, `_unlink_bound_unix_socket`),
{LAUNCHER} (`launch`, `gc_state_dir`) and the installed `filelock` (`_unix.py`).
-/
namespace VgiVerif.Gen.C33

/-- `sock.settimeout(0.5)`: the accept loop wakes up this often to look at `shutdown_requested` -/
def acceptTimeoutMillis : Nat := {a["acceptTimeoutMillis"]}

/-- `_arm_timer_locked(max(idle_timeout, 60.0))`: the floor of the start-up grace, seconds -/
def graceFloorSecs : Nat := {a["graceFloorSecs"]}

/-- `t.join(timeout=10)` in the `finally` block -/
def joinTimeoutSecs : Nat := {a["joinTimeoutSecs"]}

/-- the accept critical section (`conn_count += 1; _cancel_timer_locked()`) also does `shutdown_requested = False` -/
def clearsFlagOnAccept : Bool := {_b(a["clearsFlagOnAccept"])}

/-- `_close_listener_if_idle(fired)` starts with `if timer is not fired: return` (under the lock) and
`_arm_timer_locked` hands every new `Timer` its own identity -/
def callbackChecksCurrent : Bool := {_b(a["callbackChecksCurrent"])}

/-- WHERE a connection is counted: `false` = the accept loop runs `with state_lock: conn_count += 1; _cancel_timer_locked()
[; clear]` right after `accept()`, before the connection's thread exists; `true` = that section is the first statement
of `_handle`, i.e. it runs in the connection's own thread, whenever that thread gets to run -/
def registersInHandler : Bool := {_b(a["registersInHandler"])}

/-- the stale-callback test and the binding of its argument: 0 = no test (`Timer(seconds, _close_listener_if_idle)`);
1 = `timer is not fired` with `fired` bound EARLY to the callback's own timer (`armed = Timer(…, lambda: cb(armed)); timer = armed`
— `armed` a local of `_arm_timer_locked` assigned once); 2 / 3 = the lambda passes the shared variable `timer`, read when the
timer fires (late-binding closure; 2 = with a `fired is None or` guard, 3 = without): the test compares `timer` with itself -/
def callbackCheck : Nat := {a["callbackCheck"]}

/-- every access to `conn_count` / `timer` / `shutdown_requested` after their initialisation is inside
`with state_lock:` (directly, or in a `*_locked` helper that is only called there) -/
def sharedUnderLock : Bool := {_b(a["sharedUnderLock"])}

/-- `try: while True: try: conn, _ = sock.accept() / except TimeoutError: with state_lock: if shutdown_requested:
break; continue / except OSError: break; conn.settimeout(None); with state_lock: conn_count += 1;
_cancel_timer_locked() [; shutdown_requested = False]; t = Thread(target=_handle…); with state_lock: active.add(t);
t.start() / finally: with state_lock: _cancel_timer_locked(); snapshot = list(active); for t in snapshot: t.join(…)` -/
def loopShape : Bool := {_b(a["loopShape"])}

/-- `_handle`: `[semaphore.acquire()]; transport = …; try: server.serve(transport) except Exception … finally:
transport.close(); [semaphore.release()]; with state_lock: conn_count -= 1; if conn_count == 0 and idle_timeout is
not None: _arm_timer_locked(idle_timeout); active.discard(current_thread())` -/
def handlerShape : Bool := {_b(a["handlerShape"])}

/-- `_close_listener_if_idle`: `with state_lock: [stale check;] timer = None; if conn_count != 0: return;
shutdown_requested = True`; `_arm_timer_locked`: cancel the stored timer, create, `daemon`, store, start;
`_cancel_timer_locked`: `if timer is not None: timer.cancel(); timer = None`; the start-up arm under the lock -/
def timerShape : Bool := {_b(a["timerShape"])}

/-- `_DEFAULT_GC_LIMIT` -/
def gcLimit : Nat := {l["gcLimit"]}

/-- `launch`: `lock = FileLock(lock_path, timeout=connect_timeout); lock.acquire() (Timeout → RuntimeError); try:
_require_socket_or_absent; if _probe: return path; _unlink_stale_socket; [_write_meta]; _spawn_worker; return path
finally: lock.release(); if hash_id is not None: suppress: gc_state_dir(…, exclude_hash=hash_id)` -/
def launchShape : Bool := {_b(l["launchShape"])}

/-- `gc_state_dir`, per `*.meta` entry other than `exclude_hash`: `FileLock(lock_path, timeout=0.0).acquire()`
(Timeout → skipped); `try: if _probe(sock): continue; for p in (sock, meta, lock): suppress(OSError): os.unlink(p)
finally: release` -/
def gcShape : Bool := {_b(l["gcShape"])}

/-- `serve_unix`: `_check_no_existing_listener; _unlink_stale_unix_socket; bind … on_bound; _serve_socket_threaded`
and `finally: sock.close(); _unlink_bound_unix_socket(path, identity)` where the latter is `lstat` → identity
comparison → `unlink` (three separate steps); `serve_tcp` hands `idle_timeout` to the same loop -/
def workerExitShape : Bool := {_b(l["workerExitShape"])}

/-- `launch`: the lock file is a sibling of the socket named after it (`<sock>.lock` for an explicit `socket_path`;
`<hash>.lock` next to `<hash>.sock` from `_socket_paths`): lock identity is a function of the socket's identity, not of the
spelling of its path -/
def lockKeyedBySocket : Bool := {_b(l["lockKeyedBySocket"])}

/-- `serve_unix`: `sock.bind` < `sock.listen` < `on_bound(path)` < the accept loop, in this order: the socket listens when the
`UNIX:<path>` announcement (on which `_spawn_worker`, hence `launch`, returns) is written -/
def listenBeforeAnnounce : Bool := {_b(l["listenBeforeAnnounce"])}

/-- `serve_tcp`: the same order (`sock.bind` < `sock.listen` < `on_bound(host, port)` < the accept loop) -/
def tcpListenBeforeAnnounce : Bool := {_b(l["tcpListenBeforeAnnounce"])}

/-- installed filelock {f["filelockVersion"]}: after a successful `flock`, a lock whose inode has `st_nlink == 0` is dropped -/
def filelockChecksNlink : Bool := {_b(f["filelockChecksNlink"])}

/-- installed filelock: `UnixFileLock._release` unlinks the lock file -/
def filelockUnlinksOnRelease : Bool := {_b(f["filelockUnlinksOnRelease"])}

/-- normalised-AST fingerprint of the modelled functions (drift indicator only) -/
def fingerprint : String := "{fp}"

end VgiVerif.Gen.C33
"""
    return {"C33.lean": body}
