"""C16: the shape of the response-size-cap checks — which comparison each guard uses, whether the three HTTP paths hand
the external-storage budget down to the upload helpers, and whether those compare the *serialized* payload with it
before `storage.upload()` is called.  Emitted as one `Shape` value; `Model/C16` is parametric in it."""

from __future__ import annotations

import ast
import os
from pathlib import Path
from typing import Any

REPO = Path(os.environ.get("VERIF_REPO", "/repo"))
PROPS = ["C16"]


class Shape(Exception):
    """The source no longer has the shape this extractor understands (fails loudly)."""


OPS = {ast.Lt: "lt", ast.LtE: "le", ast.Gt: "gt", ast.GtE: "ge"}


def _tree(rel: str) -> ast.Module:
    return ast.parse((REPO / rel).read_text())


def _func(tree: ast.AST, name: str) -> ast.FunctionDef:
    for n in ast.walk(tree):
        if isinstance(n, ast.FunctionDef) and n.name == name:
            return n
    raise Shape(f"function {name} not found")


def _callee(c: ast.Call) -> str:
    f = c.func
    return f.id if isinstance(f, ast.Name) else (f.attr if isinstance(f, ast.Attribute) else "")


def _compares(node: ast.AST) -> list[ast.Compare]:
    return [n for n in ast.walk(node) if isinstance(n, ast.Compare) and len(n.ops) == 1 and type(n.ops[0]) in OPS]


def _cmp(node: ast.AST, left: Any, right: Any, what: str) -> str:
    """The single ordering comparison in `node` whose sides satisfy the predicates (on unparsed text)."""
    found = [c for c in _compares(node) if left(ast.unparse(c.left)) and right(ast.unparse(c.comparators[0]))]
    if len(found) != 1:
        raise Shape(f"{what}: expected one comparison, found {[ast.unparse(c) for c in found]}")
    return OPS[type(found[0].ops[0])]


def _threshold(fn: ast.FunctionDef) -> str:
    ifs = [n for n in fn.body if isinstance(n, ast.If) and "externalize_threshold_bytes" in ast.unparse(n.test)]
    if len(ifs) != 1:
        raise Shape(f"{fn.name}: threshold guard")
    i = ifs[0]
    # the guarded branch keeps the batch inline / predicts 0
    if not (len(i.body) == 1 and isinstance(i.body[0], ast.Return)):
        raise Shape(f"{fn.name}: threshold guard does not return")
    return _cmp(i.test, lambda s: "size" in s, lambda s: s.endswith("externalize_threshold_bytes"), f"{fn.name} threshold")


def _skips_empty(fn: ast.FunctionDef) -> bool:
    return any(isinstance(n, ast.If) and ast.unparse(n.test) == "batch.num_rows == 0" and isinstance(n.body[0], ast.Return) for n in fn.body)


def _budget(fn: ast.FunctionDef) -> str | None:
    """`if max_external_bytes is not None and len(ipc_bytes) <op> max_external_bytes: raise …` before the upload call."""
    upload_line = min((n.lineno for n in ast.walk(fn) if isinstance(n, ast.Call) and _callee(n) in ("_traced_upload", "upload")), default=None)
    if upload_line is None:
        raise Shape(f"{fn.name}: upload call not found")
    for n in fn.body:
        if isinstance(n, ast.If) and "max_external_bytes" in ast.unparse(n.test) and n.lineno < upload_line:
            if not any(isinstance(x, ast.Raise) for x in n.body):
                continue
            t = n.test
            if not (isinstance(t, ast.BoolOp) and isinstance(t.op, ast.And) and ast.unparse(t.values[0]) == "max_external_bytes is not None"):
                raise Shape(f"{fn.name}: budget guard is not `max_external_bytes is not None and …`")
            return _cmp(t, lambda s: s == "len(ipc_bytes)", lambda s: s == "max_external_bytes", f"{fn.name} budget")
    return None


def _returns_raw_size(fn: ast.FunctionDef) -> bool:
    """The helper reports `raw_size` (= len of the serialized payload before compression) as the uploaded byte count."""
    src = ast.unparse(fn)
    return "raw_size = original_bytes if original_bytes is not None else len(ipc_bytes)" in src and "raw_size" in ast.unparse(fn.body[-1])


def _kw(call: ast.Call, name: str) -> str | None:
    for k in call.keywords:
        if k.arg == name:
            return ast.unparse(k.value)
    return None


def _one_call(fn: ast.AST, callee: str) -> ast.Call:
    cs = [n for n in ast.walk(fn) if isinstance(n, ast.Call) and _callee(n) == callee]
    if len(cs) != 1:
        raise Shape(f"expected one call of {callee}, found {len(cs)}")
    return cs[0]


def _has_call(fn: ast.AST, callee: str) -> bool:
    return any(isinstance(n, ast.Call) and _callee(n) == callee for n in ast.walk(fn))


def _only_error_batch(with_node: ast.With) -> bool:
    """The `with new_ipc_stream(...) as w:` block writes the error batch and nothing else."""
    calls = [n for st in with_node.body for n in ast.walk(st) if isinstance(n, ast.Call)]
    names = [_callee(c) for c in calls]
    return len(with_node.body) == 1 and names.count("_write_error_batch") == 1 and not any(
        n in ("_flush_collector_logs", "_flush_collector", "write_batch", "flush_contents", "_write_message_batch") for n in names)


def _replacement_shapes(un: ast.FunctionDef, st: ast.Module) -> tuple[bool, bool]:
    """Is the response that replaces an oversize body a fresh stream with only the error batch (unary, exchange)?"""
    unary = False
    for t in [t for t in ast.walk(un) if isinstance(t, ast.Try)]:
        for h in t.handlers:
            if h.type is not None and ast.unparse(h.type) == "RuntimeError" and any(
                    isinstance(c, ast.Call) and _callee(c) == "_enforce_response_budgets" for b in t.body for c in ast.walk(b)):
                fresh = any(isinstance(n, ast.Assign) and ast.unparse(n.targets[0]) == "resp_buf" and ast.unparse(n.value) == "BytesIO()" for n in h.body)
                withs = [n for n in h.body if isinstance(n, ast.With)]
                unary = fresh and len(withs) == 1 and _only_error_batch(withs[0]) and "resp_buf" in ast.unparse(withs[0].items[0])
    er = _func(st, "_exchange_error_response")
    withs = [n for n in er.body if isinstance(n, ast.With)]
    fresh = any(isinstance(n, ast.Assign) and ast.unparse(n.targets[0]) == "resp_buf" and ast.unparse(n.value) == "BytesIO()" for n in er.body)
    exchange = fresh and len(withs) == 1 and _only_error_batch(withs[0])
    # every cap-overshoot site of the exchange turn answers through that helper
    ex = _func(st, "_run_http_exchange_turn")
    sites = [n for n in ast.walk(ex) if isinstance(n, ast.Return) and isinstance(n.value, ast.Call) and _callee(n.value) == "_exchange_error_response"]
    if len(sites) != 2:
        raise Shape(f"exchange turn: expected two overshoot sites returning _exchange_error_response, found {len(sites)}")
    return unary, exchange


def emit() -> dict[str, str]:
    ext = _tree("vgi_rpc/external.py")
    pb, pc = _func(ext, "predict_externalize_bytes_for_batch"), _func(ext, "predict_externalize_bytes_for_collector")
    ub, uc = _func(ext, "maybe_externalize_batch"), _func(ext, "maybe_externalize_collector")
    for fn in (ub, uc):
        if not _returns_raw_size(fn):
            raise Shape(f"{fn.name}: does not report the pre-compression payload size")
    wire = _tree("vgi_rpc/rpc/_wire.py")
    # the wire helpers forward the keyword unchanged
    wr, fl = _func(wire, "_write_result_batch"), _func(wire, "_flush_collector")
    fwd_b = _has_call(wr, "maybe_externalize_batch") and _kw(_one_call(wr, "maybe_externalize_batch"), "max_external_bytes") == "max_external_bytes"
    fwd_c = _has_call(fl, "maybe_externalize_collector") and _kw(_one_call(fl, "maybe_externalize_collector"), "max_external_bytes") == "max_external_bytes"

    un = _func(_tree("vgi_rpc/http/server/_app_unary.py"), "_run_unary_sync")
    st = _tree("vgi_rpc/http/server/_app_stream.py")
    ex, pr = _func(st, "_run_http_exchange_turn"), _func(st, "_run_http_producer_turn")
    cap = "app._max_externalized_response_bytes"
    unary_pass = fwd_b and _kw(_one_call(un, "_write_result_batch"), "max_external_bytes") == cap
    exch_pass = fwd_c and _kw(_one_call(ex, "_flush_collector"), "max_external_bytes") == cap
    prod_budget = _kw(_one_call(pr, "_flush_collector"), "max_external_bytes")
    prod_pass = fwd_c and prod_budget is not None and prod_budget.replace(" ", "") == \
        "Noneifmax_external_bytesisNoneelsemax(0,max_external_bytes-cumulative_external_bytes)"
    # producer: `max_external_bytes = app._max_externalized_response_bytes`
    if not any(isinstance(n, ast.Assign) and ast.unparse(n.targets[0]) == "max_external_bytes" and ast.unparse(n.value) == cap for n in ast.walk(pr)):
        raise Shape("producer: max_external_bytes is not the app's external cap")

    unary_pre = _cmp(un, lambda s: s == "predicted_external", lambda s: s == cap, "unary pre-flight")
    exch_pre = _cmp(ex, lambda s: s == "predicted_external", lambda s: s == cap, "exchange pre-flight")
    prod_pre = _cmp(pr, lambda s: s.replace(" ", "") == "cumulative_external_bytes+predicted", lambda s: s == "max_external_bytes", "producer pre-flight")
    prod_cont = _cmp(pr, lambda s: s in ("resp_buf.tell()", "write_sink.tell()"), lambda s: s == "max_bytes", "producer should_continue")
    enf = _func(_tree("vgi_rpc/http/server/_responses.py"), "_enforce_response_budgets")
    enf_w = _cmp(enf, lambda s: s == "wire_bytes", lambda s: s == "wire_cap", "enforce wire")
    enf_e = _cmp(enf, lambda s: s == "external_bytes", lambda s: s == "external_cap", "enforce external")

    repl_unary, repl_exchange = _replacement_shapes(un, st)

    def b(x: bool) -> str:
        return "true" if x else "false"

    def o(x: str | None) -> str:
        return "none" if x is None else f"some .{x}"

    body = f"""import VgiVerif.Prelude.SizeCaps
namespace VgiVerif.Gen.RespCaps
open VgiVerif.SizeCaps

/-- shape of the cap checks in vgi_rpc/external.py, vgi_rpc/rpc/_wire.py, http/server/_app_unary.py,
    _app_stream.py and _responses.py of the working tree -/
def shape : Shape where
  predictBatchThreshold := .{_threshold(pb)}
  predictCollThreshold := .{_threshold(pc)}
  uploadBatchThreshold := .{_threshold(ub)}
  uploadCollThreshold := .{_threshold(uc)}
  predictBatchSkipsEmpty := {b(_skips_empty(pb))}
  uploadBatchSkipsEmpty := {b(_skips_empty(ub))}
  uploadBatchBudget := {o(_budget(ub))}
  uploadCollBudget := {o(_budget(uc))}
  unaryPassesBudget := {b(bool(unary_pass))}
  exchangePassesBudget := {b(bool(exch_pass))}
  producerPassesBudget := {b(bool(prod_pass))}
  unaryPreflight := .{unary_pre}
  exchangePreflight := .{exch_pre}
  producerPreflight := .{prod_pre}
  enforceWire := .{enf_w}
  enforceExternal := .{enf_e}
  unaryEnforces := {b(_has_call(un, "_enforce_response_budgets"))}
  exchangeEnforces := {b(_has_call(ex, "_enforce_response_budgets"))}
  producerEnforces := {b(_has_call(pr, "_enforce_response_budgets"))}
  producerContinue := .{prod_cont}
  unaryReplacementOnlyError := {b(repl_unary)}
  exchangeReplacementOnlyError := {b(repl_exchange)}

end VgiVerif.Gen.RespCaps
"""
    return {"RespCaps.lean": body}
