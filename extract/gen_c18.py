"""C18 (also read by C17 / C19): constants, enum members and loop *shapes* of ``vgi_rpc/_codec.py``.

Everything the Lean model of the codec layer is parametric in comes from here:

* ``_DECOMPRESS_CHUNK_BYTES`` and the default levels,
* the members of ``Encoding`` (definition order = iteration order of ``for enc in Encoding``),
* the "content size unknown" sentinels of ``_zstd_content_size``,
* for both bounded loops: the read-size expression ``min(CHUNK, max_output_size - total + K)`` (``K`` is the
  sentinel byte), the comparison operator of every ``total <op> max_output_size`` guard, whether the declared-size
  pre-check precedes the one-shot call, whether gzip checks ``do.eof``,
* that ``compress`` / ``decompress`` test ``IDENTITY`` first and return ``data``,
* the shape of ``parse_encoding_list`` (separators, strip/lower order, maxsplit).

The extractor fails loudly (extraction error -> the check searches with a raised budget) on anything outside the
fragment it recognises.
"""

from __future__ import annotations

import ast
import os
import re
from pathlib import Path

from .regex_to_lean import lean_str

REPO = Path(os.environ.get("VERIF_REPO", "/repo"))
PROPS = ["C17", "C18", "C19"]

_CMP = {ast.Gt: "Gt", ast.GtE: "GtE", ast.Lt: "Lt", ast.LtE: "LtE", ast.Eq: "Eq", ast.NotEq: "NotEq"}


class Shape(Exception):
    pass


def _func(tree: ast.Module, name: str) -> ast.FunctionDef:
    for n in tree.body:
        if isinstance(n, ast.FunctionDef) and n.name == name:
            return n
    raise Shape(f"function {name} not found")


def _const(tree: ast.Module, name: str) -> int:
    for n in tree.body:
        if isinstance(n, ast.Assign) and len(n.targets) == 1 and isinstance(n.targets[0], ast.Name) and n.targets[0].id == name:
            v = ast.literal_eval(n.value)
            if not isinstance(v, int):
                raise Shape(f"{name} is not an int literal")
            return v
    raise Shape(f"constant {name} not found")


def _enum_members(tree: ast.Module, cls: str) -> list[tuple[str, str]]:
    for n in tree.body:
        if isinstance(n, ast.ClassDef) and n.name == cls:
            out = []
            for b in n.body:
                if isinstance(b, ast.Assign) and len(b.targets) == 1 and isinstance(b.targets[0], ast.Name):
                    v = ast.literal_eval(b.value)
                    if not isinstance(v, str):
                        raise Shape(f"{cls}.{b.targets[0].id} is not a str")
                    out.append((b.targets[0].id, v))
            return out
    raise Shape(f"class {cls} not found")


_READ_RE = re.compile(r"^min\(_DECOMPRESS_CHUNK_BYTES, max_output_size - total(?: \+ (\d+))?\)$")


def _read_extra(fn: ast.FunctionDef, attr: str, argpos: int) -> int:
    """`K` of the one `<obj>.<attr>(…, min(_DECOMPRESS_CHUNK_BYTES, max_output_size - total + K))` call inside a loop."""
    hits = []
    for loop in ast.walk(fn):
        if not isinstance(loop, ast.While):
            continue
        for n in ast.walk(loop):
            if isinstance(n, ast.Call) and isinstance(n.func, ast.Attribute) and n.func.attr == attr and len(n.args) > argpos:
                hits.append(ast.unparse(n.args[argpos]))
    if len(hits) != 1:
        raise Shape(f"{fn.name}: expected one bounded .{attr}() call in a while loop, found {hits}")
    m = _READ_RE.match(hits[0])
    if not m:
        raise Shape(f"{fn.name}: read size {hits[0]!r} is not min(_DECOMPRESS_CHUNK_BYTES, max_output_size - total + K)")
    return int(m.group(1) or 0)


def _guards(fn: ast.FunctionDef, left: str) -> list[tuple[str, bool]]:
    """(operator, inside-a-while?) of every `if <left> <op> max_output_size: raise DecompressionLimitExceeded`, in source order."""
    out: list[tuple[int, str, bool]] = []
    loops = [n for n in ast.walk(fn) if isinstance(n, ast.While)]
    in_loop = {id(x) for lp in loops for x in ast.walk(lp)}
    for n in ast.walk(fn):
        if not isinstance(n, ast.If):
            continue
        raises = [r for r in n.body if isinstance(r, ast.Raise) and r.exc is not None and "DecompressionLimitExceeded" in ast.unparse(r.exc)]
        if not raises:
            continue
        t = n.test
        cmp = None
        if isinstance(t, ast.Compare):
            cmp = t
        elif isinstance(t, ast.BoolOp) and isinstance(t.op, ast.And):
            for v in t.values:
                if isinstance(v, ast.Compare) and len(v.ops) == 1 and not isinstance(v.ops[0], (ast.Is, ast.IsNot)):
                    cmp = v
        if cmp is None or len(cmp.ops) != 1 or ast.unparse(cmp.left) != left or ast.unparse(cmp.comparators[0]) != "max_output_size":
            continue
        op = _CMP.get(type(cmp.ops[0]))
        if op is None:
            raise Shape(f"{fn.name}: unsupported comparison in {ast.unparse(t)}")
        out.append((n.lineno, op, id(n) in in_loop))
    return [(op, il) for _ln, op, il in sorted(out)]


def _eof_checks(fn: ast.FunctionDef) -> tuple[bool, bool]:
    """(uncapped path checks `do.eof`, capped path checks `do.eof` after the tail) for the gzip decoder."""
    unc = cap = False
    for n in fn.body:
        if isinstance(n, ast.If) and ast.unparse(n.test) == "max_output_size is None":
            for m in ast.walk(n):
                if isinstance(m, ast.If) and ast.unparse(m.test) == "not do.eof" and any(isinstance(r, ast.Raise) for r in m.body):
                    unc = True
        elif isinstance(n, ast.If) and ast.unparse(n.test) == "not do.eof" and any(isinstance(r, ast.Raise) for r in n.body):
            # must come after the tail handling and before the return
            cap = True
    return unc, cap


def _breaks_on_eof(fn: ast.FunctionDef) -> bool:
    """Inside the bounded gzip loop, after the `.decompress(inbuf, …)` statement: `if do.eof: break`."""
    for loop in ast.walk(fn):
        if not isinstance(loop, ast.While):
            continue
        seen_dec = False
        for st in loop.body:
            if any(isinstance(n, ast.Call) and isinstance(n.func, ast.Attribute) and n.func.attr == "decompress" for n in ast.walk(st)):
                seen_dec = True
            if (
                seen_dec
                and isinstance(st, ast.If)
                and ast.unparse(st.test) == "do.eof"
                and len(st.body) == 1
                and isinstance(st.body[0], ast.Break)
                and not st.orelse
            ):
                return True
    return False


def _identity_first(fn: ast.FunctionDef) -> bool:
    """First statement after the docstring is `if encoding is Encoding.IDENTITY: return data`."""
    body = [b for b in fn.body if not (isinstance(b, ast.Expr) and isinstance(b.value, ast.Constant))]
    if not body or not isinstance(body[0], ast.If):
        return False
    i = body[0]
    return (
        ast.unparse(i.test) == "encoding is Encoding.IDENTITY"
        and len(i.body) == 1
        and isinstance(i.body[0], ast.Return)
        and ast.unparse(i.body[0].value) == "data"
    )


def _dispatch_order(fn: ast.FunctionDef) -> list[str]:
    out = []
    for b in fn.body:
        if isinstance(b, ast.If):
            m = re.match(r"^encoding is Encoding\.(\w+)$", ast.unparse(b.test))
            if m:
                out.append(m.group(1))
    return out


def _zstd_precheck_first(fn: ast.FunctionDef) -> bool:
    """In the capped part: the `declared > max_output_size` raise comes before the one-shot `decompress(data)` return."""
    pre = one = None
    for b in fn.body:
        if isinstance(b, ast.If):
            src = ast.unparse(b.test)
            if src.startswith("declared is not None and declared") and any(isinstance(r, ast.Raise) for r in b.body):
                pre = b.lineno
            elif src == "declared is not None" and any(isinstance(r, ast.Return) for r in b.body):
                one = b.lineno
    return pre is not None and one is not None and pre < one


def _parse_shape(fn: ast.FunctionDef) -> dict[str, object]:
    """Shape of parse_encoding_list: `for raw in header_value.split(SEP)`, `raw.strip().lower()`, `';' in token` cut."""
    src = ast.unparse(fn)
    m = re.search(r"for raw in header_value\.split\('(.)'\):", src)
    if not m:
        raise Shape("parse_encoding_list: outer split not recognised")
    sep = m.group(1)
    strip_lower = "token = raw.strip().lower()" in src
    m2 = re.search(r"if '(.)' in token:\n\s+token = token\.split\('(.)', 1\)\[0\]\.strip\(\)", src)
    if not m2 or m2.group(1) != m2.group(2):
        raise Shape("parse_encoding_list: parameter cut not recognised")
    skip_empty = re.search(r"if not token:\n\s+continue", src) is not None
    inner = "for enc in Encoding:" in src and "if enc.value == token and enc not in seen:" in src
    return {"sep": sep, "param": m2.group(1), "strip_lower": strip_lower, "skip_empty": skip_empty, "inner": inner}


def _b(x: bool) -> str:
    return "true" if x else "false"


def emit() -> dict[str, str]:
    tree = ast.parse((REPO / "vgi_rpc/_codec.py").read_text())
    chunk = _const(tree, "_DECOMPRESS_CHUNK_BYTES")
    zl = _const(tree, "_DEFAULT_ZSTD_LEVEL")
    gl = _const(tree, "_DEFAULT_GZIP_LEVEL")
    wbits = _const(tree, "_GZIP_WBITS")
    unknown = _const(tree, "_ZSTD_CONTENTSIZE_UNKNOWN")
    members = _enum_members(tree, "Encoding")

    # _zstd_content_size: `if size in (<a>, <b>): return None`
    zcs = _func(tree, "_zstd_content_size")
    sent: list[int] | None = None
    for n in ast.walk(zcs):
        if isinstance(n, ast.Compare) and len(n.ops) == 1 and isinstance(n.ops[0], ast.In) and ast.unparse(n.left) == "size":
            if not isinstance(n.comparators[0], ast.Tuple):
                raise Shape("_zstd_content_size: sentinel set is not a tuple")
            sent = []
            for e in n.comparators[0].elts:
                if isinstance(e, ast.Name) and e.id == "_ZSTD_CONTENTSIZE_UNKNOWN":
                    sent.append(unknown)
                else:
                    sent.append(int(ast.literal_eval(e)))
    if sent is None:
        raise Shape("_zstd_content_size: `size in (…)` not found")

    zfn = _func(tree, "_decompress_body_zstd")
    z_extra = _read_extra(zfn, "read", 0)
    zg_declared = _guards(zfn, "declared")
    zg_total = _guards(zfn, "total")
    if len(zg_declared) != 1 or zg_declared[0][1]:
        raise Shape(f"zstd: expected one declared-size guard outside the loop, got {zg_declared}")
    if len(zg_total) != 1 or not zg_total[0][1]:
        raise Shape(f"zstd: expected one total guard inside the loop, got {zg_total}")

    gfn = _func(tree, "_decompress_body_gzip")
    g_extra = _read_extra(gfn, "decompress", 1)
    gg = _guards(gfn, "total")
    if len(gg) != 2 or not gg[0][1] or gg[1][1]:
        raise Shape(f"gzip: expected a loop guard and a tail guard, got {gg}")
    eof_unc, eof_cap = _eof_checks(gfn)

    dfn, cfn = _func(tree, "decompress"), _func(tree, "compress")
    pshape = _parse_shape(_func(tree, "parse_encoding_list"))

    # how the library objects are constructed: the reader / decompress-object contracts of Spec/C18.lean are assumed of the
    # *default* zstd decompressor (accepts every window a compressor level can declare) and of a gzip-wrapped 32 KiB inflater
    zd_calls, zo_calls = [], []
    for n in ast.walk(tree):
        if isinstance(n, ast.Call):
            f = ast.unparse(n.func)
            if f == "zstandard.ZstdDecompressor":
                zd_calls.append(", ".join([ast.unparse(a) for a in n.args] + [f"{k.arg}={ast.unparse(k.value)}" for k in n.keywords]))
            elif f == "zlib.decompressobj":
                zo_calls.append(", ".join([ast.unparse(a) for a in n.args] + [f"{k.arg}={ast.unparse(k.value)}" for k in n.keywords]))
    if not zd_calls or not zo_calls:
        raise Shape("no ZstdDecompressor / decompressobj construction found")

    def _ls(x: str) -> str:
        return '"' + x.replace("\\", "\\\\").replace('"', '\\"') + '"'

    mem = ", ".join(f'("{n}", {lean_str(v)})' for n, v in members)
    body = f"""namespace VgiVerif.Gen.Codec

/-- `_DECOMPRESS_CHUNK_BYTES` -/
def chunkBytes : Nat := {chunk}
def defaultZstdLevel : Int := {zl}
def defaultGzipLevel : Int := {gl}
def gzipWbits : Nat := {wbits}

/-- members of `class Encoding(enum.Enum)` as (NAME, value), in definition (= iteration) order -/
def encodingMembers : List (String × List Char) := [{mem}]

/-- `_zstd_content_size`: raw `content_size` values that mean "not stored in this frame" -/
def contentSizeUnknown : List Int := [{", ".join(str(x) for x in sent)}]

/-- zstd streaming loop: `reader.read(min(CHUNK, max_output_size - total + K))` -/
def zstdReadExtra : Nat := {z_extra}
/-- operator of `if total <op> max_output_size: raise DecompressionLimitExceeded` inside the zstd loop -/
def zstdLoopCmp : String := "{zg_total[0][0]}"
/-- operator of `declared is not None and declared <op> max_output_size` -/
def zstdDeclaredCmp : String := "{zg_declared[0][0]}"
/-- the declared-size refusal precedes the one-shot `decompress(data)` -/
def zstdPrecheckFirst : Bool := {_b(_zstd_precheck_first(zfn))}

/-- gzip loop: `do.decompress(inbuf, min(CHUNK, max_output_size - total + K))` -/
def gzipReadExtra : Nat := {g_extra}
def gzipLoopCmp : String := "{gg[0][0]}"
def gzipTailCmp : String := "{gg[1][0]}"
/-- `if not do.eof: raise DecompressionError` on the uncapped / capped gzip path -/
def gzipEofUncapped : Bool := {_b(eof_unc)}
def gzipEofCapped : Bool := {_b(eof_cap)}
/-- the bounded gzip loop leaves with `if do.eof: break` (after the chunk was accounted) -/
def gzipBreaksOnEof : Bool := {_b(_breaks_on_eof(gfn))}

/-- argument lists of every `zstandard.ZstdDecompressor(…)` / `zlib.decompressobj(…)` construction in `_codec.py` -/
def zstdDecompressorCalls : List String := [{", ".join(_ls(c) for c in zd_calls)}]
def gzipDecompressobjCalls : List String := [{", ".join(_ls(c) for c in zo_calls)}]

/-- `decompress` / `compress` begin with `if encoding is Encoding.IDENTITY: return data` -/
def identityFirstDecompress : Bool := {_b(_identity_first(dfn))}
def identityFirstCompress : Bool := {_b(_identity_first(cfn))}
def decompressDispatch : List String := [{", ".join('"' + x + '"' for x in _dispatch_order(dfn))}]
def compressDispatch : List String := [{", ".join('"' + x + '"' for x in _dispatch_order(cfn))}]

/-- `parse_encoding_list`: `header_value.split(listSep)`, `raw.strip().lower()`, `token.split(paramSep, 1)[0].strip()` -/
def listSep : Char := Char.ofNat {ord(str(pshape["sep"]))}
def paramSep : Char := Char.ofNat {ord(str(pshape["param"]))}
def parseStripThenLower : Bool := {_b(bool(pshape["strip_lower"]))}
def parseSkipsEmpty : Bool := {_b(bool(pshape["skip_empty"]))}
def parseFirstUnseenMember : Bool := {_b(bool(pshape["inner"]))}

end VgiVerif.Gen.Codec
"""
    return {"Codec.lean": body}
