"""C09: SEMVER_REGEX, how parse_version uses it, and the three call sites of the protocol-version gate."""

from __future__ import annotations

import ast
from pathlib import Path

from .regex_to_lean import category_ranges, lean_str, pattern_to_lean

import os

REPO = Path(os.environ.get("VERIF_REPO", "/repo"))
PROPS = ["C09"]

SITES = [
    ("pipe", "vgi_rpc/rpc/_server.py"),
    ("http_unary", "vgi_rpc/http/server/_app_unary.py"),
    ("http_init", "vgi_rpc/http/server/_app_stream.py"),
]


_COMPONENT_SRC = """def _component(digits: str) -> int:
    if len(digits) <= _COMPONENT_CHUNK_DIGITS:
        return int(digits)
    value = 0
    for start in range(0, len(digits), _COMPONENT_CHUNK_DIGITS):
        chunk = digits[start:start + _COMPONENT_CHUNK_DIGITS]
        value = value * 10 ** len(chunk) + int(chunk)
    return value"""


def _component_unbounded(tree: ast.Module, conv: str) -> bool:
    """Is the component conversion free of CPython's int-string digit limit?  `int` is not (ValueError beyond
    sys.get_int_max_str_digits()); the chunked helper `_component` is, when it has exactly the recognised body and its
    chunk size is below the default limit."""
    if conv != "_component":
        return False
    fn = next((n for n in tree.body if isinstance(n, ast.FunctionDef) and n.name == "_component"), None)
    if fn is None:
        return False
    body = fn.body[1:] if fn.body and isinstance(fn.body[0], ast.Expr) and isinstance(getattr(fn.body[0], "value", None), ast.Constant) else fn.body
    got = "def _component(" + ast.unparse(fn.args) + ") -> " + (ast.unparse(fn.returns) if fn.returns else "") + ":\n" + "\n".join(
        "    " + line for st in body for line in ast.unparse(st).splitlines())
    if ast.unparse(ast.parse(got)) != ast.unparse(ast.parse(_COMPONENT_SRC)):
        return False
    for n in tree.body:
        if isinstance(n, ast.Assign) and ast.unparse(n.targets[0]) == "_COMPONENT_CHUNK_DIGITS":
            return isinstance(n.value, ast.Constant) and isinstance(n.value.value, int) and 1 <= n.value.value <= 4300
    return False


def _parse_version_call_kind(tree: ast.Module) -> tuple[str, bool, str]:
    """Which regex entry point parse_version uses, whether it returns conv(group 1..3), and which conversion `conv` is."""
    for node in ast.walk(tree):
        if isinstance(node, ast.FunctionDef) and node.name == "parse_version":
            kind = "unknown"
            for n in ast.walk(node):
                if (
                    isinstance(n, ast.Call)
                    and isinstance(n.func, ast.Attribute)
                    and isinstance(n.func.value, ast.Name)
                    and n.func.value.id == "SEMVER_REGEX"
                ):
                    kind = n.func.attr
            ret_ok = False
            conv = ""
            for n in ast.walk(node):
                if isinstance(n, ast.Return) and isinstance(n.value, ast.Tuple) and len(n.value.elts) == 3:
                    want = [1, 2, 3]
                    got = []
                    for e in n.value.elts:
                        if (
                            isinstance(e, ast.Call)
                            and isinstance(e.func, ast.Name)
                            and e.func.id in ("int", "_component")
                            and len(e.args) == 1
                            and isinstance(e.args[0], ast.Call)
                            and isinstance(e.args[0].func, ast.Attribute)
                            and e.args[0].func.attr == "group"
                            and len(e.args[0].args) == 1
                            and isinstance(e.args[0].args[0], ast.Constant)
                        ):
                            got.append(e.args[0].args[0].value)
                            conv = e.func.id if conv in ("", e.func.id) else "mixed"
                    ret_ok = got == want
            return kind, ret_ok, conv
    return "missing", False, ""


def _gate_site(path: Path) -> dict:
    """Find `if <..>._protocol_version_parts is not None and method_name != "<exempt>": … _check_protocol_version(...)`."""
    tree = ast.parse(path.read_text())
    found = []
    for node in ast.walk(tree):
        if not isinstance(node, ast.If):
            continue
        src = ast.unparse(node.test)
        if "_protocol_version_parts" not in src:
            continue
        calls = [
            n
            for n in ast.walk(node)
            if isinstance(n, ast.Call) and isinstance(n.func, ast.Attribute) and n.func.attr == "_check_protocol_version"
        ]
        if not calls:
            continue
        rec = {"recognised": False, "guard": False, "exempt": "", "arg_ok": False, "n_exempt": 0}
        t = node.test
        if isinstance(t, ast.BoolOp) and isinstance(t.op, ast.And):
            exempts = []
            for v in t.values:
                if (
                    isinstance(v, ast.Compare)
                    and len(v.ops) == 1
                    and isinstance(v.ops[0], ast.IsNot)
                    and isinstance(v.comparators[0], ast.Constant)
                    and v.comparators[0].value is None
                    and ast.unparse(v.left).endswith("_protocol_version_parts")
                ):
                    rec["guard"] = True
                elif (
                    isinstance(v, ast.Compare)
                    and len(v.ops) == 1
                    and isinstance(v.ops[0], ast.NotEq)
                    and isinstance(v.left, ast.Name)
                    and v.left.id == "method_name"
                    and isinstance(v.comparators[0], ast.Constant)
                    and isinstance(v.comparators[0].value, str)
                ):
                    exempts.append(v.comparators[0].value)
                else:
                    exempts.append(None)  # an unrecognised extra condition
            rec["n_exempt"] = len(exempts)
            if len(exempts) == 1 and exempts[0] is not None and rec["guard"]:
                rec["exempt"] = exempts[0]
                rec["recognised"] = True
        arg = ast.unparse(calls[0].args[0]) if calls[0].args else ""
        rec["arg_ok"] = arg == "md.get(PROTOCOL_VERSION_KEY) if md is not None else None"
        found.append(rec)
    if len(found) != 1:
        return {"recognised": False, "guard": False, "exempt": "", "arg_ok": False, "count": len(found)}
    found[0]["count"] = 1
    return found[0]


def lean_str_lit(x: str) -> str:
    """A Lean `String` literal."""
    return '"' + x.replace("\\", "\\\\").replace('"', '\\"').replace("\n", "\\n") + '"'


def _kinds(stmts: list[ast.stmt]) -> str:
    out = []
    for st in stmts:
        if isinstance(st, ast.Raise):
            exc = st.exc.func if isinstance(st.exc, ast.Call) else st.exc
            out.append("raise " + (ast.unparse(exc) if exc is not None else ""))
        elif isinstance(st, ast.Return):
            out.append("return" + (" " + ast.unparse(st.value) if st.value is not None else ""))
        elif isinstance(st, ast.Assign):
            out.append("assign " + ",".join(ast.unparse(t) for t in st.targets))
        else:
            out.append(type(st).__name__)
    return "; ".join(out)


def _check_skeleton(path: Path) -> list[str]:
    """Control-flow skeleton of `RpcServer._check_protocol_version`: one entry per top-level statement.

    The hand-written model (Model/C09.lean `check`) transliterates exactly this sequence: missing -> undecodable ->
    malformed (via parse_version) -> equal major.minor passes -> direction by tuple order.  Any additional exit,
    reordered step or different comparison shows up here and breaks `C09_paths`."""
    tree = ast.parse(path.read_text())
    fn = next(n for n in ast.walk(tree) if isinstance(n, ast.FunctionDef) and n.name == "_check_protocol_version")
    body = fn.body
    if body and isinstance(body[0], ast.Expr) and isinstance(body[0].value, ast.Constant) and isinstance(body[0].value.value, str):
        body = body[1:]
    out = []
    for st in body:
        if isinstance(st, ast.If):
            e = f"if {ast.unparse(st.test)} => {_kinds(st.body)}"
            if st.orelse:
                e += f" | else => {_kinds(st.orelse)}"
            out.append(e)
        elif isinstance(st, ast.Try):
            hs = " | ".join(f"except {ast.unparse(h.type) if h.type is not None else ''} => {_kinds(h.body)}" for h in st.handlers)
            tail = (" | else" if st.orelse else "") + (" | finally" if st.finalbody else "")
            out.append(f"try {'; '.join(ast.unparse(x) for x in st.body)} | {hs}{tail}")
        elif isinstance(st, ast.Assert):
            out.append("assert")
        else:
            out.append(_kinds([st]))
    return out


def emit() -> dict[str, str]:
    import vgi_rpc.metadata as md

    rx = md.SEMVER_REGEX
    pat = pattern_to_lean(rx.pattern, rx.flags)
    md_tree = ast.parse((REPO / "vgi_rpc/metadata.py").read_text())
    kind, ret_ok, conv = _parse_version_call_kind(md_tree)
    unbounded = _component_unbounded(md_tree, conv)
    sites = []
    for name, rel in SITES:
        s = _gate_site(REPO / rel)
        sites.append(
            f'  {{ name := "{name}", recognised := {str(bool(s["recognised"] and s["arg_ok"])).lower()}, '
            f'exempt := {lean_str(s["exempt"])} }}'
        )
    skeleton = _check_skeleton(REPO / "vgi_rpc/rpc/_server.py")
    # zero code point of every run of ten decimal digits that int() accepts
    zeros = []
    for a, b in category_ranges("digit"):
        assert (b - a + 1) % 10 == 0, (a, b)
        for z in range(a, b + 1, 10):
            assert int(chr(z)) == 0 and int(chr(z + 9)) == 9
            zeros.append(z)
    body = f"""import VgiVerif.Prelude.Regex
namespace VgiVerif.Gen.Semver
open VgiVerif.Regex

/-- `vgi_rpc.metadata.SEMVER_REGEX` = {rx.pattern!r} (flags {int(rx.flags)}) -/
def pattern : Pat :=
  {pat}

/-- entry point used by `parse_version`: "match" | "fullmatch" | "search" -/
def callKind : String := "{kind}"

/-- `parse_version` returns `(conv(m.group(1)), conv(m.group(2)), conv(m.group(3)))` with conv = `int` or `_component` -/
def returnsIntGroups : Bool := {str(ret_ok).lower()}

/-- the component conversion has no digit-count limit (`int()` alone raises ValueError beyond 4300 digits, which the gate
would report as "malformed" although the text is canonical semver); true for the recognised chunked `_component` helper -/
def componentUnbounded : Bool := {str(unbounded).lower()}

structure GateSite where
  name : String
  recognised : Bool      -- `if ….parts is not None and method_name != "<exempt>": _check_protocol_version(md.get(KEY) …)`
  exempt : List Char
deriving Repr, DecidableEq

def gateSites : List GateSite := [
{",\n".join(sites)}
]

/-- control-flow skeleton of `RpcServer._check_protocol_version` (one entry per top-level statement) -/
def checkSkeleton : List String := [
{",\n".join("  " + lean_str_lit(x) for x in skeleton)}
]

/-- zero code point of every run of ten Unicode decimal digits accepted by Python `int()` / `\\d` -/
def digitZeros : List Nat := {zeros}

end VgiVerif.Gen.Semver
"""
    return {"Semver.lean": body}
