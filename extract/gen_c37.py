"""C37: constants, tables and *shapes* of the OAuth browser-flow redirect validators and of the signed session cookie.

Emits lean/VgiVerif/Gen/Pkce.lean:

* which of the two transliterated shapes (`pinned` / `repaired`, reference snippets in extract/c37_shapes/) each
  validator has — compared as ASTs modulo docstrings and the constants extracted below; any other shape makes the
  extraction fail loudly (the model would not be a transliteration of the code any more);
* the constants those functions use: allow-list default, localhost tuple, accepted schemes, default ports, the
  characters refused by `_has_unsafe_url_chars`, the characters refused in a netloc, dot segments, length caps;
* the cookie wire layout (`struct` formats → widths), version, max age, HMAC length, minimum length;
* the `urllib.parse` constants of the running interpreter that `Prelude/UrlPy.lean` mirrors (`scheme_chars`,
  `_WHATWG_C0_CONTROL_OR_SPACE`, `_UNSAFE_URL_BYTES_TO_REMOVE`) and the code points whose `str.lower()` image contains an
  ASCII character (so the proofs can check the mirror by `decide`);
* normalised-AST fingerprints of every modelled function (drift reporting).
"""

from __future__ import annotations

import ast
import hashlib
import os
import struct
import sys
from pathlib import Path

from .regex_to_lean import lean_str

REPO = Path(os.environ.get("VERIF_REPO", "/repo"))
PROPS = ["C37"]
SRC = "vgi_rpc/http/_oauth_pkce.py"
SHAPES = Path(__file__).resolve().parent / "c37_shapes"

MODELLED = [
    "_has_unsafe_url_chars", "_validate_original_url", "_is_localhost", "_validate_return_to",
    "_pack_oauth_cookie", "_unpack_oauth_cookie",
    "_OAuthCallbackResource.on_get", "_OAuthLogoutResource.on_get",
    "_OAuthPkceMiddleware.__init__", "_OAuthPkceMiddleware.process_request", "_OAuthPkceMiddleware.process_response",
]


class Unsupported(Exception):
    pass


# ------------------------------------------------------------------------------------------ AST helpers


def _functions(tree: ast.Module) -> dict[str, ast.FunctionDef]:
    out: dict[str, ast.FunctionDef] = {}
    for n in tree.body:
        if isinstance(n, ast.FunctionDef):
            out[n.name] = n
        elif isinstance(n, ast.ClassDef):
            for m in n.body:
                if isinstance(m, ast.FunctionDef):
                    out[f"{n.name}.{m.name}"] = m
    return out


def _strip_doc(fn: ast.FunctionDef) -> ast.FunctionDef:
    fn = ast.parse(ast.unparse(fn)).body[0]  # type: ignore[assignment]  # deep copy, comments gone
    assert isinstance(fn, ast.FunctionDef)
    if fn.body and isinstance(fn.body[0], ast.Expr) and isinstance(fn.body[0].value, ast.Constant) and isinstance(fn.body[0].value.value, str):
        fn.body = fn.body[1:] or [ast.Pass()]
    fn.returns = None
    for a in fn.args.args + fn.args.kwonlyargs:
        a.annotation = None
    return fn


class _Mask(ast.NodeTransformer):
    """Replace the constants that are extracted as data, so the remaining dump is the *shape*."""

    def __init__(self, all_strings: bool = False) -> None:
        self.all_strings = all_strings

    def visit_Constant(self, node: ast.Constant) -> ast.AST:
        if isinstance(node.value, int) and not isinstance(node.value, bool) and node.value > 1:
            return ast.Name(id="INT", ctx=ast.Load())
        if self.all_strings and isinstance(node.value, str):
            return ast.Name(id="CHR", ctx=ast.Load())
        return node

    def visit_Compare(self, node: ast.Compare) -> ast.AST:
        self.generic_visit(node)
        if len(node.ops) == 1 and isinstance(node.ops[0], (ast.In, ast.NotIn)):
            c = node.comparators[0]
            if isinstance(c, ast.Tuple) and all(isinstance(e, ast.Constant) for e in c.elts):
                node.comparators = [ast.Name(id="TUPLE", ctx=ast.Load())]
            elif isinstance(c, ast.Constant) and isinstance(c.value, str):
                node.comparators = [ast.Name(id="STR", ctx=ast.Load())]
        return node


def shape_of(fn: ast.FunctionDef, all_strings: bool = False) -> str:
    f = _Mask(all_strings).visit(_strip_doc(fn))
    return ast.dump(f, annotate_fields=False, include_attributes=False)


def fingerprint(fn: ast.FunctionDef) -> str:
    return hashlib.sha256(ast.dump(_strip_doc(fn), annotate_fields=False).encode()).hexdigest()[:16]


def _reference(name: str) -> dict[str, ast.FunctionDef]:
    return _functions(ast.parse((SHAPES / f"{name}.py.txt").read_text()))


def classify(fns: dict[str, ast.FunctionDef], fname: str) -> str:
    got = shape_of(fns[fname])
    for shape in ("repaired", "pinned"):
        ref = _reference(shape)
        if fname in ref and shape_of(ref[fname]) == got:
            if shape == "repaired":
                # the repaired validators rely on the character guard having the transliterated shape as well
                g = "_has_unsafe_url_chars"
                if g not in fns or shape_of(fns[g], True) != shape_of(ref[g], True):
                    raise Unsupported(f"{fname} has the repaired shape but {g} is missing or has an unknown shape")
            return shape
    raise Unsupported(f"{fname}: neither the pinned nor the repaired shape (extract/c37_shapes) — the model is not a "
                      f"transliteration of this code")


# ------------------------------------------------------------------------------------------ constants


def _unsafe_char_consts(fn: ast.FunctionDef | None) -> tuple[int, int, str]:
    """`any(ch <= LO or ch >= HI or ch == X ... for ch in url)` → (LO, HI, extras)."""
    if fn is None:
        return (0, 0x110000, "")  # no guard: nothing is refused (lo is *inclusive*: handled by `present` flag)
    lo = hi = None
    extra = ""
    for n in ast.walk(fn):
        if isinstance(n, ast.Compare) and len(n.ops) == 1 and isinstance(n.left, ast.Name) and n.left.id == "ch":
            c = n.comparators[0]
            if not (isinstance(c, ast.Constant) and isinstance(c.value, str) and len(c.value) == 1):
                raise Unsupported("_has_unsafe_url_chars: comparison with a non-character")
            if isinstance(n.ops[0], ast.LtE):
                lo = ord(c.value)
            elif isinstance(n.ops[0], ast.GtE):
                hi = ord(c.value)
            elif isinstance(n.ops[0], ast.Eq):
                extra += c.value
            else:
                raise Unsupported("_has_unsafe_url_chars: unexpected comparison operator")
    if lo is None or hi is None:
        raise Unsupported("_has_unsafe_url_chars: bounds not found")
    return (lo, hi, extra)


def _return_to_consts(fn: ast.FunctionDef) -> tuple[int, list[str], str]:
    max_len = None
    schemes: list[str] | None = None
    forbidden = ""
    for n in ast.walk(fn):
        if isinstance(n, ast.Compare) and len(n.ops) == 1:
            c = n.comparators[0]
            if isinstance(n.ops[0], ast.Gt) and isinstance(c, ast.Constant) and isinstance(c.value, int) and ast.unparse(n.left) == "len(url)":
                max_len = c.value
            if isinstance(n.ops[0], ast.NotIn) and ast.unparse(n.left) == "parsed.scheme" and isinstance(c, ast.Tuple):
                schemes = [e.value for e in c.elts]  # type: ignore[attr-defined]
            if isinstance(n.ops[0], ast.In) and isinstance(n.left, ast.Name) and n.left.id == "ch" and isinstance(c, ast.Constant):
                forbidden = c.value
    if max_len is None or schemes is None:
        raise Unsupported("_validate_return_to: length cap / scheme tuple not found")
    return max_len, schemes, forbidden


def _localhost_names(fn: ast.FunctionDef) -> list[str]:
    for n in ast.walk(fn):
        if isinstance(n, ast.Compare) and len(n.ops) == 1 and isinstance(n.ops[0], ast.In) and isinstance(n.comparators[0], ast.Tuple):
            return [e.value for e in n.comparators[0].elts]  # type: ignore[attr-defined]
    raise Unsupported("_is_localhost: tuple not found")


def _min_cookie_len(fn: ast.FunctionDef) -> int:
    for n in ast.walk(fn):
        if isinstance(n, ast.Compare) and ast.unparse(n.left) == "len(raw)" and isinstance(n.ops[0], ast.Lt):
            return int(n.comparators[0].value)  # type: ignore[attr-defined]
    raise Unsupported("_unpack_oauth_cookie: minimum length not found")


def _allow_defaulting(fn: ast.FunctionDef) -> str:
    """How `_OAuthPkceMiddleware.__init__` turns its `allowed_return_origins` argument into the allow-list in force:
    `X if X is not None else DEFAULT` → "isNotNone" (an explicit value, even an empty one, is used as given);
    `X or DEFAULT` / `X if X else DEFAULT` → "truthy" (an empty value is replaced by the default)."""
    arg, dflt = "allowed_return_origins", "_DEFAULT_ALLOWED_RETURN_ORIGINS"
    found = []
    for n in ast.walk(fn):
        if isinstance(n, ast.Assign) and len(n.targets) == 1 and ast.unparse(n.targets[0]) == "self._allowed_return_origins":
            found.append(n.value)
    if len(found) != 1:
        raise Unsupported(f"_OAuthPkceMiddleware.__init__: {len(found)} assignments to self._allowed_return_origins")
    v = found[0]
    if isinstance(v, ast.IfExp) and ast.unparse(v.body) == arg and ast.unparse(v.orelse) == dflt:
        t = ast.unparse(v.test)
        if t == f"{arg} is not None":
            return "isNotNone"
        if t == arg:
            return "truthy"
    if isinstance(v, ast.IfExp) and ast.unparse(v.body) == dflt and ast.unparse(v.orelse) == arg and ast.unparse(v.test) == f"{arg} is None":
        return "isNotNone"
    if isinstance(v, ast.BoolOp) and isinstance(v.op, ast.Or) and [ast.unparse(x) for x in v.values] == [arg, dflt]:
        return "truthy"
    raise Unsupported(f"_OAuthPkceMiddleware.__init__: unrecognised defaulting of the allow-list: {ast.unparse(v)}")


def _struct_formats(fn: ast.FunctionDef, func: str) -> list[str]:
    out = []
    for n in ast.walk(fn):
        if isinstance(n, ast.Call) and ast.unparse(n.func) == f"struct.{func}" and isinstance(n.args[0], ast.Constant):
            out.append((n.lineno, n.col_offset, n.args[0].value))
    return [f for _l, _c, f in sorted(out)]  # source order (ast.walk is breadth-first)


def lower_to_ascii() -> list[tuple[int, list[int]]]:
    """Non-ASCII code points whose `str.lower()` contains an ASCII character (in this interpreter)."""
    out = []
    for cp in range(0x80, sys.maxunicode + 1):
        if 0xD800 <= cp <= 0xDFFF:
            continue
        lo = chr(cp).lower()
        if any(ord(c) < 0x80 for c in lo):
            out.append((cp, [ord(c) for c in lo]))
    return out


def _strs(xs: list[str]) -> str:
    return "[" + ", ".join(lean_str(x) for x in xs) + "]"


def emit() -> dict[str, str]:
    import urllib.parse as up

    import vgi_rpc.http._oauth_pkce as m

    src = (REPO / SRC).read_text()
    assert Path(m.__file__).resolve() == (REPO / SRC).resolve(), (m.__file__, REPO)
    fns = _functions(ast.parse(src))
    for name in MODELLED:
        if name not in fns and name != "_has_unsafe_url_chars":
            raise Unsupported(f"{SRC}: function {name} not found")
    rt_shape = classify(fns, "_validate_return_to")
    ou_shape = classify(fns, "_validate_original_url")
    lo, hi, extra = _unsafe_char_consts(fns.get("_has_unsafe_url_chars"))
    max_rt, schemes, forbidden = _return_to_consts(fns["_validate_return_to"])
    local = _localhost_names(fns["_is_localhost"])
    dot = sorted(getattr(m, "_DOT_SEGMENTS", frozenset()))
    ports = sorted(getattr(m, "_DEFAULT_PORTS", {}).items())
    pack_fmts = _struct_formats(fns["_pack_oauth_cookie"], "pack")
    unpack_fmts = _struct_formats(fns["_unpack_oauth_cookie"], "unpack_from")
    if pack_fmts != ["B", "<Q", "<H", "<H", "<H", "<H"] or unpack_fmts != ["B", "<Q", "<H", "<H", "<H", "<H"]:
        raise Unsupported(f"cookie layout changed: pack {pack_fmts} unpack {unpack_fmts}")
    widths = [struct.calcsize(f) for f in ("B", "<Q", "<H")]
    fps = [(n, fingerprint(fns[n])) for n in MODELLED if n in fns]
    lower = lower_to_ascii()
    defaulting = _allow_defaulting(fns["_OAuthPkceMiddleware.__init__"])
    body = f"""namespace VgiVerif.Gen.Pkce

/-- which transliterated shape (extract/c37_shapes/*.py.txt) a validator has -/
inductive Shape where
  | pinned
  | repaired
deriving Repr, DecidableEq

/-- `_validate_return_to` -/
def returnToShape : Shape := .{rt_shape}
/-- `_validate_original_url` -/
def originalUrlShape : Shape := .{ou_shape}

/-- how `_OAuthPkceMiddleware.__init__` defaults its `allowed_return_origins` argument -/
inductive Defaulting where
  | isNotNone   -- `X if X is not None else DEFAULT`: an explicit (even empty) allow-list is used as given
  | truthy      -- `X or DEFAULT`: an empty allow-list is replaced by the default
deriving Repr, DecidableEq

def allowDefaulting : Defaulting := .{defaulting}

/-- `_DEFAULT_ALLOWED_RETURN_ORIGINS` (sorted) -/
def defaultAllowedReturnOrigins : List (List Char) := {_strs(sorted(m._DEFAULT_ALLOWED_RETURN_ORIGINS))}
/-- the tuple of `_is_localhost` -/
def localhostNames : List (List Char) := {_strs(local)}
/-- `parsed.scheme not in (...)` of `_validate_return_to` -/
def returnToSchemes : List (List Char) := {_strs(schemes)}
/-- `len(url) > N` of `_validate_return_to` -/
def maxReturnToLen : Nat := {max_rt}
/-- `_MAX_ORIGINAL_URL_LEN` -/
def maxOriginalUrlLen : Nat := {m._MAX_ORIGINAL_URL_LEN}
/-- `_has_unsafe_url_chars`: `ch <= chr(unsafeLo) or ch >= chr(unsafeHi) or ch == x` for x in `unsafeExtra` (repaired shape) -/
def unsafeLo : Nat := {lo}
def unsafeHi : Nat := {hi}
def unsafeExtra : List Char := {lean_str(extra)}
/-- `any(ch in "..." for ch in parsed.netloc)` (repaired shape) -/
def netlocForbidden : List Char := {lean_str(forbidden)}
/-- `_DOT_SEGMENTS` (sorted; repaired shape) -/
def dotSegments : List (List Char) := {_strs(dot)}
/-- `_DEFAULT_PORTS` (sorted; repaired shape) -/
def defaultPorts : List (List Char × Nat) := [{", ".join(f"({lean_str(k)}, {v})" for k, v in ports)}]

/-- session cookie: `_SESSION_COOKIE_VERSION`, `_SESSION_MAX_AGE`, `_HMAC_LEN`, `len(raw) < N` -/
def sessionCookieVersion : Nat := {m._SESSION_COOKIE_VERSION}
def sessionMaxAge : Nat := {m._SESSION_MAX_AGE}
def hmacLen : Nat := {m._HMAC_LEN}
def minCookieLen : Nat := {_min_cookie_len(fns["_unpack_oauth_cookie"])}
/-- widths of `struct` formats "B", "<Q", "<H" (layout: B Q (H bytes)×4, little endian) -/
def widthVersion : Nat := {widths[0]}
def widthCreated : Nat := {widths[1]}
def widthLen : Nat := {widths[2]}

/-- `urllib.parse.scheme_chars`, `_WHATWG_C0_CONTROL_OR_SPACE`, `_UNSAFE_URL_BYTES_TO_REMOVE` of the running interpreter -/
def schemeChars : List Char := {lean_str("".join(sorted(up.scheme_chars)))}
def c0OrSpace : List Char := {lean_str("".join(sorted(up._WHATWG_C0_CONTROL_OR_SPACE)))}
def unsafeUrlBytes : List Char := {lean_str("".join(sorted(up._UNSAFE_URL_BYTES_TO_REMOVE)))}
/-- non-ASCII code points whose `str.lower()` contains an ASCII character: `(code point, lower())` -/
def lowerToAscii : List (Nat × List Nat) := [{", ".join(f"({cp}, {lo_})" for cp, lo_ in lower)}]

/-- normalised-AST fingerprints of the modelled functions (drift reporting only) -/
def fingerprints : List (String × String) := [
{",\n".join(f'  ("{n}", "{h}")' for n, h in fps)}
]

end VgiVerif.Gen.Pkce
"""
    return {"Pkce.lean": body}
