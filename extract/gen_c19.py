"""C19 (PyChars also read by C17): character tables of this interpreter and the shapes of the response-encoding negotiation.

``PyChars.lean``
    * ``spaceRanges`` — the code points ``str.strip()`` removes (``str.isspace``), generated from the running interpreter;
    * ``lowerSpecial`` — every non-ASCII code point whose ``str.lower()`` contains an ASCII character (those are the only
      ones that can make a header token equal to an ASCII codec name after lower-casing).  ASCII ``A``–``Z`` are handled
      by formula in the model; the extractor asserts the formula for all 128 ASCII code points.
``Negotiate.lean``
    shapes of ``_CompressionMiddleware._pick_response_encoding`` / ``process_request`` / ``process_response``:
    header names, candidate order (custom first), the identity stop, the "used custom header" rule, the fall-through
    value, which codec names are published to the producer, and that both stamping sites use the same rule.
"""

from __future__ import annotations

import ast
import os
import re
import sys
from pathlib import Path

REPO = Path(os.environ.get("VERIF_REPO", "/repo"))
PROPS = ["C17", "C19"]


class Shape(Exception):
    pass


def space_ranges() -> list[tuple[int, int]]:
    out: list[list[int]] = []
    for cp in range(sys.maxunicode + 1):
        if 0xD800 <= cp <= 0xDFFF:
            continue
        if chr(cp).isspace():
            if out and out[-1][1] == cp - 1:
                out[-1][1] = cp
            else:
                out.append([cp, cp])
    return [(a, b) for a, b in out]


def lower_special() -> list[tuple[int, list[int]]]:
    for cp in range(128):
        want = chr(cp + 32) if 65 <= cp <= 90 else chr(cp)
        if chr(cp).lower() != want:
            raise Shape(f"ASCII lower-casing formula fails at {cp}")
    out = []
    for cp in range(128, sys.maxunicode + 1):
        if 0xD800 <= cp <= 0xDFFF:
            continue
        lo = chr(cp).lower()
        if any(ord(ch) < 128 for ch in lo):
            out.append((cp, [ord(ch) for ch in lo]))
    return out


def _method(tree: ast.Module, cls: str, name: str) -> ast.FunctionDef:
    for n in tree.body:
        if isinstance(n, ast.ClassDef) and n.name == cls:
            for b in n.body:
                if isinstance(b, ast.FunctionDef) and b.name == name:
                    return b
    raise Shape(f"{cls}.{name} not found")


def _b(x: bool) -> str:
    return "true" if x else "false"


def _s(x: str) -> str:
    return '"' + x.replace("\\", "\\\\").replace('"', '\\"') + '"'


def negotiate_shapes() -> dict[str, object]:
    tree = ast.parse((REPO / "vgi_rpc/http/server/_middleware.py").read_text())
    pick = _method(tree, "_CompressionMiddleware", "_pick_response_encoding")
    src = ast.unparse(pick)
    m_std = re.search(r"standard = parse_encoding_list\(req\.get_header\('([^']+)'\) or ''\)", src)
    m_cus = re.search(r"custom = parse_encoding_list\(req\.get_header\('([^']+)'\) or ''\)", src)
    if not m_std or not m_cus:
        raise Shape("_pick_response_encoding: header reads not recognised")
    loops = [n for n in ast.walk(pick) if isinstance(n, ast.For)]
    if len(loops) != 1:
        raise Shape("_pick_response_encoding: expected one for loop")
    it = ast.unparse(loops[0].iter)
    if it == "custom + [e for e in standard if e not in custom]":
        order = "custom_first"
    elif it == "standard + [e for e in custom if e not in standard]":
        order = "standard_first"
    else:
        raise Shape(f"_pick_response_encoding: candidate order {it!r} not recognised")
    body = loops[0].body
    ifs = [b for b in body if isinstance(b, ast.If)]
    identity_stop = (
        len(ifs) >= 1
        and ast.unparse(ifs[0].test) == "enc is Encoding.IDENTITY"
        and len(ifs[0].body) == 1
        and isinstance(ifs[0].body[0], ast.Return)
        and ast.unparse(ifs[0].body[0].value) == "(None, False)"
    )
    used_rule = "unknown"
    if len(ifs) >= 2 and ast.unparse(ifs[1].test) == "enc in self._levels" and isinstance(ifs[1].body[0], ast.Return):
        r = ast.unparse(ifs[1].body[0].value)
        if r == "(enc, enc in custom and enc not in standard)":
            used_rule = "custom_and_not_standard"
        elif r == "(enc, enc in custom)":
            used_rule = "in_custom"
        else:
            raise Shape(f"_pick_response_encoding: return {r!r} not recognised")
    else:
        raise Shape("_pick_response_encoding: `if enc in self._levels: return …` not recognised")
    if len(ifs) != 2 or len(body) != 2:
        raise Shape("_pick_response_encoding: unexpected statements in the loop")
    last = pick.body[-1]
    if not isinstance(last, ast.Return):
        raise Shape("_pick_response_encoding: no trailing return")
    fall = ast.unparse(last.value)
    if fall not in ("(None, bool(custom))", "(None, False)"):
        raise Shape(f"_pick_response_encoding: fall-through {fall!r} not recognised")

    preq = _method(tree, "_CompressionMiddleware", "process_request")
    psrc = ast.unparse(preq)
    m_pub = re.search(r"_current_response_codec\.set\(chosen\.value if chosen is not None and chosen\.value in \(([^)]*)\) else None\)", psrc)
    if not m_pub:
        raise Shape("process_request: published producer codec not recognised")
    published = [ast.literal_eval(x.strip()) for x in m_pub.group(1).split(",") if x.strip()]
    resets_pre = "_current_body_precompressed.set(False)" in psrc

    presp = _method(tree, "_CompressionMiddleware", "process_response")
    stamps = []
    for n in ast.walk(presp):
        if isinstance(n, ast.If) and ast.unparse(n.test) == "getattr(req.context, 'use_custom_encoding_header', False)":
            a = ast.unparse(n.body[0]) if len(n.body) == 1 else ""
            b = ast.unparse(n.orelse[0]) if len(n.orelse) == 1 else ""
            ma = re.fullmatch(r"resp\.set_header\('([^']+)', encoding\.value\)", a)
            mb = re.fullmatch(r"resp\.set_header\('([^']+)', encoding\.value\)", b)
            if not ma or not mb:
                raise Shape("process_response: stamping site not recognised")
            stamps.append((ma.group(1), mb.group(1)))
    if len(stamps) != 2:
        raise Shape(f"process_response: expected two stamping sites, found {len(stamps)}")
    rsrc = ast.unparse(presp)
    # order of the early returns: encoding None, content type, precompressed flag, stream None, not IOBase, size == 0
    marks = ["if encoding is None:", "if resp.content_type != _ARROW_CONTENT_TYPE:", "if _current_body_precompressed.get():",
             "if stream is None:", "if not isinstance(stream, IOBase):", "if size == 0:"]
    pos = [rsrc.find(m) for m in marks]
    early_order_ok = all(p >= 0 for p in pos) and pos == sorted(pos)
    return {
        "std": m_std.group(1), "cus": m_cus.group(1), "order": order, "identity_stop": identity_stop, "used_rule": used_rule,
        "fall": fall, "published": published, "resets_pre": resets_pre, "stamps": stamps, "early_order_ok": early_order_ok,
    }


def emit() -> dict[str, str]:
    sp = space_ranges()
    ls = lower_special()
    chars = f"""namespace VgiVerif.Gen.PyChars

/-- code points with `str.isspace()` (what `str.strip()` removes), as inclusive ranges — from the running interpreter -/
def spaceRanges : List (Nat × Nat) := [{", ".join(f"({a}, {b})" for a, b in sp)}]

/-- non-ASCII code points whose `str.lower()` contains an ASCII character, with that lower-case string -/
def lowerSpecial : List (Nat × List Nat) := [{", ".join(f"({cp}, [{', '.join(map(str, lo))}])" for cp, lo in ls)}]

end VgiVerif.Gen.PyChars
"""
    sh = negotiate_shapes()
    stamps = sh["stamps"]
    assert isinstance(stamps, list)
    neg = f"""namespace VgiVerif.Gen.Negotiate

/-- `_pick_response_encoding`: `standard = parse_encoding_list(req.get_header(<this>) or "")` -/
def standardHeader : String := {_s(str(sh["std"]))}
def customHeader : String := {_s(str(sh["cus"]))}
/-- candidate order of the `for enc in …` loop: "custom_first" = `custom + [e for e in standard if e not in custom]` -/
def candidateOrder : String := {_s(str(sh["order"]))}
/-- first statement of the loop is `if enc is Encoding.IDENTITY: return None, False` -/
def identityStops : Bool := {_b(bool(sh["identity_stop"]))}
/-- second component returned with a chosen codec: "custom_and_not_standard" = `enc in custom and enc not in standard` -/
def usedCustomRule : String := {_s(str(sh["used_rule"]))}
/-- the return after the loop -/
def fallThrough : String := {_s(str(sh["fall"]))}
/-- codec names published to a streaming producer through `_current_response_codec` -/
def publishedCodecs : List String := [{", ".join(_s(str(x)) for x in sh["published"])}]
def resetsPrecompressedFlag : Bool := {_b(bool(sh["resets_pre"]))}
/-- the two stamping sites of `process_response` (pre-compressed producer, middleware compression): (header when the
custom flag is set, header otherwise) -/
def stampSites : List (String × String) := [{", ".join(f"({_s(a)}, {_s(b)})" for a, b in stamps)}]
/-- early returns of `process_response` come in the order: encoding None, content type, precompressed, stream None,
not IOBase, size == 0 -/
def earlyReturnOrderOk : Bool := {_b(bool(sh["early_order_ok"]))}

end VgiVerif.Gen.Negotiate
"""
    return {"PyChars.lean": chars, "Negotiate.lean": neg}
