"""C17: shapes of the request-body path — `_MaxRequestBytesMiddleware.process_request`,
`_CompressionMiddleware.process_request`, `_get_request_stream`, and their wiring in `make_wsgi_app`.

Emits ``ReqBody.lean``: the guard around the health exemption, the exemption test, the comparison operators and the
sentinel of the wire cap, the Content-Encoding normalisation, the position of the identity pass-through, which Falcon
HTTP status each refusal answers with (a raised Falcon error, evaluated from the installed falcon, or
`_reject_request(resp, exc, HTTPStatus.X)` which writes an Arrow error body and sets `resp.complete`), the order of the `except` clauses
around the decoder, that the decoded cap is `max_request_bytes`, that the wire cap runs before decoding, and the
precedence of `decompressed_stream` / `capped_request_body` / `bounded_stream` in `_get_request_stream`.
"""

from __future__ import annotations

import ast
import os
import re
from pathlib import Path

REPO = Path(os.environ.get("VERIF_REPO", "/repo"))
PROPS = ["C17"]

_CMP = {ast.Gt: "Gt", ast.GtE: "GtE", ast.Lt: "Lt", ast.LtE: "LtE", ast.Eq: "Eq", ast.NotEq: "NotEq"}


class Shape(Exception):
    pass


def _method(tree: ast.Module, cls: str, name: str) -> ast.FunctionDef:
    for n in tree.body:
        if isinstance(n, ast.ClassDef) and n.name == cls:
            for b in n.body:
                if isinstance(b, ast.FunctionDef) and b.name == name:
                    return b
    raise Shape(f"{cls}.{name} not found")


def _func(tree: ast.Module, name: str) -> ast.FunctionDef:
    for n in tree.body:
        if isinstance(n, ast.FunctionDef) and n.name == name:
            return n
    raise Shape(f"{name} not found")


def _status_of(exc_name: str) -> int:
    import falcon

    cls = getattr(falcon, exc_name)
    try:
        inst = cls()
    except TypeError:
        inst = cls(title="x")
    st = getattr(inst, "status_code", None)
    if st is None:
        st = int(str(inst.status).split()[0])
    return int(st)


def _raised_falcon(node: ast.AST) -> str | None:
    for n in ast.walk(node):
        if isinstance(n, ast.Raise) and isinstance(n.exc, ast.Call):
            f = n.exc.func
            if isinstance(f, ast.Attribute) and isinstance(f.value, ast.Name) and f.value.id == "falcon":
                return f.attr
    return None


def _refusal_status(node: ast.AST) -> int | None:
    """HTTP status with which `node` refuses the request: `raise falcon.HTTPxxx(...)` (status read from the installed
    falcon) or `_reject_request(resp, <exc>, HTTPStatus.NAME)` (Arrow error body + `resp.complete`)."""
    from http import HTTPStatus

    name = _raised_falcon(node)
    if name is not None:
        return _status_of(name)
    for n in ast.walk(node):
        if isinstance(n, ast.Call) and isinstance(n.func, ast.Name) and n.func.id == "_reject_request" and len(n.args) == 3:
            a = n.args[2]
            if isinstance(a, ast.Attribute) and isinstance(a.value, ast.Name) and a.value.id == "HTTPStatus" and ast.unparse(n.args[0]) == "resp":
                return int(HTTPStatus[a.attr].value)
    return None


def _reject_completes(tree: ast.Module) -> bool:
    """`_reject_request` writes the error response and sets `resp.complete = True` (Falcon then skips the remaining
    process_request hooks, routing and the responder).  True also when the helper does not exist (refusals raise)."""
    for n in tree.body:
        if isinstance(n, ast.FunctionDef) and n.name == "_reject_request":
            src = ast.unparse(n)
            return "_set_error_response(resp, exc, status_code=status_code)" in src and "resp.complete = True" in src
    return True


def _b(x: bool) -> str:
    return "true" if x else "false"


def emit() -> dict[str, str]:
    mw = ast.parse((REPO / "vgi_rpc/http/server/_middleware.py").read_text())

    # ---- _MaxRequestBytesMiddleware.process_request -----------------------------------------------------------
    pr = _method(mw, "_MaxRequestBytesMiddleware", "process_request")
    body = [b for b in pr.body if not (isinstance(b, ast.Expr) and isinstance(b.value, ast.Constant))]
    guard = "always"
    exempt_test = None
    for st in body:
        loops = [n for n in ast.walk(st) if isinstance(n, ast.For) and ast.unparse(n.iter) == "self._exempt_prefixes"]
        if not loops:
            continue
        if isinstance(st, ast.If):
            t = ast.unparse(st.test)
            if t == "req.method != 'POST'":
                guard = "method_not_post"
            else:
                raise Shape(f"max-bytes: exemption guarded by unrecognised test {t!r}")
        lp = loops[0]
        if len(lp.body) != 1 or not isinstance(lp.body[0], ast.If) or not isinstance(lp.body[0].body[0], ast.Return):
            raise Shape("max-bytes: exemption loop body not recognised")
        et = ast.unparse(lp.body[0].test)
        if et == "path == prefix or path.startswith(prefix + '/')":
            exempt_test = "eq_or_slash_prefix"
        elif et == "path.startswith(prefix)":
            exempt_test = "startswith"
        else:
            raise Shape(f"max-bytes: exemption test {et!r} not recognised")
    if exempt_test is None:
        raise Shape("max-bytes: exemption loop not found")
    src = ast.unparse(pr)
    refuse = r"(?:self\._raise_too_large\(%s\)|self\._reject_too_large\(resp, %s\)\n\s+return)"
    m = re.search(r"if cl is not None and cl (>|>=) self\._max_bytes:\n\s+" + refuse % ("cl", "cl"), src)
    if not m:
        raise Shape("max-bytes: Content-Length guard not recognised")
    cl_cmp = {">": "Gt", ">=": "GtE"}[m.group(1)]
    m = re.search(r"if cl is None:\n\s+body = req\.bounded_stream\.read\(self\._max_bytes(?: \+ (\d+))?\)\n\s+if len\(body\) (>|>=) self\._max_bytes:\n\s+"
                  + refuse % (r"len\(body\)", r"len\(body\)") + r"\n\s+req\.context\.capped_request_body = body", src)
    if not m:
        raise Shape("max-bytes: chunked branch not recognised")
    read_extra = int(m.group(1) or 0)
    body_cmp = {">": "Gt", ">=": "GtE"}[m.group(2)]
    too_large_status = None
    for helper in ("_raise_too_large", "_reject_too_large"):
        try:
            too_large_status = _refusal_status(_method(mw, "_MaxRequestBytesMiddleware", helper))
        except Shape:
            continue
        if too_large_status is not None:
            break
    if too_large_status is None:
        raise Shape("max-bytes: the too-large helper refuses with no recognisable status")
    reject_completes = _reject_completes(mw)

    # ---- _CompressionMiddleware.process_request ---------------------------------------------------------------
    cp = _method(mw, "_CompressionMiddleware", "process_request")
    csrc = ast.unparse(cp)
    if "content_encoding = (req.get_header('Content-Encoding') or '').strip().lower()" in csrc:
        normalise = "strip_lower"
    elif "content_encoding = (req.get_header('Content-Encoding') or '').lower().strip()" in csrc:
        normalise = "lower_strip"
    else:
        raise Shape("compression: Content-Encoding normalisation not recognised")
    if not re.search(r"if not content_encoding:\n\s+return", csrc):
        raise Shape("compression: empty Content-Encoding return not recognised")
    if "req_enc = next((e for e in Encoding if e.value == content_encoding), None)" not in csrc:
        raise Shape("compression: codec lookup not recognised")
    # top-level statements after the lookup, in order
    order: list[str] = []
    unknown_exc = disabled_exc = None
    limit_exc = other_exc = None
    handler_order: list[str] = []
    cap_arg = None
    for st in cp.body:
        if isinstance(st, ast.If):
            t = ast.unparse(st.test)
            if t == "req_enc is None":
                order.append("unknown")
                unknown_exc = _refusal_status(st)
            elif t == "req_enc is Encoding.IDENTITY":
                if len(st.body) == 1 and isinstance(st.body[0], ast.Return) and st.body[0].value is None:
                    order.append("identity_return")
                else:
                    raise Shape("compression: identity branch does something other than return")
            elif t == "req_enc not in self._decode":
                order.append("disabled")
                disabled_exc = _refusal_status(st)
        elif isinstance(st, ast.Try):
            order.append("decode")
            for h in st.handlers:
                hn = ast.unparse(h.type) if h.type is not None else "BaseException"
                handler_order.append(hn)
                if hn == "DecompressionLimitExceeded":
                    limit_exc = _refusal_status(h)
                elif hn == "Exception":
                    other_exc = _refusal_status(h)
            tsrc = ast.unparse(st)
            mm = re.search(r"_decompress_with_encoding\(req_enc, compressed, max_output_size=([\w\.]+)\)", tsrc)
            cap_arg = mm.group(1) if mm else None
            if "compressed = getattr(req.context, 'capped_request_body', None)" not in tsrc or "compressed = req.bounded_stream.read()" not in tsrc:
                raise Shape("compression: source of the compressed bytes not recognised")
    if None in (unknown_exc, disabled_exc, limit_exc, other_exc):
        raise Shape(f"compression: refusal classes not recognised ({unknown_exc}, {disabled_exc}, {limit_exc}, {other_exc})")
    # a handler that answers through `_reject_request` does not raise: nothing may run after the `try` in this hook
    decode_is_last = isinstance(cp.body[-1], ast.Try)
    if not decode_is_last:
        raise Shape("compression: statements follow the decode `try` (a non-raising refusal would fall through)")
    if cap_arg != "self._max_decompressed_bytes":
        raise Shape(f"compression: decoder cap argument {cap_arg!r}")
    identity_pass = "identity_return" in order and "disabled" in order and order.index("identity_return") < order.index("disabled") \
        and order.index("unknown") < order.index("identity_return")
    limit_first = handler_order[:2] == ["DecompressionLimitExceeded", "Exception"]

    # ---- _get_request_stream ----------------------------------------------------------------------------------
    rs = ast.unparse(_func(ast.parse((REPO / "vgi_rpc/http/server/_responses.py").read_text()), "_get_request_stream"))
    marks = ["getattr(req.context, 'decompressed_stream', None)", "getattr(req.context, 'capped_request_body', None)", "req.bounded_stream.read()"]
    pos = [rs.find(x) for x in marks]
    stream_order_ok = all(p >= 0 for p in pos) and pos == sorted(pos)

    # ---- make_wsgi_app wiring ---------------------------------------------------------------------------------
    fsrc = (REPO / "vgi_rpc/http/server/_factory.py").read_text()
    ft = ast.unparse(_func(ast.parse(fsrc), "make_wsgi_app"))
    decoded_cap_is_request_cap = "max_decompressed_bytes = max_request_bytes" in ft and "max_decompressed_bytes=max_decompressed_bytes" in ft
    p1, p2 = ft.find("_MaxRequestBytesMiddleware("), ft.find("_CompressionMiddleware(")
    cap_before_decode = 0 <= p1 < p2
    cap_conditional = re.search(r"if max_request_bytes is not None:\n\s+middleware\.append\(_MaxRequestBytesMiddleware\(max_request_bytes, exempt_prefixes=\(f'\{prefix\}/health',\)\)\)", ft) is not None
    mdec = re.search(r"decodable: tuple\[Encoding, \.\.\.\] = tuple\(\(enc for enc in \(([^)]*)\) if", ft)
    decodable = [x.strip().split(".")[-1] for x in mdec.group(1).split(",")] if mdec else []
    # ---- how the accepted request codings are wired: one assignment, the env switch, nothing conditional on the level ----
    fn = _func(ast.parse(fsrc), "make_wsgi_app")
    assigns: dict[str, list[tuple[str, bool]]] = {"decodable": [], "zstd_disabled": [], "runtime": []}

    def _collect(node: ast.AST, nested: bool) -> None:
        for ch in ast.iter_child_nodes(node):
            if isinstance(ch, (ast.Assign, ast.AnnAssign, ast.AugAssign)):
                tg = ch.targets[0] if isinstance(ch, ast.Assign) else ch.target
                if isinstance(tg, ast.Name) and tg.id in assigns and ch.value is not None:
                    assigns[tg.id].append((ast.unparse(ch.value), nested))
            _collect(ch, nested or isinstance(ch, (ast.If, ast.For, ast.While, ast.Try, ast.With)))

    _collect(fn, False)
    want_dec = "tuple((enc for enc in (Encoding.ZSTD, Encoding.GZIP) if enc in runtime and (not (zstd_disabled and enc is Encoding.ZSTD))))"
    if assigns["decodable"] != [(want_dec, False)]:
        raise Shape(f"factory: `decodable` is not assigned exactly once, unconditionally, as runtime minus disabled zstd: {assigns['decodable']}")
    if assigns["runtime"] != [("set(available_encodings())", False)]:
        raise Shape(f"factory: `runtime` wiring not recognised: {assigns['runtime']}")
    menv = re.fullmatch(r"os\.environ\.get\('([A-Z_]+)'\) == '([^']*)'", assigns["zstd_disabled"][0][0]) if len(assigns["zstd_disabled"]) == 1 else None
    if menv is None or assigns["zstd_disabled"][0][1]:
        raise Shape(f"factory: `zstd_disabled` wiring not recognised: {assigns['zstd_disabled']}")
    calls = [ast.unparse(c) for c in ast.walk(fn) if isinstance(c, ast.Call) and ast.unparse(c.func) == "_CompressionMiddleware"]
    if len(calls) != 1 or "decode_encodings=decodable" not in calls[0]:
        raise Shape(f"factory: _CompressionMiddleware is not built with decode_encodings=decodable: {calls}")
    init_src = ast.unparse(_method(mw, "_CompressionMiddleware", "__init__"))
    if "self._decode: tuple[Encoding, ...] = tuple((enc for enc in decodable if enc in runtime))" not in init_src or \
            "decodable = tuple(encode_levels) if decode_encodings is None else tuple(decode_encodings)" not in init_src:
        raise Shape("compression: __init__ does not keep `decode_encodings` filtered by the runtime codecs")

    body_l = f"""namespace VgiVerif.Gen.ReqBody

/-- `_MaxRequestBytesMiddleware`: the health exemption applies "always" or only when `req.method != "POST"` -/
def exemptGuard : String := "{guard}"
/-- exemption test: "eq_or_slash_prefix" = `path == prefix or path.startswith(prefix + "/")` -/
def exemptTest : String := "{exempt_test}"
/-- `make_wsgi_app`: `exempt_prefixes=(f"{{prefix}}/health",)` and the middleware is installed iff `max_request_bytes is not None` -/
def exemptSuffixes : List String := ["/health"]
def capMiddlewareConditional : Bool := {_b(cap_conditional)}
/-- `cl is not None and cl <op> self._max_bytes` -/
def contentLengthCmp : String := "{cl_cmp}"
/-- `req.bounded_stream.read(self._max_bytes + K)` -/
def chunkedReadExtra : Nat := {read_extra}
/-- `len(body) <op> self._max_bytes` -/
def chunkedCmp : String := "{body_cmp}"
/-- HTTP status with which the wire cap refuses (falcon error raised, or `_reject_request(…, HTTPStatus.…)`) -/
def wireTooLargeStatus : Nat := {too_large_status}
/-- a refusal from `process_request` ends the request: either it raises, or `_reject_request` sets `resp.complete = True`
(Falcon skips the remaining hooks, routing and the responder) and the hook returns right after it -/
def refusalEndsRequest : Bool := {_b(reject_completes)}

/-- `(req.get_header("Content-Encoding") or "").strip().lower()` -/
def ceNormalise : String := "{normalise}"
/-- status for an unknown coding; for a known coding that is not in `_decode` -/
def unknownStatus : Nat := {unknown_exc}
def disabledStatus : Nat := {disabled_exc}
/-- `if req_enc is Encoding.IDENTITY: return` sits after the unknown-coding refusal and before the `_decode` test -/
def identityPassThrough : Bool := {_b(identity_pass)}
/-- `except DecompressionLimitExceeded` precedes `except Exception`; the status each answers with -/
def limitHandlerFirst : Bool := {_b(limit_first)}
def decodedTooLargeStatus : Nat := {limit_exc}
def undecodableStatus : Nat := {other_exc}

/-- `make_wsgi_app`: `max_decompressed_bytes = max_request_bytes`; the wire cap is appended before the compression middleware -/
def decodedCapIsRequestCap : Bool := {_b(decoded_cap_is_request_cap)}
def wireCapBeforeDecode : Bool := {_b(cap_before_decode)}
/-- request codings a server can be configured to decode (`decodable`), in order -/
def decodable : List String := [{", ".join('"' + d + '"' for d in decodable)}]
/-- how `decodable` (→ `decode_encodings` → `self._decode`) is computed: "runtime_minus_disabled_zstd" = assigned once,
outside any conditional, as `(ZSTD, GZIP)` filtered by `enc in runtime and not (zstd_disabled and enc is ZSTD)` — in
particular not dependent on `compression_level` -/
def decodeWiring : String := "runtime_minus_disabled_zstd"
/-- `zstd_disabled = os.environ.get(<var>) == <value>` -/
def disableZstdEnv : String := "{menv.group(1)}"
def disableZstdValue : String := "{menv.group(2)}"
/-- `_get_request_stream`: decompressed stream, else capped body, else `bounded_stream.read()` -/
def requestStreamOrderOk : Bool := {_b(stream_order_ok)}

end VgiVerif.Gen.ReqBody
"""
    return {"ReqBody.lean": body_l}
