"""C20: the authentication exemption test and the route table of the HTTP server, as *shapes*.

Emits ``Gen/Exempt.lean``:

* ``auth``  — every disjunct of ``exempt = (… or … or …)`` in ``_AuthMiddleware.process_request`` (which comparison
  is applied to ``req.path``: ``startswith(p)`` / ``== p`` (``in``) / ``== p or startswith(p + "/")``), the guard the
  exemption feeds (``if self._authenticate is None or exempt: … return``), and — for every ``self._<attr>`` the
  expression iterates — the path templates ``make_wsgi_app`` appends to the list it passes for that attribute together
  with the condition under which each template is appended (health endpoint enabled / PKCE active);
* ``size`` / ``sticky`` — the same for ``_MaxRequestBytesMiddleware`` and ``_StickyMiddleware`` (consumed by C17 / C25);
* ``routes`` — every ``app.add_route(<template>, <Resource>(…))`` of ``make_wsgi_app`` with its enabling condition;
* ``underscoreSkipped`` — ``rpc_methods`` skips names starting with ``_``; ``describeName``.

Anything the extractor does not recognise is emitted as ``unknown`` / ``recognised := false`` so that the proofs over the
generated shape stop checking (never silently defaulted).
"""

from __future__ import annotations

import ast
import os
from pathlib import Path

from .leanlit import lean_chars as lean_str

REPO = Path(os.environ.get("VERIF_REPO", "/repo"))
PROPS = ["C20"]

MW = "vgi_rpc/http/server/_middleware.py"
FACTORY = "vgi_rpc/http/server/_factory.py"
STICKY = "vgi_rpc/http/server/_sticky.py"


# ------------------------------------------------------------------------------------------ helpers


def _parents(tree: ast.AST) -> dict[ast.AST, ast.AST]:
    par: dict[ast.AST, ast.AST] = {}
    for n in ast.walk(tree):
        for c in ast.iter_child_nodes(n):
            par[c] = n
    return par


def _find_class(tree: ast.Module, name: str) -> ast.ClassDef:
    for n in tree.body:
        if isinstance(n, ast.ClassDef) and n.name == name:
            return n
    raise LookupError(f"class {name} not found")


def _find_func(node: ast.AST, name: str) -> ast.FunctionDef:
    for n in ast.walk(node):
        if isinstance(n, ast.FunctionDef) and n.name == name:
            return n
    raise LookupError(f"function {name} not found")


def _is_path(e: ast.expr, local: str | None = None) -> bool:
    """``req.path`` (or the local variable it was copied to)."""
    if isinstance(e, ast.Attribute) and e.attr == "path" and isinstance(e.value, ast.Name) and e.value.id == "req":
        return True
    return local is not None and isinstance(e, ast.Name) and e.id == local


def _self_attr(e: ast.expr) -> str | None:
    if isinstance(e, ast.Attribute) and isinstance(e.value, ast.Name) and e.value.id == "self":
        return e.attr
    return None


def _cmp_of(test: ast.expr, var: str, local: str | None = None) -> str:
    """Classify a boolean expression comparing the request path with the loop variable ``var``."""
    # path.startswith(var)
    if (
        isinstance(test, ast.Call)
        and isinstance(test.func, ast.Attribute)
        and test.func.attr == "startswith"
        and _is_path(test.func.value, local)
        and len(test.args) == 1
        and not test.keywords
        and isinstance(test.args[0], ast.Name)
        and test.args[0].id == var
    ):
        return "startsWith"
    # path == var
    if (
        isinstance(test, ast.Compare)
        and len(test.ops) == 1
        and isinstance(test.ops[0], ast.Eq)
        and _is_path(test.left, local)
        and isinstance(test.comparators[0], ast.Name)
        and test.comparators[0].id == var
    ):
        return "exact"
    # path == var or path.startswith(var + "/")
    if isinstance(test, ast.BoolOp) and isinstance(test.op, ast.Or) and len(test.values) == 2:
        a, b = test.values
        if _cmp_of(a, var, local) == "exact" and (
            isinstance(b, ast.Call)
            and isinstance(b.func, ast.Attribute)
            and b.func.attr == "startswith"
            and _is_path(b.func.value, local)
            and len(b.args) == 1
            and isinstance(b.args[0], ast.BinOp)
            and isinstance(b.args[0].op, ast.Add)
            and isinstance(b.args[0].left, ast.Name)
            and b.args[0].left.id == var
            and isinstance(b.args[0].right, ast.Constant)
            and b.args[0].right.value == "/"
        ):
            return "exactOrSlash"
    return "unknown"


def _init_param_of_attr(cls: ast.ClassDef) -> dict[str, str]:
    """``self._x = x`` assignments of ``__init__``: attribute → constructor parameter."""
    out: dict[str, str] = {}
    init = _find_func(cls, "__init__")
    for n in ast.walk(init):
        if isinstance(n, ast.Assign) and len(n.targets) == 1:
            a = _self_attr(n.targets[0])
            if a and isinstance(n.value, ast.Name):
                out[a] = n.value.id
    return out


# ------------------------------------------------------------------------------------------ middleware shapes


def _auth_disjuncts(cls: ast.ClassDef) -> tuple[bool, list[tuple[str, str, str]], bool]:
    """Returns (optionsExempt, [(kind, cmp, payload)], recognised).

    kind = "lit"  payload = the string literal compared with req.path
    kind = "attr" payload = the ``self._<attr>`` iterated / tested for membership
    """
    fn = _find_func(cls, "process_request")
    # `exempt` must be bound exactly once, by a plain top-level statement of process_request (no conditional rebinding, no
    # lookup of a remembered verdict): the verdict has to be a function of the current request alone
    binds = [
        n for n in ast.walk(fn)
        if (isinstance(n, (ast.Assign, ast.AnnAssign, ast.AugAssign, ast.NamedExpr))
            and any(isinstance(t, ast.Name) and t.id == "exempt"
                    for t in (n.targets if isinstance(n, ast.Assign) else [n.target])))
    ]
    if len(binds) != 1 or not isinstance(binds[0], ast.Assign) or binds[0] not in fn.body:
        return False, [], False
    assign = binds[0]
    val = assign.value
    disj = val.values if isinstance(val, ast.BoolOp) and isinstance(val.op, ast.Or) else [val]
    options = False
    out: list[tuple[str, str, str]] = []
    ok = True
    for d in disj:
        # req.method == "OPTIONS"
        if (
            isinstance(d, ast.Compare)
            and len(d.ops) == 1
            and isinstance(d.ops[0], ast.Eq)
            and isinstance(d.left, ast.Attribute)
            and d.left.attr == "method"
            and isinstance(d.comparators[0], ast.Constant)
            and d.comparators[0].value == "OPTIONS"
        ):
            options = True
            continue
        # req.path.startswith("<lit>")  /  req.path == "<lit>"
        if (
            isinstance(d, ast.Call)
            and isinstance(d.func, ast.Attribute)
            and d.func.attr == "startswith"
            and _is_path(d.func.value)
            and len(d.args) == 1
            and isinstance(d.args[0], ast.Constant)
            and isinstance(d.args[0].value, str)
        ):
            out.append(("lit", "startsWith", d.args[0].value))
            continue
        if (
            isinstance(d, ast.Compare)
            and len(d.ops) == 1
            and isinstance(d.ops[0], ast.Eq)
            and _is_path(d.left)
            and isinstance(d.comparators[0], ast.Constant)
            and isinstance(d.comparators[0].value, str)
        ):
            out.append(("lit", "exact", d.comparators[0].value))
            continue
        # req.path in self._attr
        if isinstance(d, ast.Compare) and len(d.ops) == 1 and isinstance(d.ops[0], ast.In) and _is_path(d.left):
            a = _self_attr(d.comparators[0])
            if a:
                out.append(("attr", "exact", a))
                continue
        # any(<cmp(req.path, v)> for v in self._attr)
        if (
            isinstance(d, ast.Call)
            and isinstance(d.func, ast.Name)
            and d.func.id == "any"
            and len(d.args) == 1
            and isinstance(d.args[0], ast.GeneratorExp)
            and len(d.args[0].generators) == 1
            and not d.args[0].generators[0].ifs
            and isinstance(d.args[0].generators[0].target, ast.Name)
        ):
            g = d.args[0].generators[0]
            a = _self_attr(g.iter)
            c = _cmp_of(d.args[0].elt, g.target.id)
            if a and c != "unknown":
                out.append(("attr", c, a))
                continue
        ok = False
        out.append(("lit", "unknown", ast.unparse(d)))
    # the guard: `if self._authenticate is None or exempt:` whose body ends in `return` before `self._authenticate(req)`
    guard_ok = False
    for n in fn.body:
        if isinstance(n, ast.If) and ast.unparse(n.test) == "self._authenticate is None or exempt":
            guard_ok = bool(n.body) and isinstance(n.body[-1], ast.Return) and not n.orelse
            # the callback must not be invoked before the guard
            before = fn.body[: fn.body.index(n)]
            for b in before:
                for c in ast.walk(b):
                    if isinstance(c, ast.Call) and ast.unparse(c.func) == "self._authenticate":
                        guard_ok = False
    return options, out, ok and guard_ok


_MUTATORS = {"append", "add", "setdefault", "pop", "popitem", "update", "clear", "extend", "insert", "remove", "discard",
             "move_to_end", "appendleft", "put", "cache_clear", "__setitem__"}


def _stateless(cls: ast.ClassDef) -> bool:
    """The middleware keeps nothing between requests.

    * `__init__` only copies constructor parameters (`self._x = x`), so no container is created to be filled later;
    * outside `__init__` no method stores into / deletes from `self` (attribute, subscript, augmented assignment) or calls a
      mutating container method on a `self` attribute;
    * no `global` / `nonlocal`, no decorator on the request hooks (a memoising decorator is state too), no class-level
      mutable attribute besides `__slots__`.
    """
    def rooted_in_self(e: ast.expr) -> bool:
        while isinstance(e, (ast.Attribute, ast.Subscript)):
            e = e.value
        return isinstance(e, ast.Name) and e.id == "self"

    for item in cls.body:
        if isinstance(item, (ast.Assign, ast.AnnAssign)):
            tgt = item.targets[0] if isinstance(item, ast.Assign) else item.target
            if not (isinstance(tgt, ast.Name) and tgt.id == "__slots__"):
                return False
        if not isinstance(item, ast.FunctionDef):
            continue
        if item.name in ("process_request", "process_response", "process_resource") and item.decorator_list:
            return False
        params = {a.arg for a in item.args.args + item.args.kwonlyargs}
        for n in ast.walk(item):
            if isinstance(n, (ast.Global, ast.Nonlocal)):
                return False
            targets: list[ast.expr] = []
            if isinstance(n, ast.Assign):
                targets = list(n.targets)
            elif isinstance(n, (ast.AnnAssign, ast.AugAssign)):
                targets = [n.target]
            elif isinstance(n, ast.Delete):
                targets = list(n.targets)
            for t in targets:
                for sub in ast.walk(t):
                    if isinstance(sub, (ast.Attribute, ast.Subscript)) and rooted_in_self(sub):
                        if item.name == "__init__" and isinstance(n, ast.Assign) and isinstance(n.value, ast.Name) \
                                and n.value.id in params and isinstance(t, ast.Attribute):
                            continue
                        return False
            if isinstance(n, ast.Call) and isinstance(n.func, ast.Attribute) and n.func.attr in _MUTATORS \
                    and rooted_in_self(n.func.value):
                return False
    return True


def _loop_entries(cls: ast.ClassDef) -> tuple[list[tuple[str, str]], bool]:
    """`for p in self._attr: if <cmp>: return` loops of process_request (size / sticky middlewares)."""
    fn = _find_func(cls, "process_request")
    local = None
    for n in fn.body:
        if isinstance(n, ast.Assign) and len(n.targets) == 1 and isinstance(n.targets[0], ast.Name) and _is_path(n.value):
            local = n.targets[0].id
    out: list[tuple[str, str]] = []
    ok = True
    for n in ast.walk(fn):
        if isinstance(n, ast.For) and isinstance(n.target, ast.Name) and _self_attr(n.iter) and "exempt" in (_self_attr(n.iter) or ""):
            a = _self_attr(n.iter)
            assert a is not None
            if len(n.body) == 1 and isinstance(n.body[0], ast.If) and isinstance(n.body[0].body[-1], ast.Return):
                c = _cmp_of(n.body[0].test, n.target.id, local)
            else:
                c = "unknown"
            ok = ok and c != "unknown"
            out.append((c, a))
    return out, ok and bool(out)


# ------------------------------------------------------------------------------------------ factory templates


def _cond_of(test_src: str) -> str:
    t = " ".join(test_src.split())
    table = {
        "enable_health_endpoint": "health",
        "_pkce_active": "pkce",
        "authenticate is not None and _validated_oauth_metadata is not None and (_validated_oauth_metadata.client_id is not None)": "pkce",
        "authenticate is not None and _validated_oauth_metadata is not None and _validated_oauth_metadata.client_id is not None": "pkce",
        "max_request_bytes is not None": "sizeCap",
        "enable_sticky": "sticky",
        "upload_url_provider is not None": "upload",
        "_validated_oauth_metadata is not None": "oauthMeta",
        "describe_page_active": "describePage",
        "enable_landing_page": "landing",
    }
    return table.get(t, "unknown")


def _enclosing_conds(node: ast.AST, par: dict[ast.AST, ast.AST], stop: ast.AST) -> list[str]:
    """Conditions of the `if` statements (body side only) enclosing ``node`` inside ``stop``; else-side → unknown."""
    conds: list[str] = []
    cur = node
    while cur is not stop and cur in par:
        p = par[cur]
        if isinstance(p, ast.If):
            if cur in p.body:
                conds.append(_cond_of(ast.unparse(p.test)))
            elif cur in p.orelse:
                conds.append("unknown")
        elif isinstance(p, ast.IfExp):
            conds.append("unknown")
        cur = p
    return list(reversed(conds))


def _template(e: ast.expr, consts: dict[str, str]) -> tuple[str, str] | None:
    """A path template → (kind, text): kind "prefixed" = f"{prefix}<text>", "absolute" = "<text>" (+ optional {prefix} tail).

    ``{{method}}`` appears in text as ``{method}``; module constants are resolved through ``consts``.
    """
    if isinstance(e, ast.Constant) and isinstance(e.value, str):
        return "absolute", e.value
    if isinstance(e, ast.BoolOp) and isinstance(e.op, ast.Or) and ast.unparse(e) == "prefix or '/'":
        return "prefixOrRoot", ""
    if not isinstance(e, ast.JoinedStr):
        return None
    parts: list[str] = []
    for v in e.values:
        if isinstance(v, ast.Constant):
            parts.append(str(v.value))
        elif isinstance(v, ast.FormattedValue) and isinstance(v.value, ast.Name) and v.conversion == -1 and v.format_spec is None:
            if v.value.id == "prefix":
                parts.append("\0")
            elif v.value.id in consts:
                parts.append(consts[v.value.id])
            else:
                return None
        else:
            return None
    s = "".join(parts)
    if s.startswith("\0") and "\0" not in s[1:]:
        return "prefixed", s[1:]
    if s.endswith("\0") and "\0" not in s[:-1]:
        return "absoluteThenPrefix", s[:-1]
    if "\0" not in s:
        return "absolute", s
    return None


def _module_consts() -> dict[str, str]:
    import vgi_rpc.http._common as common
    import vgi_rpc.http.server._introspect as introspect

    return {"_SESSION_ENDPOINT": common._SESSION_ENDPOINT, "INTROSPECT_ENDPOINT": introspect.INTROSPECT_ENDPOINT}


def _factory_shapes() -> dict:
    tree = ast.parse((REPO / FACTORY).read_text())
    fn = _find_func(tree, "make_wsgi_app")
    par = _parents(fn)
    consts = _module_consts()

    # list name -> [(suffix, cond)] from `<list>.append(f"{prefix}…")`
    lists: dict[str, list[tuple[str, str]]] = {}
    for n in sorted((x for x in ast.walk(fn) if isinstance(x, ast.Call)), key=lambda x: (x.lineno, x.col_offset)):
        if (
            isinstance(n, ast.Call)
            and isinstance(n.func, ast.Attribute)
            and n.func.attr == "append"
            and isinstance(n.func.value, ast.Name)
            and "exempt" in n.func.value.id
            and len(n.args) == 1
        ):
            t = _template(n.args[0], consts)
            conds = _enclosing_conds(n, par, fn)
            cond = conds[0] if len(conds) == 1 else ("always" if not conds else "unknown")
            if t is None or t[0] != "prefixed":
                lists.setdefault(n.func.value.id, []).append(("?" + ast.unparse(n.args[0]), "unknown"))
            else:
                lists.setdefault(n.func.value.id, []).append((t[1], cond))

    # middleware constructor calls: class name -> {kwarg: [(suffix, cond)]}
    ctor: dict[str, dict[str, list[tuple[str, str]]]] = {}
    for n in ast.walk(fn):
        if isinstance(n, ast.Call) and isinstance(n.func, ast.Name) and n.func.id in (
            "_AuthMiddleware",
            "_MaxRequestBytesMiddleware",
            "_StickyMiddleware",
        ):
            conds = [c for c in _enclosing_conds(n, par, fn)]
            kw: dict[str, list[tuple[str, str]]] = {}
            for k in n.keywords:
                if k.arg is None or "exempt" not in k.arg:
                    continue
                v = k.value
                if isinstance(v, ast.Call) and isinstance(v.func, ast.Name) and v.func.id in ("tuple", "frozenset") and len(v.args) == 1 and isinstance(v.args[0], ast.Name):
                    kw[k.arg] = lists.get(v.args[0].id, [])
                elif isinstance(v, ast.Tuple):
                    items = []
                    for e in v.elts:
                        t = _template(e, consts)
                        items.append((t[1], "always") if t and t[0] == "prefixed" else ("?" + ast.unparse(e), "unknown"))
                    kw[k.arg] = items
                else:
                    kw[k.arg] = [("?" + ast.unparse(v), "unknown")]
            ctor[n.func.id] = kw
            ctor[n.func.id + ":conds"] = conds  # type: ignore[assignment]

    # routes
    routes: list[tuple[str, str, str, str]] = []  # (kind, text, resource class, cond)
    for n in sorted((x for x in ast.walk(fn) if isinstance(x, ast.Call)), key=lambda x: (x.lineno, x.col_offset)):
        if isinstance(n, ast.Call) and isinstance(n.func, ast.Attribute) and n.func.attr == "add_route" and len(n.args) >= 2:
            t = _template(n.args[0], consts)
            res = n.args[1]
            if isinstance(res, ast.IfExp):  # the introspection route: enabled / disabled responder
                res_name = ast.unparse(res.body.func) if isinstance(res.body, ast.Call) else ast.unparse(res.body)
            elif isinstance(res, ast.Call):
                res_name = ast.unparse(res.func)
            else:
                res_name = ast.unparse(res)
            conds = _enclosing_conds(n, par, fn)
            # `if prefix and prefix != "/"` around the second well-known route is a property of the template, not a flag
            conds2 = []
            for c, raw in zip(conds, _raw_conds(n, par, fn)):
                if raw == "prefix and prefix != '/'":
                    continue
                conds2.append(c)
            cond = conds2[0] if len(conds2) == 1 else ("always" if not conds2 else "unknown")
            if t is None:
                routes.append(("unknown", ast.unparse(n.args[0]), res_name, cond))
            else:
                routes.append((t[0], t[1], res_name, cond))
    sink = any(
        isinstance(n, ast.Call) and isinstance(n.func, ast.Attribute) and n.func.attr == "add_sink" for n in ast.walk(fn)
    )
    return {"ctor": ctor, "routes": routes, "sink": sink}


def _raw_conds(node: ast.AST, par: dict[ast.AST, ast.AST], stop: ast.AST) -> list[str]:
    out = []
    cur = node
    while cur is not stop and cur in par:
        p = par[cur]
        if isinstance(p, ast.If) and (cur in p.body or cur in p.orelse):
            out.append(ast.unparse(p.test))
        elif isinstance(p, ast.IfExp):
            out.append(ast.unparse(p.test))
        cur = p
    return list(reversed(out))


def _underscore_skipped() -> bool:
    """`rpc_methods`: `for name in dir(protocol): if name.startswith("_"): continue`."""
    for rel in ("vgi_rpc/rpc/_types.py",):
        tree = ast.parse((REPO / rel).read_text())
        try:
            fn = _find_func(tree, "rpc_methods")
        except LookupError:
            continue
        for n in ast.walk(fn):
            if isinstance(n, ast.For) and isinstance(n.target, ast.Name) and ast.unparse(n.iter) == "dir(protocol)":
                first = n.body[0]
                if (
                    isinstance(first, ast.If)
                    and ast.unparse(first.test) == f"{n.target.id}.startswith('_')"
                    and len(first.body) == 1
                    and isinstance(first.body[0], ast.Continue)
                ):
                    return True
    return False


# ------------------------------------------------------------------------------------------ emit


def _entry(cmp: str, suffix: str, cond: str) -> str:
    return f"{{ cmp := .{cmp}, suffix := {lean_str(suffix)}, cond := .{cond} }}"


def emit() -> dict[str, str]:
    mw = ast.parse((REPO / MW).read_text())
    st = ast.parse((REPO / STICKY).read_text())
    auth_cls = _find_class(mw, "_AuthMiddleware")
    options, disj, recognised = _auth_disjuncts(auth_cls)
    stateless = _stateless(auth_cls)
    attr2param = _init_param_of_attr(auth_cls)
    fs = _factory_shapes()
    auth_kw = fs["ctor"].get("_AuthMiddleware", {})
    literals = []
    entries = []
    for kind, cmp, payload in disj:
        if kind == "lit":
            literals.append(f"(.{cmp}, {lean_str(payload)})")
        else:
            param = attr2param.get(payload)
            if param is None:
                recognised = False
                continue
            for suffix, cond in auth_kw.get(param, []):
                entries.append(_entry(cmp, suffix, cond))
                if cond == "unknown" or suffix.startswith("?"):
                    recognised = False
    # every exempt_* keyword the factory passes must be consumed by the expression
    used_params = {attr2param.get(p) for k, _c, p in disj if k == "attr"}
    for k in auth_kw:
        if k not in used_params:
            recognised = False
    if fs["ctor"].get("_AuthMiddleware:conds"):
        recognised = False  # the auth middleware must be installed unconditionally

    def loop_shape(cls: ast.ClassDef, ctor_name: str) -> tuple[list[str], bool]:
        loops, ok = _loop_entries(cls)
        a2p = _init_param_of_attr(cls)
        kw = fs["ctor"].get(ctor_name, {})
        out = []
        for cmp, attr in loops:
            for suffix, cond in kw.get(a2p.get(attr, ""), []):
                out.append(_entry(cmp, suffix, cond))
                if cond == "unknown" or suffix.startswith("?"):
                    ok = False
        return out, ok and bool(out)

    size_entries, size_ok = loop_shape(_find_class(mw, "_MaxRequestBytesMiddleware"), "_MaxRequestBytesMiddleware")
    sticky_entries, sticky_ok = loop_shape(_find_class(st, "_StickyMiddleware"), "_StickyMiddleware")

    routes = []
    for kind, text, res, cond in fs["routes"]:
        routes.append(f"  {{ kind := .{kind}, text := {lean_str(text)}, resource := \"{res}\", cond := .{cond} }}")

    from vgi_rpc.introspect import DESCRIBE_METHOD_NAME

    nl = ",\n"
    body = f"""namespace VgiVerif.Gen.Exempt

/-- how a middleware compares `req.path` with an exempt entry `p` -/
inductive Cmp where
  | startsWith      -- `path.startswith(p)`
  | exact           -- `path == p` / `path in (…)`
  | exactOrSlash    -- `path == p or path.startswith(p + "/")`
  | unknown         -- not recognised by the extractor
deriving Repr, DecidableEq

/-- the configuration condition under which `make_wsgi_app` adds an entry / a route -/
inductive Cond where
  | always | health | pkce | sizeCap | sticky | upload | oauthMeta | describePage | landing | unknown
deriving Repr, DecidableEq

/-- exempt entry: the path `prefix ++ suffix`, compared with `cmp`, present when `cond` holds -/
structure Entry where
  cmp : Cmp
  suffix : List Char
  cond : Cond
deriving Repr, DecidableEq

/-- `_AuthMiddleware.process_request`: `exempt = (<disjuncts>)`; `if self._authenticate is None or exempt: … return` -/
structure AuthShape where
  optionsExempt : Bool                      -- disjunct `req.method == "OPTIONS"`
  literals : List (Cmp × List Char)         -- disjuncts comparing `req.path` with a string literal
  entries : List Entry                      -- disjuncts over `self._exempt_*`, expanded with the factory's templates
  recognised : Bool                         -- every disjunct, the guard and every factory template were recognised
  stateless : Bool                          -- the middleware stores nothing between requests (no write to `self` outside `__init__`)
deriving Repr, DecidableEq

def auth : AuthShape :=
  {{ optionsExempt := {str(options).lower()},
    literals := [{", ".join(literals)}],
    entries := [{", ".join(entries)}],
    recognised := {str(bool(recognised)).lower()},
    stateless := {str(bool(stateless)).lower()} }}

/-- `_MaxRequestBytesMiddleware.process_request` exemption loop (consumed by C17) -/
def size : List Entry := [{", ".join(size_entries)}]
def sizeRecognised : Bool := {str(bool(size_ok)).lower()}

/-- `_StickyMiddleware.process_request` exemption loop (consumed by C25) -/
def sticky : List Entry := [{", ".join(sticky_entries)}]
def stickyRecognised : Bool := {str(bool(sticky_ok)).lower()}

inductive TemplateKind where
  | prefixed            -- f"{{prefix}}<text>"
  | absolute            -- "<text>"
  | absoluteThenPrefix  -- f"<text>{{prefix}}"   (registered only when `prefix and prefix != "/"`)
  | prefixOrRoot        -- `prefix or "/"`
  | unknown
deriving Repr, DecidableEq

structure Route where
  kind : TemplateKind
  text : List Char
  resource : String
  cond : Cond
deriving Repr, DecidableEq

/-- every `app.add_route(...)` of `make_wsgi_app`, in source order -/
def routes : List Route := [
{nl.join(routes)}
]

/-- `make_wsgi_app` installs a catch-all sink (`app.add_sink`) -/
def hasSink : Bool := {str(bool(fs["sink"])).lower()}

/-- `rpc_methods` skips every attribute whose name starts with `_` -/
def underscoreSkipped : Bool := {str(_underscore_skipped()).lower()}

/-- `vgi_rpc.introspect.DESCRIBE_METHOD_NAME`, the only framework-registered method -/
def describeName : List Char := {lean_str(DESCRIBE_METHOD_NAME)}

end VgiVerif.Gen.Exempt
"""
    return {"Exempt.lean": body}
