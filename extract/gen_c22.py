"""C22: the proxy-proof verifier's regexes, constants, comparison shapes and step order (vgi_rpc/http/_proof.py).

Everything is read from the *source text* with ``ast`` (no import of the package), so the output follows the
working tree named by ``VERIF_REPO``.  Emits ``Gen/C22.lean``:

* the five regexes as ``Pat`` terms + the ``re`` entry point each one is used with in ``verify_proof``;
* ``_MAX_HEADER_BYTES``, ``_VERSION``, ``_DOMAIN_PREFIX``, ``_SECRET_LEN``, field count;
* the comparison operators of the length / field-count / window guards (``Cmp``);
* how ``proxy_proof_gate`` tests "header absent" (``if not raw`` vs ``if raw is None``) and that the comma guard exists;
* the literal detail string the require-mode re-raise uses (must be a literal: anything computed fails loudly);
* the ordered (guard, reason) list of ``verify_proof`` and of the gate (fingerprint: a change shows up as Gen drift).
"""

from __future__ import annotations

import ast
import os
from pathlib import Path

from .regex_to_lean import Unsupported, lean_str, pattern_to_lean

REPO = Path(os.environ.get("VERIF_REPO", "/repo"))
PROPS = ["C22"]
SRC = "vgi_rpc/http/_proof.py"

_CMP = {ast.Gt: "gt", ast.GtE: "ge", ast.Lt: "lt", ast.LtE: "le", ast.Eq: "eq", ast.NotEq: "ne"}


def _const_assigns(tree: ast.Module) -> dict[str, ast.expr]:
    out: dict[str, ast.expr] = {}
    for node in tree.body:
        if isinstance(node, ast.Assign) and len(node.targets) == 1 and isinstance(node.targets[0], ast.Name):
            out[node.targets[0].id] = node.value
    return out


def _regex_literal(v: ast.expr, name: str) -> tuple[str, int]:
    if not (
        isinstance(v, ast.Call)
        and isinstance(v.func, ast.Attribute)
        and v.func.attr == "compile"
        and isinstance(v.func.value, ast.Name)
        and v.func.value.id == "re"
        and len(v.args) == 1
        and not v.keywords
        and isinstance(v.args[0], ast.Constant)
        and isinstance(v.args[0].value, str)
    ):
        raise Unsupported(f"{name} is not re.compile(<literal>) without flags")
    return v.args[0].value, 32  # re.UNICODE (str pattern)


def _lit(v: ast.expr, name: str, typ: type):
    if not (isinstance(v, ast.Constant) and isinstance(v.value, typ)):
        raise Unsupported(f"{name} is not a {typ.__name__} literal")
    return v.value


def _func(tree: ast.AST, name: str) -> ast.FunctionDef:
    for n in ast.walk(tree):
        if isinstance(n, ast.FunctionDef) and n.name == name:
            return n
    raise Unsupported(f"function {name} not found")


def _raise_reason(stmt: ast.stmt) -> tuple[str, ast.Call] | None:
    """`raise ProofError("<reason>", …)` → (reason, call)"""
    if (
        isinstance(stmt, ast.Raise)
        and isinstance(stmt.exc, ast.Call)
        and isinstance(stmt.exc.func, ast.Name)
        and stmt.exc.func.id == "ProofError"
        and stmt.exc.args
    ):
        a0 = stmt.exc.args[0]
        if isinstance(a0, ast.Constant) and isinstance(a0.value, str):
            return a0.value, stmt.exc
        return ast.unparse(a0), stmt.exc
    return None


def _guards(body: list[ast.stmt]) -> list[tuple[ast.expr, str]]:
    """top-level `if <test>: raise ProofError(<reason>, …)` statements, in order"""
    out = []
    for st in body:
        if isinstance(st, ast.If) and len(st.body) == 1 and not st.orelse:
            r = _raise_reason(st.body[0])
            if r is not None:
                out.append((st.test, r[0]))
    return out


def _cmp_of(test: ast.expr, left_src: str, right_src: str, what: str) -> str:
    if not (isinstance(test, ast.Compare) and len(test.ops) == 1 and type(test.ops[0]) in _CMP):
        raise Unsupported(f"{what}: not a simple comparison: {ast.unparse(test)}")
    if ast.unparse(test.left) != left_src or ast.unparse(test.comparators[0]) != right_src:
        raise Unsupported(f"{what}: expected `{left_src} <op> {right_src}`, got `{ast.unparse(test)}`")
    return _CMP[type(test.ops[0])]


def _find_guard(guards: list[tuple[ast.expr, str]], pred) -> tuple[ast.expr, str]:
    hits = [(t, r) for t, r in guards if pred(ast.unparse(t))]
    if len(hits) != 1:
        raise Unsupported(f"expected exactly one guard matching, got {[ast.unparse(t) for t, _ in hits]}")
    return hits[0]


def _re_call(test: ast.expr, re_name: str, arg: str) -> str:
    """`not _X_RE.<kind>(<arg>)` → kind"""
    if (
        isinstance(test, ast.UnaryOp)
        and isinstance(test.op, ast.Not)
        and isinstance(test.operand, ast.Call)
        and isinstance(test.operand.func, ast.Attribute)
        and isinstance(test.operand.func.value, ast.Name)
        and test.operand.func.value.id == re_name
        and len(test.operand.args) == 1
        and ast.unparse(test.operand.args[0]) == arg
        and test.operand.func.attr in ("match", "fullmatch", "search")
    ):
        return test.operand.func.attr
    raise Unsupported(f"guard on {re_name} has an unrecognised shape: {ast.unparse(test)}")


def emit() -> dict[str, str]:
    text = (REPO / SRC).read_text()
    tree = ast.parse(text)
    consts = _const_assigns(tree)

    pats = {}
    for name in ("_KID_RE", "_TS_RE", "_NONCE_RE", "_ORIGIN_RE", "_MAC_RE"):
        if name not in consts:
            raise Unsupported(f"{name} missing")
        p, flags = _regex_literal(consts[name], name)
        pats[name] = (p, pattern_to_lean(p, flags))
    max_hdr = _lit(consts["_MAX_HEADER_BYTES"], "_MAX_HEADER_BYTES", int)
    version = _lit(consts["_VERSION"], "_VERSION", str)
    domain = _lit(consts["_DOMAIN_PREFIX"], "_DOMAIN_PREFIX", bytes)
    secret_len = _lit(consts["_SECRET_LEN"], "_SECRET_LEN", int)

    # ---- verify_proof ------------------------------------------------------------------------
    vp = _func(tree, "verify_proof")
    guards = _guards(vp.body)
    order = [(ast.unparse(t), r) for t, r in guards]
    g_len = _find_guard(guards, lambda s: s.startswith("len(token)"))
    len_cmp = _cmp_of(g_len[0], "len(token)", "_MAX_HEADER_BYTES", "length guard")
    g_cnt = _find_guard(guards, lambda s: s.startswith("len(parts)"))
    t = g_cnt[0]
    if not (isinstance(t, ast.Compare) and len(t.ops) == 1 and type(t.ops[0]) in _CMP and isinstance(t.comparators[0], ast.Constant)):
        raise Unsupported("field-count guard shape")
    cnt_cmp = _CMP[type(t.ops[0])]
    field_count = int(t.comparators[0].value)
    g_ver = _find_guard(guards, lambda s: s.startswith("version "))
    ver_cmp = _cmp_of(g_ver[0], "version", "_VERSION", "version guard")
    kinds = {
        "kid": _re_call(_find_guard(guards, lambda s: "_KID_RE" in s)[0], "_KID_RE", "kid"),
        "ts": _re_call(_find_guard(guards, lambda s: "_TS_RE" in s)[0], "_TS_RE", "ts_raw"),
        "nonce": _re_call(_find_guard(guards, lambda s: "_NONCE_RE" in s)[0], "_NONCE_RE", "nonce"),
        "mac": _re_call(_find_guard(guards, lambda s: "_MAC_RE" in s)[0], "_MAC_RE", "mac_b64"),
    }
    g_exp = _find_guard(guards, lambda s: s.startswith("age "))
    exp_cmp = _cmp_of(g_exp[0], "age", "skew_seconds", "expired guard")
    g_nyv = _find_guard(guards, lambda s: s.startswith("-age "))
    nyv_cmp = _cmp_of(g_nyv[0], "-age", "skew_seconds", "not-yet-valid guard")
    # the statements between the guards (fingerprint only: a change shows up as Gen drift and raises the K budget)
    stmts = [ast.unparse(st) for st in vp.body if isinstance(st, ast.Assign)]
    reasons_vp = [r for _, r in guards]

    # ---- NonceCache (_replay.py): the two comparisons of the replay step ------------------------------
    rtree = ast.parse((REPO / "vgi_rpc/http/_replay.py").read_text())
    sweep = _func(rtree, "_sweep")
    live = [n for n in ast.walk(sweep) if isinstance(n, ast.If) and any(isinstance(b, ast.Break) for b in n.body)]
    if len(live) != 1:
        raise Unsupported("_sweep: expected one `if <live>: break`")
    live_cmp = _cmp_of(live[0].test, "expires_at", "now", "_sweep live test")
    caa = _func(rtree, "check_and_add")
    whiles = [n for n in ast.walk(caa) if isinstance(n, ast.While)]
    if len(whiles) != 1:
        raise Unsupported("check_and_add: expected one eviction loop")
    evict_cmp = _cmp_of(whiles[0].test, "len(self._entries)", "self.capacity", "eviction loop test")
    caa_src = [ast.unparse(x) for x in ast.walk(caa) if isinstance(x, (ast.Assign, ast.Return, ast.If, ast.Expr))]
    if "self._entries[nonce] = now + self.ttl_seconds" not in caa_src:
        raise Unsupported("check_and_add: insertion statement changed")

    # ---- proxy_proof_gate --------------------------------------------------------------------
    ppg = _func(tree, "proxy_proof_gate")
    gate = _func(ppg, "gate")
    trys = [s for s in gate.body if isinstance(s, ast.Try)]
    if len(trys) != 1:
        raise Unsupported("gate(): expected exactly one try block")
    tr = trys[0]
    gguards = _guards(tr.body)
    if len(gguards) != 2:
        raise Unsupported(f"gate(): expected two guards before verify_proof, got {[ast.unparse(t) for t, _ in gguards]}")
    absent_src = ast.unparse(gguards[0][0])
    absent = {"not raw": "falsy", "raw is None": "isNone"}.get(absent_src)
    if absent is None:
        raise Unsupported(f"gate(): unrecognised absent-header test `{absent_src}`")
    comma_ok = ast.unparse(gguards[1][0]) == "',' in raw"
    if not comma_ok:
        raise Unsupported(f"gate(): second guard is not `',' in raw`: {ast.unparse(gguards[1][0])}")
    order_gate = [(ast.unparse(t), r) for t, r in gguards]
    # the require-mode re-raise inside `except ProofError as exc:`
    if len(tr.handlers) != 1 or ast.unparse(tr.handlers[0].type) != "ProofError":
        raise Unsupported("gate(): expected a single `except ProofError` handler")
    h = tr.handlers[0]
    req_detail = None
    for st in h.body:
        if isinstance(st, ast.If) and ast.unparse(st.test) == "required":
            for s2 in st.body:
                r = _raise_reason(s2)
                if r is not None:
                    reason_src, call = r
                    if reason_src != "exc.reason" or len(call.args) != 2:
                        raise Unsupported("gate(): require re-raise is not ProofError(exc.reason, <detail>)")
                    req_detail = _lit(call.args[1], "require-mode detail", str)
    if req_detail is None:
        raise Unsupported("gate(): require-mode re-raise not found")
    # ProofError.__init__: the caller-facing reason attribute is the constant AuthReason.PROXY_REQUIRED
    pe = [n for n in tree.body if isinstance(n, ast.ClassDef) and n.name == "ProofError"]
    if not pe:
        raise Unsupported("class ProofError missing")
    pe_src = ast.unparse(pe[0])
    if "setattr(self, REASON_ATTR, AuthReason.PROXY_REQUIRED)" not in pe_src or "super().__init__(detail or reason)" not in pe_src:
        raise Unsupported("ProofError.__init__ shape changed")
    is_perm = any(ast.unparse(b) == "PermissionError" for b in pe[0].bases)

    def cmp(c: str) -> str:
        return f"Cmp.{c}"

    def lstr(a: str) -> str:
        return '"' + a.replace(chr(92), chr(92) * 2).replace(chr(34), chr(92) + chr(34)) + '"'

    def strlist(xs: list[tuple[str, str]]) -> str:
        return "[" + ", ".join(f'({lstr(a)}, "{b}")' for a, b in xs) + "]"

    if len(set(kinds.values())) != 1:
        raise Unsupported(f"regex entry points differ: {kinds}")
    body = f"""import VgiVerif.Prelude.Regex
import VgiVerif.Prelude.ProxyProofTypes
namespace VgiVerif.Gen.C22
open VgiVerif.Regex VgiVerif.PP

-- `_KID_RE` = {pats['_KID_RE'][0]!r}
def kidRe : Pat :=
  {pats['_KID_RE'][1]}
-- `_TS_RE` = {pats['_TS_RE'][0]!r}
def tsRe : Pat :=
  {pats['_TS_RE'][1]}
-- `_NONCE_RE` = {pats['_NONCE_RE'][0]!r}
def nonceRe : Pat :=
  {pats['_NONCE_RE'][1]}
-- `_ORIGIN_RE` = {pats['_ORIGIN_RE'][0]!r}
def originRe : Pat :=
  {pats['_ORIGIN_RE'][1]}
-- `_MAC_RE` = {pats['_MAC_RE'][0]!r}
def macRe : Pat :=
  {pats['_MAC_RE'][1]}

/-- entry point the four field guards of `verify_proof` use: "match" | "fullmatch" | "search" -/
def reCall : String := "{kinds['kid']}"

def maxHeaderBytes : Nat := {max_hdr}
/-- `len(token) <lenCmp> _MAX_HEADER_BYTES` -/
def lenCmp : Cmp := {cmp(len_cmp)}
/-- `len(parts) <fieldCountCmp> <fieldCount>` -/
def fieldCount : Nat := {field_count}
def fieldCountCmp : Cmp := {cmp(cnt_cmp)}
/-- `_VERSION` and `version <versionCmp> _VERSION` -/
def version : List Char := {lean_str(version)}
def versionCmp : Cmp := {cmp(ver_cmp)}
/-- `age <expiredCmp> skew_seconds` / `-age <notYetCmp> skew_seconds` -/
def expiredCmp : Cmp := {cmp(exp_cmp)}
def notYetCmp : Cmp := {cmp(nyv_cmp)}
/-- `_DOMAIN_PREFIX` = {domain!r} -/
def domainPrefix : List UInt8 := {list(domain)}
def secretLen : Nat := {secret_len}

/-- `_sweep`: `if expires_at <liveCmp> now: break` ; `check_and_add`: `while len(entries) <evictCmp> capacity: popitem(last=False)` -/
def liveCmp : Cmp := {cmp(live_cmp)}
def evictCmp : Cmp := {cmp(evict_cmp)}

/-- how `proxy_proof_gate` decides "header absent": `{absent_src}` -/
def absentTest : AbsentTest := AbsentTest.{absent}
/-- the `"," in raw` guard precedes `verify_proof` -/
def commaGuard : Bool := {str(comma_ok).lower()}
/-- literal detail of the require-mode re-raise `ProofError(exc.reason, <literal>)` -/
def requireDetail : List Char := {lean_str(req_detail)}
/-- `class ProofError(PermissionError)` -/
def proofErrorIsPermissionError : Bool := {str(is_perm).lower()}

/-- ordered `(guard, reason)` of `gate()` then `verify_proof` (fingerprint of the branch order) -/
def gateOrder : List (String × String) := {strlist(order_gate)}
def verifyOrder : List (String × String) := {strlist(order)}
/-- the assignments of `verify_proof` between the guards (fingerprint) -/
def verifyStmts : List String := [{", ".join(lstr(x) for x in stmts)}]
/-- reason literals raised by `verify_proof`, in source order -/
def verifyReasons : List String := [{", ".join(f'"{r}"' for r in reasons_vp)}]

end VgiVerif.Gen.C22
"""
    return {"C22.lean": body}
