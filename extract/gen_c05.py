"""C05: which exception classes each `try` of the request path catches, in source order, and the class hierarchy.

  * the Python exception classes the request path can meet, with `issubclass` taken from the running interpreter
    (pa.ArrowInvalid IS a ValueError, UnicodeDecodeError IS a ValueError, FileNotFoundError IS an OSError, ...);
  * `RpcServer.serve`: the handler tuples of the loop (all `break`);
  * `RpcServer.serve_one`: the handlers around `_read_request` (reply + re-raise / reply + return), around the version
    gate, around parameter validation; `_serve_unary`: around the method call;
  * `_read_request`: the guards around the first read, the trace-context decode, the method-name decode, the shm pointer
    resolution and the kwargs extraction; `_drain_stream`: what it steps over;
  * `_maybe_attach_shm`: the guard around the metadata decode and around `ShmSegment.attach`.
An absent guard is emitted as the empty class list, so the model (Model/C05.lean) lets the exception propagate.
"""

from __future__ import annotations

import ast
import os
from pathlib import Path

from .gen_c04 import _calls, _func, _handler, _handler_names, _has, _innermost, _trys

REPO = Path(os.environ.get("VERIF_REPO", "/repo"))
PROPS = ["C05"]

# name in the source -> Lean constructor
CLASSES = [
    "StopIteration", "EOFError", "OSError", "FileNotFoundError", "PermissionError", "BrokenPipeError", "ConnectionResetError",
    "ConnectionAbortedError", "ValueError", "UnicodeDecodeError", "ArrowInvalid", "IPCError", "RpcError", "VersionError",
    "ProtocolVersionError", "AssertionError", "OverflowError", "TypeError", "KeyError", "StructError", "RuntimeError",
    "Exception", "KeyboardInterrupt", "BaseException",
]


def _cls_objects() -> dict[str, type]:
    import struct

    import pyarrow as pa

    from vgi_rpc.rpc import _common as c
    from vgi_rpc.utils import IPCError

    d: dict[str, type] = {n: getattr(__builtins__, n) if not isinstance(__builtins__, dict) else __builtins__[n]
                          for n in CLASSES if n not in ("ArrowInvalid", "IPCError", "RpcError", "VersionError", "ProtocolVersionError", "StructError")}
    d["ArrowInvalid"] = pa.ArrowInvalid
    d["IPCError"] = IPCError
    d["RpcError"] = c.RpcError
    d["VersionError"] = c.VersionError
    d["ProtocolVersionError"] = c.ProtocolVersionError
    d["StructError"] = struct.error
    return d


def lean_name(n: str) -> str:
    n = n.replace("pa.", "").replace("struct.error", "StructError")
    return {"Exception": "Exception_"}.get(n, n)


def _names(h: ast.ExceptHandler) -> list[str]:
    return [lean_name(x) for x in _handler_names(h)]


def _lst(xs: list[str]) -> str:
    return "[" + ", ".join("." + x for x in xs) + "]"


def _guard_around(fn: ast.AST, call: str, innermost: bool = True) -> list[ast.ExceptHandler]:
    ts = [t for t in _trys(fn) if call in _calls(t.body)]
    if innermost:
        ts = _innermost(ts)
    return ts[0].handlers if len(ts) == 1 else []


def _suppress_around(fn: ast.AST, needle: str) -> list[str]:
    """Classes of the innermost `with contextlib.suppress(...)` whose body contains `needle` (unparsed text)."""
    best: tuple[int, list[str]] | None = None
    for n in ast.walk(fn):
        if isinstance(n, ast.With) and any(needle in ast.unparse(s) for s in n.body):
            for it in n.items:
                ce = it.context_expr
                if isinstance(ce, ast.Call) and ast.unparse(ce.func) == "contextlib.suppress":
                    size = sum(1 for _ in ast.walk(n))
                    cls = [lean_name(ast.unparse(a)) for a in ce.args]
                    if best is None or size < best[0]:
                        best = (size, cls)
    return best[1] if best else []


def emit() -> dict[str, str]:
    objs = _cls_objects()
    known = set(CLASSES)
    srv = ast.parse((REPO / "vgi_rpc/rpc/_server.py").read_text())
    wire = ast.parse((REPO / "vgi_rpc/rpc/_wire.py").read_text())

    # serve loop
    serve = _func(srv, "serve")
    loop_try = _innermost([t for t in _trys(serve) if "self.serve_one" in _calls(t.body)])
    serve_handlers = []
    if len(loop_try) == 1:
        for h in loop_try[0].handlers:
            if isinstance(h.body[-1], ast.Break):
                serve_handlers.append(_names(h))
    # serve_one: _read_request
    s1 = _func(srv, "serve_one")
    rr = []
    for h in _guard_around(s1, "_read_request"):
        replies = "_write_error_stream" in _calls(h.body)
        reraises = isinstance(h.body[-1], ast.Raise)
        returns = isinstance(h.body[-1], ast.Return)
        if replies and (reraises or returns):
            rr.append((_names(h), reraises))
    vg = [t for t in _trys(s1) if "self._check_protocol_version" in _calls(t.body)]
    vg = _innermost(vg)
    version_gate = [c for h in (vg[0].handlers if vg else []) if "_write_error_stream" in _calls(h.body) and isinstance(h.body[-1], ast.Return)
                    for c in _names(h)]
    val = _innermost([t for t in _trys(s1) if "_deserialize_params" in _calls(t.body)])
    validation = [c for h in (val[0].handlers if val else []) if "_write_error_stream" in _calls(h.body) and isinstance(h.body[-1], ast.Return)
                  for c in _names(h)]
    # refusals of a stream call: is the error stream written BEFORE `_drain_refused_stream_input` waits for the client's input
    # stream?  (the peer of a refused call sends that stream only after it has read the reply)
    def reply_first(body: list[ast.stmt]) -> bool:
        c = _calls(body)
        if "_write_error_stream" not in c:
            return False
        return "self._drain_refused_stream_input" not in c or c.index("_write_error_stream") < c.index("self._drain_refused_stream_input")

    vh = [h for h in (vg[0].handlers if vg else []) if "ProtocolVersionError" in _names(h)]
    version_first = len(vh) == 1 and reply_first(vh[0].body)
    valh = [h for h in (val[0].handlers if val else []) if "Exception_" in _names(h)]
    validation_first = len(valh) == 1 and reply_first(valh[0].body)
    sst = _func(srv, "_serve_stream")
    it_ = [t for t in _trys(sst) if any(isinstance(x, (ast.Assign, ast.AnnAssign)) and "getattr(self._impl, info.name)" in ast.unparse(x) for x in t.body)]
    ih = _handler(it_[0], "Exception") if len(it_) == 1 else None
    init_first = ih is not None and reply_first(ih.body)
    su = _func(srv, "_serve_unary")
    mc = _innermost([t for t in _trys(su) if any("getattr(self._impl, info.name)" in ast.unparse(s) for s in t.body)])
    method_call = [c for h in (mc[0].handlers if mc else []) if "_write_error_batch" in _calls(h.body) for c in _names(h)]
    # _maybe_attach_shm
    ma = _func(srv, "_maybe_attach_shm")
    md_dec = [c for h in _guard_around(ma, "shm_name_bytes.decode") if isinstance(h.body[-1], ast.Return) for c in _names(h)]
    att = [c for h in _guard_around(ma, "ShmSegment.attach") if isinstance(h.body[-1], ast.Return) for c in _names(h)]
    # shm.py `ShmSegment.attach`: classes of `ShmAllocator(buf, size)` (explicit ValueErrors, struct.error from the header
    # unpack of a too-small mapping) that are re-raised as ValueError after the mapping is closed
    shm_tree = ast.parse((REPO / "vgi_rpc/shm.py").read_text())
    at = _func(shm_tree, "attach")
    att_conv = [c for h in _guard_around(at, "ShmAllocator") if isinstance(h.body[-1], ast.Raise)
                and isinstance(h.body[-1].exc, ast.Call) and ast.unparse(h.body[-1].exc.func) == "ValueError" for c in _names(h)]
    # ... and what `ShmAllocator.__init__` can raise: the struct unpack, then explicit raises
    ai = next(n for n in ast.walk(_func(shm_tree, "ShmAllocator") if False else shm_tree)
              if isinstance(n, ast.ClassDef) and n.name == "ShmAllocator")
    init = next(n for n in ai.body if isinstance(n, ast.FunctionDef) and n.name == "__init__")
    alloc_raises = sorted({lean_name(ast.unparse(n.exc.func)) for n in ast.walk(init) if isinstance(n, ast.Raise) and isinstance(n.exc, ast.Call)}
                          | ({"StructError"} if any("unpack_from" in c for c in _calls(init)) else set()))
    # shm.py `resolve_shm_batch`: classes raised by reading the pointed-to region (`_deserialize_from_shm`) that are re-raised
    # as ValueError (so that every caller's "bad pointer" handling sees one class)
    rsb = _func(shm_tree, "resolve_shm_batch")
    res_conv = [c for h in _guard_around(rsb, "_deserialize_from_shm") if isinstance(h.body[-1], ast.Raise)
                and isinstance(h.body[-1].exc, ast.Call) and ast.unparse(h.body[-1].exc.func) == "ValueError" for c in _names(h)]
    # _read_request
    r = _func(wire, "_read_request")
    first = [c for h in _guard_around(r, "reader.read_next_batch_with_custom_metadata") if isinstance(h.body[-1], ast.Raise)
             and "RpcError" in _calls(h.body) for c in _names(h)]
    # what the IPCError handler of the first read does with the rest of the stream: `_drain_stream(reader)`, or an inline
    # `while True: try: reader.read_next_batch() except <skip>: continue except <end>: break` loop
    first_drains = False
    first_skips: list[str] = []
    first_ends: list[str] = []
    ipc_h = [h for h in _guard_around(r, "reader.read_next_batch_with_custom_metadata") if "IPCError" in _names(h)]
    if len(ipc_h) == 1 and "IPCError" in first:
        h = ipc_h[0]
        loops = [n for n in h.body if isinstance(n, ast.While) and ast.unparse(n.test) == "True"]
        if "_drain_stream" in _calls(h.body):
            first_drains, first_skips, first_ends = True, ["<drain_stream>"], ["<drain_stream>"]
        elif len(loops) == 1:
            lt = [t for t in loops[0].body if isinstance(t, ast.Try) and "reader.read_next_batch" in _calls(t.body)]
            if len(lt) == 1 and len(loops[0].body) == 1:
                first_skips = [c for hh in lt[0].handlers if isinstance(hh.body[-1], ast.Continue) for c in _names(hh)]
                first_ends = [c for hh in lt[0].handlers if isinstance(hh.body[-1], (ast.Break, ast.Return)) for c in _names(hh)]
                first_drains = "StopIteration" in first_ends
    trace = _suppress_around(r, "tp.decode()")
    meth = [c for h in _guard_around(r, "method_name_bytes.decode") if "RpcError" in _calls(h.body) and isinstance(h.body[-1], ast.Raise)
            for c in _names(h)]
    ptr = [c for h in _guard_around(r, "resolve_shm_batch") if "RpcError" in _calls(h.body) and isinstance(h.body[-1], ast.Raise)
           for c in _names(h)]
    rel = _suppress_around(r, "release_shm()")
    aspy_try = _innermost([t for t in _trys(r) if any("as_py()" in ast.unparse(s) for s in t.body) and t.handlers])
    aspy = [c for h in (aspy_try[0].handlers if aspy_try else []) if "RpcError" in _calls(h.body) and isinstance(h.body[-1], ast.Raise)
            for c in _names(h)]
    ds = _func(wire, "_drain_stream")
    dt = [t for t in _trys(ds) if "reader.read_next_batch" in _calls(t.body)]
    drain_skips = [c for h in (dt[0].handlers if dt else []) if isinstance(h.body[-1], ast.Continue) for c in _names(h)]
    drain_ends = [c for h in (dt[0].handlers if dt else []) if isinstance(h.body[-1], ast.Return) for c in _names(h)]
    # `_drain_stream(reader, shm=…)`: classes suppressed around `shm.free(int(offset))` of a skipped pointer batch
    drain_free = _suppress_around(ds, "shm.free(")
    if first_skips == ["<drain_stream>"]:
        first_skips, first_ends = list(drain_skips), list(drain_ends)
    # shm.py: resolve_shm_batch no longer asserts on the peer-controlled length key
    shm = ast.parse((REPO / "vgi_rpc/shm.py").read_text())
    rs = _func(shm, "resolve_shm_batch")
    asserts_len = any(isinstance(n, ast.Assert) and "length_bytes" in ast.unparse(n.test) for n in ast.walk(rs))

    every = [x for xs in ([c for hs in serve_handlers for c in hs], [c for hs, _ in rr for c in hs], version_gate, validation, method_call,
                          md_dec, att, att_conv, alloc_raises, res_conv, first, trace, meth, ptr, rel, aspy, drain_skips, drain_ends, first_skips, first_ends, drain_free) for x in xs]
    unknown = sorted(set(every) - {lean_name(k) for k in known})
    if unknown:
        raise RuntimeError(f"handler names outside the modelled class list: {unknown}")
    sup = []
    for n in CLASSES:
        ss = [lean_name(m) for m in CLASSES if issubclass(objs[n], objs[m])]
        sup.append(f"  | .{lean_name(n)} => {_lst(ss)}")
    ctor = " | ".join(lean_name(n) for n in CLASSES)
    body = f"""namespace VgiVerif.Gen.C05

/-- the exception classes the request path can meet -/
inductive Exc where
  | {ctor}
deriving Repr, DecidableEq

/-- `issubclass(e, c)` for the classes above, taken from the running interpreter (reflexive) -/
def supers : Exc → List Exc
{chr(10).join(sup)}

def all : List Exc := {_lst([lean_name(n) for n in CLASSES])}

def name : Exc → String
{chr(10).join(f'  | .{lean_name(n)} => "{n}"' for n in CLASSES)}

/-- `RpcServer.serve`: handler tuples of the loop around `serve_one`, in order; every one of them `break`s -/
def serveLoop : List (List Exc) := [{", ".join(_lst(h) for h in serve_handlers)}]

/-- `serve_one`: handlers around `_read_request`, in order: (classes, re-raises after writing the error stream) -/
def readRequestTry : List (List Exc × Bool) := [{", ".join(f"({_lst(h)}, {str(rr_).lower()})" for h, rr_ in rr)}]

def versionGate : List Exc := {_lst(version_gate)}
def validation : List Exc := {_lst(validation)}
def methodCall : List Exc := {_lst(method_call)}

/-- refusals of a stream call (version gate / parameter validation / failed init): the error stream is written before the
server waits, in `_drain_refused_stream_input`, for the input stream of a header-less stream's client -/
def versionReplyFirst : Bool := {str(bool(version_first)).lower()}
def validationReplyFirst : Bool := {str(bool(validation_first)).lower()}
def initReplyFirst : Bool := {str(bool(init_first)).lower()}

/-- `_maybe_attach_shm`: classes answered with `return None` around the name/size decode and around `ShmSegment.attach` -/
def attachMdDecode : List Exc := {_lst(md_dec)}
def attachGuard : List Exc := {_lst(att)}
/-- `ShmSegment.attach`: classes raised by `ShmAllocator(buf, size)` that are turned into ValueError (mapping closed first);
`allocInitRaises`: what `ShmAllocator.__init__` can raise (explicit `raise`s + the header `unpack_from`) -/
def attachConvert : List Exc := {_lst(att_conv)}
def allocInitRaises : List Exc := {_lst(alloc_raises)}
/-- `resolve_shm_batch`: classes raised while the pointed-to region is read as an IPC stream that are turned into ValueError -/
def resolveConvert : List Exc := {_lst(res_conv)}

/-- `_read_request`: classes turned into an RpcError reply around the first read / method-name decode / shm pointer
resolution / kwargs extraction; classes suppressed around the trace-context decode -/
def firstRead : List Exc := {_lst(first)}
/-- the first read's IPCError handler reads the rest of the stream to its EOS before refusing (by `_drain_stream` or an
inline loop); the classes that loop steps over / that end it -/
def firstReadDrainsOnIpcError : Bool := {str(bool(first_drains)).lower()}
def firstReadDrainSkips : List Exc := {_lst(first_skips)}
def firstReadDrainEnds : List Exc := {_lst(first_ends)}
def traceDecode : List Exc := {_lst(trace)}
def methodDecode : List Exc := {_lst(meth)}
def pointerGuard : List Exc := {_lst(ptr)}
def asPyGuard : List Exc := {_lst(aspy)}
/-- classes suppressed around `release_shm()` in `_read_request`'s `finally` -/
def releaseGuard : List Exc := {_lst(rel)}

/-- `_drain_stream`: classes it steps over / classes that end it -/
def drainSkips : List Exc := {_lst(drain_skips)}
def drainEnds : List Exc := {_lst(drain_ends)}
/-- `_drain_stream(reader, shm=…)`: classes suppressed around `shm.free(int(offset))` for a skipped pointer batch
(`int()` of a non-numeric value and `free()` of an offset the allocator does not know both raise ValueError) -/
def drainFreeGuard : List Exc := {_lst(drain_free)}

/-- `resolve_shm_batch` still `assert`s on the peer-controlled `vgi_rpc.shm_length` key -/
def pointerAssertsLength : Bool := {str(bool(asserts_len)).lower()}

end VgiVerif.Gen.C05
"""
    return {"C05.lean": body}
