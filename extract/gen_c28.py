"""C28: layout constants of the shared-memory header, the comparisons of the first-fit allocator, and the
shape of the sink / size estimate used by ``ShmSegment.allocate_and_write`` (all from ``vgi_rpc/shm.py``).

Everything is read from the *source text* with ``ast`` (plus ``struct.calcsize`` for the format strings); nothing is
imported from the code under test, so an edit that breaks the module still extracts.  Unrecognised shapes are emitted
as ``recognised := false`` / ``Cmp.unknown`` (the proofs then no longer check) instead of being guessed.
"""

from __future__ import annotations

import ast
import hashlib
import os
import struct
from pathlib import Path

REPO = Path(os.environ.get("VERIF_REPO", "/repo"))
PROPS = ["C28"]

_CMP = {ast.Lt: "lt", ast.LtE: "le", ast.Gt: "gt", ast.GtE: "ge", ast.Eq: "eq", ast.NotEq: "ne"}
_WIDTH = {"s": 1, "B": 1, "b": 1, "H": 2, "h": 2, "I": 4, "i": 4, "L": 4, "l": 4, "Q": 8, "q": 8}


def _fmt_fields(fmt: str) -> tuple[bool, list[int]]:
    """``"<4sIQII"`` -> (little_endian, [4, 4, 8, 4, 4])."""
    little = fmt.startswith("<")
    body = fmt[1:] if fmt[:1] in "<>=!@" else fmt
    out: list[int] = []
    num = ""
    for ch in body:
        if ch.isdigit():
            num += ch
            continue
        if ch == "x":
            raise ValueError("pad bytes not supported")
        w = _WIDTH[ch]
        if ch == "s":
            out.append(int(num or "1"))
        else:
            out.extend([w] * int(num or "1"))
        num = ""
    assert sum(out) == struct.calcsize(fmt if fmt[:1] in "<>=!" else "<" + fmt), fmt
    return little, out


class _Consts:
    """Module-level integer constants, evaluated symbolically (ints, names, + - * //, ``X.size`` of a Struct)."""

    def __init__(self, tree: ast.Module) -> None:
        self.assign: dict[str, ast.expr] = {}
        for node in tree.body:
            if isinstance(node, ast.Assign) and len(node.targets) == 1 and isinstance(node.targets[0], ast.Name):
                self.assign[node.targets[0].id] = node.value

    def fmt_of(self, name: str) -> str:
        """Format string behind a ``struct.Struct(FMT)`` name or a plain string constant name."""
        v = self.assign[name]
        if isinstance(v, ast.Constant) and isinstance(v.value, str):
            return v.value
        if isinstance(v, ast.Call) and ast.unparse(v.func) == "struct.Struct" and len(v.args) == 1:
            a = v.args[0]
            if isinstance(a, ast.Constant) and isinstance(a.value, str):
                return a.value
            if isinstance(a, ast.Name):
                return self.fmt_of(a.id)
        raise ValueError(f"cannot resolve format of {name}")

    def ev(self, e: ast.expr) -> int:
        if isinstance(e, ast.Constant) and isinstance(e.value, int) and not isinstance(e.value, bool):
            return e.value
        if isinstance(e, ast.Name):
            return self.ev(self.assign[e.id])
        if isinstance(e, ast.Attribute) and e.attr == "size" and isinstance(e.value, ast.Name):
            return struct.calcsize(self.fmt_of(e.value.id))
        if isinstance(e, ast.BinOp):
            a, b = self.ev(e.left), self.ev(e.right)
            if isinstance(e.op, ast.Add):
                return a + b
            if isinstance(e.op, ast.Sub):
                return a - b
            if isinstance(e.op, ast.Mult):
                return a * b
            if isinstance(e.op, ast.FloorDiv):
                return a // b
        raise ValueError(f"cannot evaluate {ast.unparse(e)}")

    def bytes_len(self, name: str) -> int:
        v = self.assign[name]
        if isinstance(v, ast.Constant) and isinstance(v.value, bytes):
            return len(v.value)
        raise ValueError(name)


def _func(tree: ast.AST, cls: str, name: str) -> ast.FunctionDef:
    for node in ast.walk(tree):
        if isinstance(node, ast.ClassDef) and node.name == cls:
            for f in node.body:
                if isinstance(f, ast.FunctionDef) and f.name == name:
                    return f
    raise ValueError(f"{cls}.{name} not found")


def _fingerprint(f: ast.FunctionDef) -> str:
    body = [s for s in f.body if not (isinstance(s, ast.Expr) and isinstance(s.value, ast.Constant) and isinstance(s.value.value, str))]
    return hashlib.sha256("\n".join(ast.dump(s) for s in body).encode()).hexdigest()[:16]


def _cmp(test: ast.expr, left: str, right: str) -> str:
    """Operator of ``<left> OP <right>`` (by unparsed text), else "unknown"."""
    if isinstance(test, ast.Compare) and len(test.ops) == 1:
        if ast.unparse(test.left) == left and ast.unparse(test.comparators[0]) == right:
            return _CMP.get(type(test.ops[0]), "unknown")
    return "unknown"


def _count_sites(cls: ast.ClassDef) -> list[tuple[str, str, int]]:
    """Every ``struct.(un)pack_(from|into)("<fmt>", self._buf, <off> ...)`` with a literal format in ShmAllocator."""
    sites = []
    for f in cls.body:
        if not isinstance(f, ast.FunctionDef):
            continue
        for n in ast.walk(f):
            if isinstance(n, ast.Call) and ast.unparse(n.func) in ("struct.unpack_from", "struct.pack_into"):
                a = n.args
                if len(a) >= 3 and isinstance(a[0], ast.Constant) and isinstance(a[0].value, str) and isinstance(a[2], ast.Constant):
                    sites.append((f.name, a[0].value, int(a[2].value)))
    return sites


def _allocate_shape(f: ast.FunctionDef) -> dict[str, str | bool]:
    out: dict[str, str | bool] = {"sizeGuard": "unknown", "full": "unknown", "gapInner": "unknown", "gapTail": "unknown",
                                  "body": False}
    ifs = [s for s in f.body if isinstance(s, ast.If)]
    loops = [s for s in f.body if isinstance(s, ast.For)]
    if len(ifs) == 3 and len(loops) == 1:
        g, full, tail = ifs
        if len(g.body) == 1 and isinstance(g.body[0], ast.Raise):
            out["sizeGuard"] = _cmp(g.test, "size", "0")
        if len(full.body) == 1 and ast.unparse(full.body[0]) == "return None":
            out["full"] = _cmp(full.test, "len(allocs)", "MAX_ALLOCS")
        loop = loops[0]
        inner = [s for s in loop.body if isinstance(s, ast.If)]
        if len(inner) == 1:
            out["gapInner"] = _cmp(inner[0].test, "gap", "size")
        out["gapTail"] = _cmp(tail.test, "gap", "size")
        text = ast.unparse(f)
        want = [
            "allocs = self._read_allocs()",
            "data_end = self._total_size",
            "prev_end = HEADER_SIZE",
            "for i, (off, length) in enumerate(allocs):",
            "gap = off - prev_end",
            "allocs.insert(i, (prev_end, size))",
            "prev_end = off + length",
            "gap = data_end - prev_end",
            "allocs.append((prev_end, size))",
            "self._write_allocs(allocs)",
            "return prev_end",
        ]
        out["body"] = all(w in text for w in want) and text.count("self._write_allocs(allocs)") == 2
    return out


def _free_shape(f: ast.FunctionDef) -> dict[str, str | bool]:
    out: dict[str, str | bool] = {"cmp": "unknown", "body": False}
    loops = [s for s in f.body if isinstance(s, ast.For)]
    if len(loops) == 1:
        inner = [s for s in loops[0].body if isinstance(s, ast.If)]
        if len(inner) == 1:
            out["cmp"] = _cmp(inner[0].test, "off", "offset")
            body = [ast.unparse(s) for s in inner[0].body]
            out["body"] = body == ["allocs.pop(i)", "self._write_allocs(allocs)", "return"] and isinstance(f.body[-1], ast.Raise)
    return out


def _sink_shape(init: ast.FunctionDef, write: ast.FunctionDef) -> dict[str, str | bool]:
    """`_ShmSink.write`: is there a guard `if n > self._end - self._pos: [self._end = self._pos]; raise …` before the copy?"""
    out: dict[str, str | bool] = {"bounded": False, "cmp": "unknown", "sticky": False, "recognised": False, "endIsStartPlusLimit": False}
    stmts = [ast.unparse(s) for s in write.body]
    copy = "self._buf[self._pos:self._pos + n] = mv"
    if copy not in stmts or "self._pos += n" not in stmts:
        return out
    ci = stmts.index(copy)
    guards = [s for s in write.body[:ci] if isinstance(s, ast.If) and any(isinstance(x, ast.Raise) for x in s.body)]
    n_after = [s for s in write.body[ci:] if isinstance(s, ast.If)]
    if not guards and not n_after:
        out["recognised"] = True  # the unbounded (pinned) shape
        return out
    if len(guards) == 1 and not n_after and not guards[0].orelse:
        g = guards[0]
        op = _cmp(g.test, "n", "self._end - self._pos")
        body = [ast.unparse(s) for s in g.body if not isinstance(s, ast.Raise)]
        if op != "unknown" and body in ([], ["self._end = self._pos"]) and isinstance(g.body[-1], ast.Raise):
            out.update(bounded=True, cmp=op, sticky=body == ["self._end = self._pos"], recognised=True)
    init_txt = [ast.unparse(s) for s in init.body]
    out["endIsStartPlusLimit"] = "self._end = start + limit" in init_txt and "self._pos = start" in init_txt and "self._start = start" in init_txt
    return out


def _aw_shape(f: ast.FunctionDef) -> dict[str, bool]:
    """`ShmSegment.allocate_and_write`: estimate, sink limit, overflow handler, dictionary path."""
    text = ast.unparse(f)
    out = {
        "estimate": "estimated = ipc.get_record_batch_size(batch) + _STREAM_OVERHEAD" in text,
        "allocEst": "offset = self._allocator.allocate(estimated)" in text,
        "sinkLimit": "sink = _ShmSink(shm_buf, offset, estimated)" in text,
        "sinkNoLimit": "sink = _ShmSink(shm_buf, offset)" in text,
        "overflowFrees": False,
        "dictExact": all(w in text for w in ("size = serialized.size", "offset = self._allocator.allocate(size)",
                                             "shm_buf[offset:offset + size] = memoryview(serialized).cast('B')")),
        "returnsWritten": "return (offset, sink.bytes_written)" in text,
    }
    for n in ast.walk(f):
        if isinstance(n, ast.Try) and len(n.handlers) == 1 and not n.orelse and not n.finalbody:
            h = n.handlers[0]
            body = [ast.unparse(s) for s in h.body]
            tried = [ast.unparse(s) for s in n.body]
            if (h.type is not None and ast.unparse(h.type) == "_ShmSinkOverflowError" and body == ["self._allocator.free(offset)", "return None"]
                    and tried == ["writer = new_ipc_stream(sink, batch.schema)", "writer.write_batch(batch)", "writer.close()"]):
                out["overflowFrees"] = True
    return out


_SYM = {"lt": "<", "le": "<=", "gt": ">", "ge": ">=", "eq": "==", "ne": "!=", "unknown": "?"}


class _MaskRaise(ast.NodeTransformer):
    """`raise X(...)` -> `raise EXC` (the message text is not behaviour the model depends on)."""

    def visit_Raise(self, node: ast.Raise) -> ast.Raise:
        return ast.Raise(exc=ast.Name("EXC"), cause=None)


def _stmts(f: ast.FunctionDef) -> list[str]:
    """The body as a list of unparsed statements: docstring dropped, raise arguments masked."""
    import copy

    body = [s for s in f.body if not (isinstance(s, ast.Expr) and isinstance(s.value, ast.Constant) and isinstance(s.value.value, str))]
    return [ast.unparse(ast.fix_missing_locations(_MaskRaise().visit(copy.deepcopy(s)))) for s in body]


def _write_allocs_shape(f: ast.FunctionDef) -> tuple[bool, int]:
    """`_write_allocs` must be exactly: count, base, the entry loop — optionally followed by k statements that zero the
    slots right behind the list (`_ALLOC_STRUCT.pack_into(self._buf, base + (len(allocs) [+ j]) * _ALLOC_STRUCT.size, 0, 0)`,
    j = 0..k-1 in order).  Returns (recognised, k)."""
    st = [x.replace('"', "'") for x in _stmts(f)]
    want = [
        "struct.pack_into('<I', self._buf, 16, len(allocs))",
        "base = _HEADER_STRUCT.size",
        "for i, (offset, length) in enumerate(allocs):\n    _ALLOC_STRUCT.pack_into(self._buf, base + i * _ALLOC_STRUCT.size, offset, length)",
    ]
    if st[: len(want)] != want:
        return False, 0
    k = 0
    for extra in st[len(want):]:
        slot = "len(allocs)" if k == 0 else f"(len(allocs) + {k})"
        if extra != f"_ALLOC_STRUCT.pack_into(self._buf, base + {slot} * _ALLOC_STRUCT.size, 0, 0)":
            return False, 0
        k += 1
    return True, k


def _read_allocs_exact(f: ast.FunctionDef) -> bool:
    return [x.replace('"', "'") for x in _stmts(f)] == [
        "num = struct.unpack_from('<I', self._buf, 16)[0]",
        "allocs: list[tuple[int, int]] = []",
        "base = _HEADER_STRUCT.size",
        "for i in range(num):\n    offset, length = _ALLOC_STRUCT.unpack_from(self._buf, base + i * _ALLOC_STRUCT.size)\n    allocs.append((offset, length))",
        "return allocs",
    ]


def _allocate_exact(f: ast.FunctionDef, al: dict) -> bool:
    g, full, gi, gt = (_SYM[str(al[k])] for k in ("sizeGuard", "full", "gapInner", "gapTail"))
    return _stmts(f) == [
        f"if size {g} 0:\n    raise EXC",
        "allocs = self._read_allocs()",
        f"if len(allocs) {full} MAX_ALLOCS:\n    return None",
        "data_end = self._total_size",
        "prev_end = HEADER_SIZE",
        f"for i, (off, length) in enumerate(allocs):\n    gap = off - prev_end\n    if gap {gi} size:\n        allocs.insert(i, (prev_end, size))\n"
        "        self._write_allocs(allocs)\n        self._warn_if_near_limit(len(allocs))\n        return prev_end\n    prev_end = off + length",
        "gap = data_end - prev_end",
        f"if gap {gt} size:\n    allocs.append((prev_end, size))\n    self._write_allocs(allocs)\n    self._warn_if_near_limit(len(allocs))\n    return prev_end",
        "return None",
    ]


def _free_exact(f: ast.FunctionDef, fr: dict) -> bool:
    return _stmts(f) == [
        "allocs = self._read_allocs()",
        f"for i, (off, _) in enumerate(allocs):\n    if off {_SYM[str(fr['cmp'])]} offset:\n        allocs.pop(i)\n        self._write_allocs(allocs)\n        return",
        "raise EXC",
    ]


_ALLOCATOR_API = ["__init__", "initialize", "num_allocs", "max_allocs", "_read_allocs", "_write_allocs", "allocate", "free",
                  "_warn_if_near_limit", "reset"]


def _allocator_state(cls: ast.ClassDef) -> tuple[bool, bool]:
    """(state is the header only, API is the modelled one).

    State: `__slots__` is exactly `("_buf", "_total_size")`, there is no other class-level assignment, `__init__` stores
    nothing but those two, and no other method stores anything on `self` — so nothing decoded from the header (or anything
    else) survives a call: two handles on one segment behave like one.  API: the methods are exactly the ones the model
    transliterates (a new mutating method would be behaviour the model does not have)."""
    slots_ok = False
    other_class_assign = False
    names = []
    stores: dict[str, set[str]] = {}
    for n in cls.body:
        if isinstance(n, ast.Assign) and len(n.targets) == 1 and isinstance(n.targets[0], ast.Name) and n.targets[0].id == "__slots__":
            try:
                slots_ok = sorted(ast.literal_eval(n.value)) == ["_buf", "_total_size"]
            except ValueError:
                slots_ok = False
        elif isinstance(n, (ast.Assign, ast.AnnAssign, ast.AugAssign)):
            other_class_assign = True
        elif isinstance(n, (ast.FunctionDef, ast.AsyncFunctionDef)):
            names.append(n.name)
            st = set()
            for x in ast.walk(n):
                if isinstance(x, ast.Attribute) and isinstance(x.ctx, (ast.Store, ast.Del)) and isinstance(x.value, ast.Name) and x.value.id == "self":
                    st.add(x.attr)
                if isinstance(x, (ast.Global, ast.Nonlocal)):
                    st.add("<global>")
                if isinstance(x, ast.Call) and ast.unparse(x.func) in ("setattr", "object.__setattr__"):
                    st.add("<setattr>")
            stores[n.name] = st
        elif not (isinstance(n, ast.Expr) and isinstance(n.value, ast.Constant)):
            other_class_assign = True
    state_ok = (slots_ok and not other_class_assign and stores.get("__init__") == {"_buf", "_total_size"}
                and all(not v for k, v in stores.items() if k != "__init__"))
    return state_ok, names == _ALLOCATOR_API


def _aw_exact(f: ast.FunctionDef) -> bool:
    """`allocate_and_write` is exactly one of the two statement sequences the model has (sink with / without a limit)."""
    def body(sink: str, guarded: bool) -> list[str]:
        write = ("    try:\n        writer = new_ipc_stream(sink, batch.schema)\n        writer.write_batch(batch)\n        writer.close()\n"
                 "    except _ShmSinkOverflowError:\n        self._allocator.free(offset)\n        return None\n") if guarded else (
                 "    writer = new_ipc_stream(sink, batch.schema)\n    writer.write_batch(batch)\n    writer.close()\n")
        return [
            "shm_buf = self._shm.buf",
            "assert shm_buf is not None",
            "if not _has_dictionary_columns(batch.schema):\n    estimated = ipc.get_record_batch_size(batch) + _STREAM_OVERHEAD\n"
            "    offset = self._allocator.allocate(estimated)\n    if offset is None:\n        return None\n"
            f"    sink = {sink}\n" + write + "    return (offset, sink.bytes_written)",
            "serialized = _serialize_for_shm(batch)",
            "size = serialized.size",
            "offset = self._allocator.allocate(size)",
            "if offset is None:\n    return None",
            "shm_buf[offset:offset + size] = memoryview(serialized).cast('B')",
            "return (offset, size)",
        ]
    st = _stmts(f)
    return st in (body("_ShmSink(shm_buf, offset, estimated)", True), body("_ShmSink(shm_buf, offset)", False))


def _b(x: object) -> str:
    return "true" if x else "false"


def emit() -> dict[str, str]:
    src = (REPO / "vgi_rpc/shm.py").read_text()
    tree = ast.parse(src)
    c = _Consts(tree)
    header_size = c.ev(ast.Name("HEADER_SIZE"))
    little_h, header_fields = _fmt_fields(c.fmt_of("_HEADER_STRUCT"))
    little_a, entry_fields = _fmt_fields(c.fmt_of("_ALLOC_STRUCT"))
    max_allocs = c.ev(ast.Name("MAX_ALLOCS"))
    overhead = c.ev(ast.Name("_STREAM_OVERHEAD"))
    eos_len = c.bytes_len("_IPC_EOS")
    alloc_cls = next(n for n in tree.body if isinstance(n, ast.ClassDef) and n.name == "ShmAllocator")
    sites = _count_sites(alloc_cls)
    count_fmts = sorted({fmt for _f, fmt, _o in sites})
    count_offs = sorted({o for _f, _fmt, o in sites})
    count_funcs = sorted({f for f, _fmt, _o in sites})
    count_ok = len(count_fmts) == 1 and len(count_offs) == 1 and {"_read_allocs", "_write_allocs"} <= set(count_funcs)
    little_c, count_fields = _fmt_fields(count_fmts[0]) if count_fmts else (False, [])
    # where the table starts / how an entry is addressed in _read_allocs and _write_allocs
    wa_ok, trailing = _write_allocs_shape(_func(tree, "ShmAllocator", "_write_allocs"))
    table_ok = wa_ok and _read_allocs_exact(_func(tree, "ShmAllocator", "_read_allocs"))
    al = _allocate_shape(_func(tree, "ShmAllocator", "allocate"))
    fr = _free_shape(_func(tree, "ShmAllocator", "free"))
    al["body"] = bool(al["body"]) and _allocate_exact(_func(tree, "ShmAllocator", "allocate"), al)
    fr["body"] = bool(fr["body"]) and _free_exact(_func(tree, "ShmAllocator", "free"), fr)
    sk = _sink_shape(_func(tree, "_ShmSink", "__init__"), _func(tree, "_ShmSink", "write"))
    aw = _aw_shape(_func(tree, "ShmSegment", "allocate_and_write"))
    aw_exact = _aw_exact(_func(tree, "ShmSegment", "allocate_and_write"))
    state_ok, api_ok = _allocator_state(alloc_cls)
    seg_free_ok = _stmts(_func(tree, "ShmSegment", "free")) == ["self._allocator.free(offset)"]
    reset_ok = [x.replace('"', "'") for x in _stmts(_func(tree, "ShmAllocator", "reset"))] == ["struct.pack_into('<I', self._buf, 16, 0)"]
    init_ok = _stmts(_func(tree, "ShmAllocator", "initialize")) == [
        "data_size = total_size - HEADER_SIZE", "_HEADER_STRUCT.pack_into(buf, 0, _MAGIC, _VERSION, data_size, 0, 0)"]
    fps = [
        (f"{cls}.{fn}", _fingerprint(_func(tree, cls, fn)))
        for cls, fn in [("ShmAllocator", "allocate"), ("ShmAllocator", "free"), ("ShmAllocator", "_read_allocs"),
                        ("ShmAllocator", "_write_allocs"), ("ShmAllocator", "reset"), ("ShmAllocator", "initialize"),
                        ("_ShmSink", "__init__"), ("_ShmSink", "write"), ("ShmSegment", "allocate_and_write")]
    ]
    sink_limit = aw["sinkLimit"] and sk["endIsStartPlusLimit"]
    body = f"""namespace VgiVerif.Gen.C28Shm

/-- comparison operator of a guard, as written in the source -/
inductive Cmp where
  | lt | le | gt | ge | eq | ne | unknown
deriving Repr, DecidableEq

/-- `a OP b` on Python ints (`unknown` never holds: proofs about it fail, the model refuses) -/
def Cmp.eval : Cmp → Int → Int → Bool
  | .lt, a, b => decide (a < b)
  | .le, a, b => decide (a ≤ b)
  | .gt, a, b => decide (a > b)
  | .ge, a, b => decide (a ≥ b)
  | .eq, a, b => decide (a = b)
  | .ne, a, b => decide (a ≠ b)
  | .unknown, _, _ => false

/-- `HEADER_SIZE` -/
def headerSize : Nat := {header_size}
/-- field widths of `_HEADER_FMT` = {c.fmt_of("_HEADER_STRUCT")!r}: magic, version, data_size, num_allocs, padding -/
def headerFields : List Nat := {header_fields}
/-- `_HEADER_STRUCT.size` (= where the allocation table starts: `base = _HEADER_STRUCT.size`) -/
def tableBase : Nat := {sum(header_fields)}
/-- field widths of `_ALLOC_FMT` = {c.fmt_of("_ALLOC_STRUCT")!r}: offset, length -/
def entryFields : List Nat := {entry_fields}
/-- `_ALLOC_STRUCT.size` -/
def entrySize : Nat := {sum(entry_fields)}
/-- byte offset / width of the count field as used by `_read_allocs`, `_write_allocs`, `num_allocs`, `reset`
    (`struct.unpack_from({count_fmts[0] if count_fmts else "?"!r}, self._buf, {count_offs[0] if count_offs else "?"})`) -/
def countOffset : Nat := {count_offs[0] if count_offs else 0}
def countWidth : Nat := {sum(count_fields)}
/-- all literal-format accesses of the allocator agree on one format and one offset, and both table accessors use them -/
def countSitesAgree : Bool := {_b(count_ok)}
/-- every format string is little-endian (`<`) -/
def littleEndian : Bool := {_b(little_h and little_a and little_c)}
/-- `_read_allocs` / `_write_allocs` are *exactly* the statement sequences the model transliterates (count first, then
    entry `i` at `base + i * _ALLOC_STRUCT.size`), `_write_allocs` optionally followed by `writeTrailingSlots` zeroed slots -/
def tableAccessRecognised : Bool := {_b(table_ok)}
/-- number of slots right behind the list that `_write_allocs` additionally zeroes after the entry loop
    (`_ALLOC_STRUCT.pack_into(self._buf, base + (len(allocs) + j) * _ALLOC_STRUCT.size, 0, 0)`); the write loop's extent is
    `tableBase + entrySize * (len + writeTrailingSlots)` -/
def writeTrailingSlots : Nat := {trailing}
/-- `reset` stores 0 in the count field; `initialize` packs (magic, version, data_size, 0, 0) at offset 0 -/
def resetRecognised : Bool := {_b(reset_ok)}
def initializeRecognised : Bool := {_b(init_ok)}
/-- `MAX_ALLOCS` (evaluated from its defining expression `{ast.unparse(c.assign["MAX_ALLOCS"])}`) -/
def maxAllocs : Nat := {max_allocs}
/-- `_STREAM_OVERHEAD` -/
def streamOverhead : Nat := {overhead}
/-- `len(_IPC_EOS)` -/
def ipcEosLen : Nat := {eos_len}

/-! ### `ShmAllocator.allocate` -/
/-- `if size OP 0: raise ValueError` -/
def sizeGuardCmp : Cmp := .{al["sizeGuard"]}
/-- `if len(allocs) OP MAX_ALLOCS: return None` -/
def fullCmp : Cmp := .{al["full"]}
/-- `if gap OP size:` inside the loop (gap before an entry) and after it (gap up to the segment end) -/
def gapInnerCmp : Cmp := .{al["gapInner"]}
def gapTailCmp : Cmp := .{al["gapTail"]}
/-- the rest of the body is the statement sequence the model transliterates -/
def allocateBodyRecognised : Bool := {_b(al["body"])}

/-! ### `ShmAllocator.free` -/
/-- `if off OP offset: allocs.pop(i); self._write_allocs(allocs); return` … `raise ValueError` -/
def freeCmp : Cmp := .{fr["cmp"]}
def freeBodyRecognised : Bool := {_b(fr["body"])}

/-! ### `_ShmSink.write` / `ShmSegment.allocate_and_write` -/
/-- `write` is one of the two recognised shapes (bounded by a guard in front of the copy, or unguarded) -/
def sinkShapeRecognised : Bool := {_b(sk["recognised"])}
/-- `if n OP self._end - self._pos: … raise _ShmSinkOverflowError` stands in front of the copy -/
def sinkBounded : Bool := {_b(sk["bounded"])}
def sinkGuardCmp : Cmp := .{sk["cmp"] if sk["bounded"] else "unknown"}
/-- the guard also sets `self._end = self._pos` (every later write is refused) -/
def sinkSticky : Bool := {_b(sk["sticky"])}
/-- `self._end = start + limit` and the sink is built as `_ShmSink(shm_buf, offset, estimated)` -/
def sinkLimitIsEstimate : Bool := {_b(sink_limit)}
/-- `estimated = ipc.get_record_batch_size(batch) + _STREAM_OVERHEAD`; `offset = self._allocator.allocate(estimated)` -/
def estimateIsBatchPlusOverhead : Bool := {_b(aw["estimate"] and aw["allocEst"])}
/-- `except _ShmSinkOverflowError: self._allocator.free(offset); return None` around the three writer calls -/
def overflowFrees : Bool := {_b(aw["overflowFrees"])}
/-- the non-dictionary path returns `(offset, sink.bytes_written)` -/
def returnsBytesWritten : Bool := {_b(aw["returnsWritten"])}
/-- `allocate_and_write` is, statement for statement, the sequence the model transliterates (nothing before, between or
    after: e.g. no second allocator call once the batch is written) and `ShmSegment.free` is `self._allocator.free(offset)` -/
def allocateAndWriteExact : Bool := {_b(aw_exact and seg_free_ok)}
/-- `ShmAllocator` keeps nothing between calls but the buffer and the total size (`__slots__`, every `self.x = …`): the
    allocation table lives in the header bytes only, so any number of handles on one segment are one allocator -/
def allocatorStateIsHeaderOnly : Bool := {_b(state_ok)}
/-- the methods of `ShmAllocator` are exactly the modelled ones -/
def allocatorApiRecognised : Bool := {_b(api_ok)}
/-- dictionary path: `allocate(serialized.size)` then `shm_buf[offset : offset + size] = serialized` -/
def dictPathExact : Bool := {_b(aw["dictExact"])}

/-- normalised-AST fingerprints of the modelled functions (informational: a change shows up as Gen drift) -/
def fingerprints : List (String × String) := [
{",\n".join(f'  ("{n}", "{h}")' for n, h in fps)}
]

end VgiVerif.Gen.C28Shm
"""
    return {"C28Shm.lean": body}
