"""C25 / C27 (server side): constants, layouts and *shapes* of vgi_rpc/http/server/_sticky.py, the AAD layout of
_state_token._compute_aad, the runtime API guards of CallContext.open_session and the sticky exemptions of the factory.

Emits lean/VgiVerif/Gen/Sticky.lean.  Everything the Lean model branches on is data here (flags / ordered step lists),
so an edit of the source either changes the model (and the proofs are re-checked against the new shape) or is
recorded as a drifted fingerprint (Gen/StickyFingerprint.lean, imported by nothing).
"""

from __future__ import annotations

import ast
import hashlib
import os
import struct
from pathlib import Path

REPO = Path(os.environ.get("VERIF_REPO", "/repo"))
PROPS = ["C25", "C27"]

STICKY = "vgi_rpc/http/server/_sticky.py"
STATE_TOKEN = "vgi_rpc/http/server/_state_token.py"
COMMON = "vgi_rpc/rpc/_common.py"
FACTORY = "vgi_rpc/http/server/_factory.py"
HTTP_COMMON = "vgi_rpc/http/_common.py"


class Unrecognised(Exception):
    pass


def _tree(rel: str) -> ast.Module:
    return ast.parse((REPO / rel).read_text())


def _func(tree: ast.AST, name: str, cls: str | None = None) -> ast.FunctionDef:
    scope: ast.AST = tree
    if cls is not None:
        for n in ast.walk(tree):
            if isinstance(n, ast.ClassDef) and n.name == cls:
                scope = n
                break
        else:
            raise Unrecognised(f"class {cls} not found")
    for n in ast.walk(scope):
        if isinstance(n, ast.FunctionDef) and n.name == name:
            return n
    raise Unrecognised(f"function {cls + '.' if cls else ''}{name} not found")


def _module_consts(tree: ast.Module) -> dict[str, ast.expr]:
    out: dict[str, ast.expr] = {}
    for n in tree.body:
        if isinstance(n, ast.Assign) and len(n.targets) == 1 and isinstance(n.targets[0], ast.Name):
            out[n.targets[0].id] = n.value
        elif isinstance(n, ast.AnnAssign) and isinstance(n.target, ast.Name) and n.value is not None:
            out[n.target.id] = n.value
    return out


def _const(e: ast.expr) -> object:
    if isinstance(e, ast.Constant):
        return e.value
    raise Unrecognised(f"not a literal: {ast.unparse(e)}")


def _struct_fmt(e: ast.expr) -> str:
    if isinstance(e, ast.Call) and ast.unparse(e.func) == "struct.Struct" and len(e.args) == 1:
        v = _const(e.args[0])
        if isinstance(v, str):
            return v
    raise Unrecognised(f"not struct.Struct(<literal>): {ast.unparse(e)}")


_WIDTH = {"B": 1, "H": 2, "I": 4, "L": 4, "Q": 8}


def _widths(fmt: str) -> list[int]:
    """Field widths of a little-endian standard-size struct format made of unsigned integer codes."""
    if not fmt.startswith("<"):
        raise Unrecognised(f"struct format {fmt!r} is not little-endian standard-size ('<')")
    ws = []
    for ch in fmt[1:]:
        if ch == " ":
            continue
        if ch not in _WIDTH:
            raise Unrecognised(f"struct code {ch!r} in {fmt!r} outside the supported fragment")
        ws.append(_WIDTH[ch])
    assert struct.calcsize(fmt) == sum(ws)
    return ws


def _flatten_add(e: ast.expr) -> list[ast.expr]:
    if isinstance(e, ast.BinOp) and isinstance(e.op, ast.Add):
        return _flatten_add(e.left) + _flatten_add(e.right)
    return [e]


def lean_bytes(b: bytes) -> str:
    return "[" + ", ".join(str(x) for x in b) + "]"


def lean_strs(xs: list[str]) -> str:
    return "[" + ", ".join('"' + x + '"' for x in xs) + "]"


def lean_bool(b: bool) -> str:
    return "true" if b else "false"


def fingerprint(node: ast.AST) -> str:
    """Normalised-AST fingerprint (docstrings and comments do not count)."""
    node = ast.parse(ast.unparse(node))
    for n in ast.walk(node):
        body = getattr(n, "body", None)
        if isinstance(body, list) and body and isinstance(body[0], ast.Expr) and isinstance(body[0].value, ast.Constant) \
                and isinstance(body[0].value.value, str):
            n.body = body[1:] or [ast.Pass()]  # type: ignore[attr-defined]
    return hashlib.sha256(ast.dump(node, include_attributes=False).encode()).hexdigest()[:16]


# ------------------------------------------------------------------------------------------ pieces


def seal_shape(tree: ast.Module) -> dict:
    f = _func(tree, "_seal_session_token")
    out: dict = {"max_server_id": None, "frame": [], "prefix_args": [], "seal_kwargs_ok": False, "sid_len_check": False}
    for n in ast.walk(f):
        if isinstance(n, ast.If) and isinstance(n.test, ast.Compare) and len(n.test.ops) == 1:
            src = ast.unparse(n.test)
            if isinstance(n.test.ops[0], ast.Gt) and src.startswith("len(server_id_bytes) >"):
                out["max_server_id"] = _const(n.test.comparators[0])
            if src == "len(session_id) != _SESSION_ID_LEN":
                out["sid_len_check"] = True
        if isinstance(n, ast.Assign) and ast.unparse(n.targets[0]) == "plaintext":
            parts = _flatten_add(n.value)
            names = []
            for p in parts:
                s = ast.unparse(p)
                if s.startswith("_PLAINTEXT_PREFIX.pack("):
                    names.append("prefix")
                    assert isinstance(p, ast.Call)
                    for a in p.args:
                        t = ast.unparse(a)
                        if t == "len(server_id_bytes)":
                            out["prefix_args"].append("server_id_len")
                        elif t == "int(time.time()) if now is None else now":
                            out["prefix_args"].append("created_at")
                        else:
                            out["prefix_args"].append("?" + t)
                elif s == "server_id_bytes":
                    names.append("server_id")
                elif s == "session_id":
                    names.append("session_id")
                elif s == "_PLAINTEXT_SUFFIX.pack(expires_at)":
                    names.append("suffix")
                else:
                    names.append("?" + s)
            out["frame"] = names
        if isinstance(n, ast.Call) and ast.unparse(n.func) == "crypto.seal_bytes":
            kw = {k.arg: ast.unparse(k.value) for k in n.keywords}
            out["seal_kwargs_ok"] = (
                [ast.unparse(a) for a in n.args] == ["plaintext", "token_key"] and kw == {"aad": "aad", "version": "_TOKEN_VERSION"}
            )
    enc = [ast.unparse(n.value) for n in ast.walk(f) if isinstance(n, ast.Return) and n.value is not None]
    out["encode_ok"] = enc == ["base64.urlsafe_b64encode(sealed).rstrip(b'=').decode('ascii')"]
    return out


def open_shape(tree: ast.Module) -> dict:
    """Ordered steps of `_open_session_token`; every failure must be a SessionLostError."""
    f = _func(tree, "_open_session_token")
    steps: list[str] = []
    all_lost = True
    for st in f.body:
        src = ast.unparse(st)
        if isinstance(st, ast.Expr) and isinstance(st.value, ast.Constant):
            continue
        if isinstance(st, ast.Try):
            body = " ".join(ast.unparse(b) for b in st.body)
            handlers = [(ast.unparse(h.type) if h.type else "", ast.unparse(h.body[-1])) for h in st.handlers]
            lost = all(b.startswith("raise SessionLostError(") for _t, b in handlers)
            all_lost = all_lost and lost
            if "urlsafe_b64decode" in body:
                steps.append("b64decode" if [t for t, _ in handlers] == ["Exception"] else "b64decode?")
            elif "crypto.open_bytes(raw, token_key, aad=aad, version=_TOKEN_VERSION)" in body:
                steps.append("open_bytes" if [t for t, _ in handlers] == ["crypto.SealError"] else "open_bytes?")
            else:
                steps.append("?try")
        elif isinstance(st, ast.If):
            t = ast.unparse(st.test)
            raises = len(st.body) == 1 and ast.unparse(st.body[0]).startswith("raise SessionLostError(") and not st.orelse
            all_lost = all_lost and raises
            if t == "base64.urlsafe_b64encode(raw).rstrip(b'=').decode('ascii') != token":
                steps.append("canonical")
            elif t == "len(plaintext) < prefix_len":
                steps.append("min_len")
            elif t == "len(plaintext) != end_pos":
                steps.append("exact_len")
            else:
                steps.append("?if:" + t)
        elif isinstance(st, (ast.Assign, ast.Return)):
            if src == "prefix_len = _PLAINTEXT_PREFIX.size":
                continue
            if src == "_created_at, server_id_len = _PLAINTEXT_PREFIX.unpack_from(plaintext, 0)":
                steps.append("unpack_prefix")
            elif src == "sid_pos = prefix_len + server_id_len":
                continue
            elif src == "end_pos = sid_pos + _SESSION_ID_LEN + _PLAINTEXT_SUFFIX.size":
                continue
            elif src == "server_id = plaintext[prefix_len:sid_pos].decode('ascii', errors='replace')":
                steps.append("server_id_ascii_replace")
            elif src == "session_id = plaintext[sid_pos:sid_pos + _SESSION_ID_LEN]":
                steps.append("session_id")
            elif src in ("(expires_at,) = _PLAINTEXT_SUFFIX.unpack_from(plaintext, sid_pos + _SESSION_ID_LEN)",
                         "expires_at, = _PLAINTEXT_SUFFIX.unpack_from(plaintext, sid_pos + _SESSION_ID_LEN)"):
                steps.append("unpack_suffix")
            elif src == "return (server_id, session_id, expires_at)":
                steps.append("return")
            else:
                steps.append("?" + src)
        else:
            steps.append("?" + src[:40])
    return {"steps": steps, "all_lost": all_lost}


def aad_shape(tree: ast.Module) -> dict:
    f = _func(tree, "_compute_aad")
    out: dict = {"prefix": None, "anon_tail": None, "tag": None, "sep": None, "layout_ok": False, "anon_cond_ok": False}
    for st in f.body:
        if isinstance(st, ast.Assign) and ast.unparse(st.targets[0]) == "prefix":
            out["prefix"] = _const(st.value)
        if isinstance(st, ast.If):
            out["anon_cond_ok"] = ast.unparse(st.test) == "auth is None or not auth.authenticated"
            if len(st.body) == 1 and isinstance(st.body[0], ast.Return) and st.body[0].value is not None:
                parts = _flatten_add(st.body[0].value)
                if len(parts) == 2 and ast.unparse(parts[0]) == "prefix":
                    out["anon_tail"] = _const(parts[1])
        if isinstance(st, ast.Return) and st.value is not None:
            parts = _flatten_add(st.value)
            if len(parts) == 5 and [ast.unparse(parts[i]) for i in (0, 2, 4)] == ["prefix", "domain", "principal"]:
                out["tag"] = _const(parts[1])
                out["sep"] = _const(parts[3])
                out["layout_ok"] = True
    srcs = [ast.unparse(s) for s in f.body]
    out["layout_ok"] = bool(out["layout_ok"]) and "domain = (auth.domain or '').encode()" in srcs \
        and "principal = (auth.principal or '').encode()" in srcs
    for k in ("prefix", "anon_tail", "tag", "sep"):
        if not isinstance(out[k], bytes):
            raise Unrecognised(f"_compute_aad: {k} not recognised")
    return out


def pkey_shape(tree: ast.Module) -> dict:
    f = _func(tree, "_principal_key", "_StickyMiddleware")
    out: dict = {"anon": None, "sep": None, "layout_ok": False, "anon_cond_ok": False}
    for st in f.body:
        if isinstance(st, ast.If):
            out["anon_cond_ok"] = ast.unparse(st.test) == "auth is None or not auth.authenticated"
            if len(st.body) == 1 and isinstance(st.body[0], ast.Return) and st.body[0].value is not None:
                out["anon"] = _const(st.body[0].value)
        if isinstance(st, ast.Return) and isinstance(st.value, ast.JoinedStr):
            vals = st.value.values
            if (
                len(vals) == 3
                and isinstance(vals[0], ast.FormattedValue)
                and ast.unparse(vals[0].value) == "auth.domain or ''"
                and isinstance(vals[1], ast.Constant)
                and isinstance(vals[2], ast.FormattedValue)
                and ast.unparse(vals[2].value) == "auth.principal or ''"
            ):
                out["sep"] = vals[1].value
                out["layout_ok"] = True
    if not isinstance(out["anon"], str) or not isinstance(out["sep"], str):
        raise Unrecognised("_principal_key not recognised")
    return out


def registry_shape(tree: ast.Module) -> dict:
    out: dict = {}
    f = _func(tree, "open", "_SessionRegistry")
    body = [s for s in f.body if not (isinstance(s, ast.Expr) and isinstance(s.value, ast.Constant))]
    first = body[0]
    out["drain_check_first"] = (
        isinstance(first, ast.If)
        and ast.unparse(first.test) == "self._draining"
        and ast.unparse(first.body[0]).startswith("raise ServerDrainingError(")
    )
    srcs = [ast.unparse(s) for s in body]
    out["ttl_ok"] = "effective_ttl = self._default_ttl if ttl is None else ttl" in srcs and "expires_at = time.time() + effective_ttl" in srcs
    if out["ttl_ok"]:
        out["ttl_mode"] = "is_none"
    elif "expires_at = time.time() + (ttl or self._default_ttl)" in srcs or (
            "effective_ttl = ttl or self._default_ttl" in srcs and "expires_at = time.time() + effective_ttl" in srcs):
        out["ttl_mode"] = "falsy"   # `ttl or default`: a per-call TTL of 0 silently becomes the default
    else:
        raise Unrecognised("_SessionRegistry.open: how the TTL default is applied is not recognised")
    out["sid_ok"] = "session_id = secrets.token_bytes(_SESSION_ID_LEN)" in srcs
    # get: ordered guards inside `with self._lock` (an expired entry is popped under the lock and closed after it)
    g = _func(tree, "get", "_SessionRegistry")
    steps: list[str] = []
    strict = None

    def guard(st: ast.If) -> None:
        nonlocal strict
        t = ast.unparse(st.test)
        body = [ast.unparse(b) for b in st.body]
        rets_none = body[-1] == "return None"
        if t == "entry is None" and rets_none:
            steps.append("missing")
        elif t in ("entry.expires_at < now", "entry.expires_at <= now"):
            strict = t.endswith("< now")
            evicts = "del self._entries[session_id]" in body
            closes_inline = "self._close_state_suppressed(entry.state)" in body and rets_none
            closes_after = "expired = entry" in body
            steps.append("expired" if evicts and (closes_inline or closes_after) else "expired?")
        elif t == "entry.principal_key != principal_key" and rets_none:
            steps.append("principal")
        else:
            steps.append("?" + t)
        for o in st.orelse:  # `elif` chains
            if isinstance(o, ast.If):
                guard(o)
            else:
                steps.append("?else:" + ast.unparse(o)[:40])

    for n in g.body:
        if isinstance(n, ast.With):
            for st in n.body:
                if isinstance(st, ast.If):
                    guard(st)
    # the deferred close of the popped entry: `if expired is not None: self._close_entry(expired); return None`
    deferred = [n for n in g.body if isinstance(n, ast.If) and ast.unparse(n.test) == "expired is not None"]
    if any("expired = entry" in ast.unparse(n) for n in ast.walk(g) if isinstance(n, ast.Assign)):
        ok = len(deferred) == 1 and [ast.unparse(b) for b in deferred[0].body] == ["self._close_entry(expired)", "return None"]
        if not ok:
            steps = [x + "?" if x == "expired" else x for x in steps]
    out["get_steps"] = steps
    if strict is None:
        raise Unrecognised("_SessionRegistry.get: expiry comparison not recognised")
    out["expiry_strict"] = strict
    d = _func(tree, "drain_expired", "_SessionRegistry")
    cmp = [ast.unparse(n) for n in ast.walk(d) if isinstance(n, ast.Compare) and "expires_at" in ast.unparse(n)]
    out["drain_cmp"] = cmp
    return out


def lifecycle_shape(tree: ast.Module) -> dict:
    """Lock / close-hook discipline around the end of a session (the sequential model only needs its shape)."""
    cs = _func(tree, "_close_session", "_StickyMiddleware")
    releases = any(isinstance(n, ast.Expr) and ast.unparse(n) == "entry.lock.release()" for n in ast.walk(cs))
    try:
        il = _func(tree, "is_live", "_SessionRegistry")
        is_live_ok = ["return self._entries.get(session_id) is entry"] == [ast.unparse(x) for x in ast.walk(il) if isinstance(x, ast.Return)]
    except Unrecognised:
        is_live_ok = False
    try:
        ce = _func(tree, "_close_entry", "_SessionRegistry")
        body = [x for x in ce.body if not (isinstance(x, ast.Expr) and isinstance(x.value, ast.Constant))]
        once = (len(body) == 1 and isinstance(body[0], ast.With) and ast.unparse(body[0].items[0].context_expr) == "entry.lock"
                and [ast.unparse(b) for b in body[0].body] == ["if entry.closed:\n    return", "entry.closed = True",
                                                              "cls._close_state_suppressed(entry.state)"])
    except Unrecognised:
        once = False
    ends = {}
    for name in ("close", "drain_expired", "shutdown"):
        f = _func(tree, name, "_SessionRegistry")
        calls = [ast.unparse(n.func) for n in ast.walk(f) if isinstance(n, ast.Call)]
        ends[name] = "self._close_entry" in calls or "self._close_state_suppressed" in calls
    return {"close_session_releases_lock": releases, "is_live_ok": is_live_ok, "close_entry_once": once, "ends_close": all(ends.values())}


def sink_shape(tree: ast.Module) -> dict:
    def assigns(fn: ast.FunctionDef) -> list[str]:
        return [ast.unparse(s) for s in fn.body
                if isinstance(s, ast.Assign) or (isinstance(s, ast.Expr) and not isinstance(s.value, ast.Constant))]

    o = assigns(_func(tree, "open", "_StickySink"))
    c = assigns(_func(tree, "close", "_StickySink"))
    return {
        "open_sets_mint": "self.mint_token = token" in o and "token = self._open_callback(state, ttl)" in o,
        "open_resets_closed": "self.closed = False" in o,
        "close_calls_callback": "self._close_callback()" in c,
        "close_sets_closed": "self.closed = True" in c,
        "close_clears_mint": "self.mint_token = None" in c,
        "close_assigns_hit": "self.closed = self._close_callback()" in c,
        "close_on_hit_only": any(isinstance(st, ast.If) and ast.unparse(st.test) == "self._close_callback()"
                                 and [ast.unparse(b) for b in st.body] == ["self.closed = True"] and not st.orelse
                                 for st in _func(tree, "close", "_StickySink").body),
    }


def request_shape(tree: ast.Module) -> dict:
    f = _func(tree, "process_request", "_StickyMiddleware")
    out: dict = {"accept_parse_ok": False, "validate": [], "lost_completes": False, "falsy_header_is_absent": False, "strips": False}
    for n in ast.walk(f):
        if isinstance(n, ast.Assign) and ast.unparse(n.targets[0]) == "accept_opens":
            out["accept_parse_ok"] = ast.unparse(n.value) == "(req.get_header(SESSION_ACCEPT_HEADER) or '').strip().lower() == 'true'"
        if isinstance(n, ast.If) and ast.unparse(n.test) == "token_header":
            out["falsy_header_is_absent"] = True
        if isinstance(n, ast.Try):
            steps = []
            for st in n.body:
                s = ast.unparse(st)
                if "_open_session_token(" in s:
                    steps.append("open_token")
                    out["strips"] = "token_header.strip()" in s
                    out["aad_ok"] = "self._token_key, aad)" in s
                elif isinstance(st, ast.If) and ast.unparse(st.test) == "server_id != _expected_server_id(req)" \
                        and ast.unparse(st.body[0]).startswith("raise SessionLostError("):
                    steps.append("server_id")
                elif s == "entry = self._registry.get(session_id, principal_key)":
                    steps.append("registry_get")
                elif isinstance(st, ast.If) and ast.unparse(st.test) == "entry is None" \
                        and ast.unparse(st.body[0]).startswith("raise SessionLostError("):
                    steps.append("entry_none")
                elif s == "entry.lock.acquire()":
                    steps.append("lock_acquire")
                elif isinstance(st, ast.If) and ast.unparse(st.test) == "not self._registry.is_live(session_id, entry)" \
                        and [ast.unparse(b)[:27] for b in st.body] == ["entry.lock.release()", "raise SessionLostError('ses"]:
                    steps.append("revalidate")
                elif s in ("auth, _ = _get_auth_and_metadata()", "aad = _compute_aad(auth)"):
                    continue
                else:
                    steps.append("?" + s[:50])
            out["validate"] = steps
            h = n.handlers
            if len(h) == 1 and h[0].type is not None and ast.unparse(h[0].type) == "SessionLostError":
                hs = [ast.unparse(s) for s in h[0].body]
                out["lost_completes"] = (
                    any(x.startswith("_set_error_response(resp, exc") for x in hs) and "resp.complete = True" in hs and hs[-1] == "return"
                )
    return out


def response_shape(tree: ast.Module) -> dict:
    f = _func(tree, "process_response", "_StickyMiddleware")
    emit: list[str] = []
    for n in ast.walk(f):
        if isinstance(n, ast.If) and ast.unparse(n.test) == "sink is not None":
            for st in n.body:
                if isinstance(st, ast.If):
                    t = ast.unparse(st.test)
                    sets = [ast.unparse(x) for x in ast.walk(st) if isinstance(x, ast.Call) and ast.unparse(x.func) == "resp.set_header"]
                    if t == "sink.mint_token is not None" and "resp.set_header(SESSION_HEADER, sink.mint_token)" in sets:
                        emit.append("session_if_mint")
                    elif t == "sink.closed" and sets == ["resp.set_header(SESSION_CLOSE_HEADER, 'true')"]:
                        emit.append("close_if_closed")
                    else:
                        emit.append("?" + t)
    return {"emit": emit}


def delete_shape(tree: ast.Module) -> dict:
    """Every exit of `_SessionResource.on_delete`: (guard, status, sets a header)."""
    f = _func(tree, "on_delete", "_SessionResource")
    exits: list[tuple[str, str, bool]] = []

    def status_of(stmts: list[ast.stmt]) -> tuple[str | None, bool]:
        status, hdr = None, False
        for s in stmts:
            u = ast.unparse(s)
            if u.startswith("resp.status = HTTPStatus."):
                status = u.split("HTTPStatus.")[1]
            if u.startswith("resp.set_header("):
                hdr = True
        return status, hdr

    for st in f.body:
        if isinstance(st, ast.If):
            s, h = status_of(st.body)
            if s is not None:
                exits.append((ast.unparse(st.test), s, h))
        if isinstance(st, ast.Try):
            for hd in st.handlers:
                s, h = status_of(hd.body)
                if s is not None:
                    exits.append(("except " + (ast.unparse(hd.type) if hd.type else ""), s, h))
    s, h = status_of([s for s in f.body if isinstance(s, (ast.Assign, ast.Expr))])
    exits.append(("hit", s or "?", h))
    closes = any(ast.unparse(n) == "self._registry.close(session_id)" for n in ast.walk(f))
    names = {"not token_header": "no_header", "except SessionLostError": "open_failed",
             "server_id != _expected_server_id(req)": "server_id", "entry is None": "registry_miss", "hit": "hit"}
    from http import HTTPStatus

    rows = [(names.get(g, "?" + g), int(getattr(HTTPStatus, s)), h) for g, s, h in exits]
    srcs = [ast.unparse(s) for s in f.body]
    return {"rows": rows, "closes": closes,
            "uses_principal_key": "principal_key = _StickyMiddleware._principal_key(req)" in srcs
            and "entry = self._registry.get(session_id, principal_key)" in srcs}


def api_shape(tree: ast.Module) -> dict:
    f = _func(tree, "open_session", "CallContext")
    checks: list[str] = []
    for st in f.body:
        if isinstance(st, ast.If) and ast.unparse(st.body[0]).startswith("raise RuntimeError("):
            t = ast.unparse(st.test)
            checks.append({"sink is None": "sink", "not sink.accept_opens": "accept",
                           "_current_session_context.get() is not None": "active"}.get(t, "?" + t))
        elif ast.unparse(st) == "sink.open(state, ttl)":
            checks.append("open")
    c = _func(tree, "close_session", "CallContext")
    csrc = [ast.unparse(s) for s in c.body]
    return {"open_checks": checks, "close_ok": "sink.close()" in csrc}


def exempt_shape(tree: ast.Module, sticky: ast.Module) -> dict:
    suffixes: list[str] = []
    for n in ast.walk(tree):
        if isinstance(n, ast.Call) and ast.unparse(n.func) == "_StickyMiddleware":
            for k in n.keywords:
                if k.arg == "exempt_prefixes" and isinstance(k.value, ast.Tuple):
                    for e in k.value.elts:
                        s = ast.unparse(e)
                        if s == "f'{prefix}/health'":
                            suffixes.append("/health")
                        elif s == "f'{prefix}/{_SESSION_ENDPOINT}'":
                            suffixes.append("/" + str(_const(_module_consts(_tree(HTTP_COMMON))["_SESSION_ENDPOINT"])))
                        else:
                            suffixes.append("?" + s)
    f = _func(sticky, "process_request", "_StickyMiddleware")
    kind = None
    for n in ast.walk(f):
        if isinstance(n, ast.For) and ast.unparse(n.iter) == "self._exempt_prefixes":
            for st in n.body:
                if isinstance(st, ast.If) and [ast.unparse(b) for b in st.body] == ["return"]:
                    t = ast.unparse(st.test)
                    if t == "req.path == prefix or req.path.startswith(prefix + '/')":
                        kind = "eq_or_subtree"
                    elif t == "req.path.startswith(prefix)":
                        kind = "startswith"
                    elif t == "req.path == prefix":
                        kind = "eq"
        if isinstance(n, ast.If) and [ast.unparse(b) for b in n.body] == ["return"] \
                and ast.unparse(n.test) == "req.path.startswith(self._exempt_prefixes)":
            kind = "startswith"  # str.startswith(tuple)
    if kind is None:
        if any("_exempt_prefixes" in ast.unparse(n) for n in ast.walk(f) if isinstance(n, (ast.For, ast.If))):
            raise Unrecognised("_StickyMiddleware.process_request: exempt-path test not recognised")
        kind = "none"
    return {"suffixes": suffixes, "kind": kind}


# ------------------------------------------------------------------------------------------ emit


def emit() -> dict[str, str]:
    sticky = _tree(STICKY)
    consts = _module_consts(sticky)
    version = _const(consts["_TOKEN_VERSION"])
    sid_len = _const(consts["_SESSION_ID_LEN"])
    prefix_fmt = _struct_fmt(consts["_PLAINTEXT_PREFIX"])
    suffix_fmt = _struct_fmt(consts["_PLAINTEXT_SUFFIX"])
    if not isinstance(version, int) or not isinstance(sid_len, int):
        raise Unrecognised("_TOKEN_VERSION / _SESSION_ID_LEN are not integer literals")
    seal = seal_shape(sticky)
    opn = open_shape(sticky)
    aad = aad_shape(_tree(STATE_TOKEN))
    pk = pkey_shape(sticky)
    reg = registry_shape(sticky)
    sink = sink_shape(sticky)
    life = lifecycle_shape(sticky)
    rq = request_shape(sticky)
    rs = response_shape(sticky)
    dl = delete_shape(sticky)
    api = api_shape(_tree(COMMON))
    ex = exempt_shape(_tree(FACTORY), sticky)
    hc = _module_consts(_tree(HTTP_COMMON))
    hdr = {k: _const(hc[k]) for k in ("SESSION_HEADER", "SESSION_ACCEPT_HEADER", "SESSION_CLOSE_HEADER", "_SESSION_ENDPOINT")}
    if seal["max_server_id"] is None:
        raise Unrecognised("_seal_session_token: server_id length guard not found")
    rows = ",\n".join(f'  ("{n}", {s}, {lean_bool(h)})' for n, s, h in dl["rows"])
    body = f"""namespace VgiVerif.Gen.Sticky

/-! `{STICKY}` — token frame -/
/-- `_TOKEN_VERSION` -/
def tokenVersion : Nat := {version}
/-- `_SESSION_ID_LEN` -/
def sessionIdLen : Nat := {sid_len}
/-- `_PLAINTEXT_PREFIX = struct.Struct({prefix_fmt!r})`: little-endian standard-size field widths -/
def prefixWidths : List Nat := {_widths(prefix_fmt)}
/-- `_PLAINTEXT_SUFFIX = struct.Struct({suffix_fmt!r})` -/
def suffixWidths : List Nat := {_widths(suffix_fmt)}
/-- arguments of `_PLAINTEXT_PREFIX.pack(...)` in `_seal_session_token` -/
def prefixArgs : List String := {lean_strs(seal["prefix_args"])}
/-- the `+` chain that builds the plaintext frame -/
def frameOrder : List String := {lean_strs(seal["frame"])}
/-- `if len(server_id_bytes) > N: raise ValueError` -/
def maxServerIdLen : Nat := {seal["max_server_id"]}
/-- `if len(session_id) != _SESSION_ID_LEN: raise ValueError` present -/
def sealChecksSidLen : Bool := {lean_bool(seal["sid_len_check"])}
/-- `crypto.seal_bytes(plaintext, token_key, aad=aad, version=_TOKEN_VERSION)` and `urlsafe_b64encode(..).rstrip(b"=")` -/
def sealCallOk : Bool := {lean_bool(seal["seal_kwargs_ok"] and seal["encode_ok"])}

/-- ordered steps of `_open_session_token` -/
def openSteps : List String := {lean_strs(opn["steps"])}
/-- every failure exit of `_open_session_token` raises `SessionLostError` -/
def openFailuresAreLost : Bool := {lean_bool(opn["all_lost"])}
/-- the re-encoding comparison (`urlsafe_b64encode(raw).rstrip(b"=") != token → SessionLostError`) is present -/
def canonicalCheck : Bool := {lean_bool("canonical" in opn["steps"])}

/-! `{STATE_TOKEN}` `_compute_aad` -/
def aadPrefix : List UInt8 := {lean_bytes(aad["prefix"])}
def aadAnonTail : List UInt8 := {lean_bytes(aad["anon_tail"])}
def aadUserTag : List UInt8 := {lean_bytes(aad["tag"])}
def aadSep : List UInt8 := {lean_bytes(aad["sep"])}
/-- `return prefix + TAG + domain + SEP + principal`, anonymous iff `auth is None or not auth.authenticated` -/
def aadLayoutOk : Bool := {lean_bool(aad["layout_ok"] and aad["anon_cond_ok"])}

/-! `_StickyMiddleware._principal_key` (UTF-8 of the str literals) -/
def pkeyAnon : List UInt8 := {lean_bytes(pk["anon"].encode())}
def pkeySep : List UInt8 := {lean_bytes(pk["sep"].encode())}
def pkeyLayoutOk : Bool := {lean_bool(pk["layout_ok"] and pk["anon_cond_ok"])}

/-! `_SessionRegistry` -/
/-- `open` starts with `if self._draining: raise ServerDrainingError` -/
def drainCheckFirst : Bool := {lean_bool(reg["drain_check_first"])}
/-- `expires_at = time.time() + (default_ttl if ttl is None else ttl)`, id from `secrets.token_bytes(_SESSION_ID_LEN)` -/
def openBodyOk : Bool := {lean_bool(reg["ttl_ok"] and reg["sid_ok"])}
/-- the default TTL is applied with `ttl or default` (so `ttl=0` means "default") instead of `default if ttl is None else ttl` -/
def ttlDefaultOnFalsy : Bool := {lean_bool(reg["ttl_mode"] == "falsy")}
/-- ordered guards of `get` (each returns None) -/
def getSteps : List String := {lean_strs(reg["get_steps"])}
/-- expiry test of `get` is `entry.expires_at < now` (strict) -/
def expiryStrict : Bool := {lean_bool(reg["expiry_strict"])}
/-- comparisons in `drain_expired` -/
def drainCompares : List String := {lean_strs(reg["drain_cmp"])}

/-- `_close_session` releases the per-session RLock itself (pinned tree) instead of leaving it to `process_response` -/
def closeSessionReleasesLock : Bool := {lean_bool(life["close_session_releases_lock"])}
/-- `is_live` is `self._entries.get(session_id) is entry` (used by the re-validation after the lock acquisition) -/
def isLiveOk : Bool := {lean_bool(life["is_live_ok"])}
/-- `_close_entry`: under the entry lock, `if entry.closed: return; entry.closed = True; state.close()` -/
def closeEntryOnce : Bool := {lean_bool(life["close_entry_once"])}
/-- `close`, `drain_expired`, `shutdown` all run the close hook of what they removed -/
def endingPathsClose : Bool := {lean_bool(life["ends_close"])}

/-! `_StickySink` -/
def sinkOpenSetsMint : Bool := {lean_bool(sink["open_sets_mint"])}
def sinkOpenResetsClosed : Bool := {lean_bool(sink["open_resets_closed"])}
def sinkCloseSetsClosed : Bool := {lean_bool(sink["close_calls_callback"] and sink["close_sets_closed"])}
/-- `if self._close_callback(): self.closed = True` — the close is announced only when the registry still had the entry -/
def sinkCloseOnHitOnly : Bool := {lean_bool(sink["close_on_hit_only"])}
/-- `self.closed = self._close_callback()` — the flag is overwritten with "the registry still had the entry" -/
def sinkCloseAssignsHit : Bool := {lean_bool(sink["close_assigns_hit"])}
def sinkCloseClearsMint : Bool := {lean_bool(sink["close_clears_mint"])}

/-! `_StickyMiddleware.process_request` / `process_response` -/
/-- `(req.get_header(SESSION_ACCEPT_HEADER) or "").strip().lower() == "true"` -/
def acceptParseOk : Bool := {lean_bool(rq["accept_parse_ok"])}
/-- `if token_header:` (an empty header counts as absent) and the value is `.strip()`ped before opening -/
def tokenHeaderHandlingOk : Bool := {lean_bool(rq["falsy_header_is_absent"] and rq["strips"] and rq.get("aad_ok", False))}
/-- ordered validation steps inside the `try` -/
def validateSteps : List String := {lean_strs(rq["validate"])}
/-- `except SessionLostError: _set_error_response(..); resp.complete = True; return` -/
def lostSkipsDispatch : Bool := {lean_bool(rq["lost_completes"])}
/-- header emission of `process_response`, in source order -/
def respEmit : List String := {lean_strs(rs["emit"])}

/-! `CallContext.open_session` / `close_session` (`{COMMON}`) -/
def openSessionChecks : List String := {lean_strs(api["open_checks"])}
def closeSessionOk : Bool := {lean_bool(api["close_ok"])}

/-! `_SessionResource.on_delete`: (exit, HTTP status, sets a response header) in source order -/
def deleteExits : List (String × Nat × Bool) := [
{rows}
]
def deleteClosesOnHit : Bool := {lean_bool(dl["closes"] and dl["uses_principal_key"])}

/-! factory wiring -/
def exemptSuffixes : List String := {lean_strs(ex["suffixes"])}
/-- exemption test is `req.path == prefix or req.path.startswith(prefix + "/")` -/
def exemptCompareSafe : Bool := {lean_bool(ex["kind"] == "eq_or_subtree")}
/-- which test: "eq_or_subtree" (as above) | "startswith" (`req.path.startswith(prefix)`) | "eq" | "none" -/
def exemptCompare : String := "{ex["kind"]}"

/-! header names (`{HTTP_COMMON}`) -/
def sessionHeader : String := "{hdr["SESSION_HEADER"]}"
def acceptHeader : String := "{hdr["SESSION_ACCEPT_HEADER"]}"
def closeHeader : String := "{hdr["SESSION_CLOSE_HEADER"]}"
def sessionEndpoint : String := "{hdr["_SESSION_ENDPOINT"]}"

end VgiVerif.Gen.Sticky
"""
    # fingerprints of every modelled function (drift is informational: raises the budgets of C25/C27)
    fps = []
    for rel, items in [
        (STICKY, [("_seal_session_token", None), ("_open_session_token", None), ("open", "_SessionRegistry"), ("get", "_SessionRegistry"),
                  ("close", "_SessionRegistry"), ("drain_expired", "_SessionRegistry"), ("shutdown", "_SessionRegistry"),
                  ("is_live", "_SessionRegistry"), ("_close_entry", "_SessionRegistry"),
                  ("open", "_StickySink"), ("close", "_StickySink"), ("_principal_key", "_StickyMiddleware"),
                  ("process_request", "_StickyMiddleware"), ("_open_session", "_StickyMiddleware"),
                  ("_close_session", "_StickyMiddleware"), ("process_response", "_StickyMiddleware"),
                  ("on_delete", "_SessionResource"), ("_expected_server_id", None)]),
        (STATE_TOKEN, [("_compute_aad", None)]),
        (COMMON, [("open_session", "CallContext"), ("close_session", "CallContext"), ("session", "CallContext")]),
    ]:
        t = _tree(rel)
        for name, cls in items:
            try:
                fps.append((f"{rel}:{cls + '.' if cls else ''}{name}", fingerprint(_func(t, name, cls))))
            except Unrecognised:
                fps.append((f"{rel}:{cls + '.' if cls else ''}{name}", "absent"))
    fp_body = "namespace VgiVerif.Gen.StickyFingerprint\n/-- normalised-AST fingerprints of the functions the Sticky model transliterates -/\n" \
        "def functions : List (String × String) := [\n" + ",\n".join(f'  ("{a}", "{b}")' for a, b in fps) + "\n]\nend VgiVerif.Gen.StickyFingerprint\n"
    return {"Sticky.lean": body, "StickyFingerprint.lean": fp_body}
