"""C02: shapes of the parameter / result conversion layer -> lean/VgiVerif/Gen/C02.lean.

From vgi_rpc/rpc/_wire.py: the ordered `isinstance` dispatch of `_convert_for_arrow` with the conversion of each branch, the
ordered tests of `_deserialize_value` with what each returns, that both unwrap Optional / Annotated first, the None checks of
`_validate_params` / `_validate_result`, the default merge of `_send_request`, the per-column conversion of `_write_request`,
that the result path uses the same two functions.  From vgi_rpc/rpc/_types.py: whether `_build_params_schema` and
`_build_result_schema` unwrap `X | None` before the dataclass test.  (The scalar annotation -> Arrow table is extracted by
gen_c03 from `_infer_arrow_type`.)  Unrecognised constructs are emitted verbatim / as `false`, which breaks `C02_shapes`.
"""

from __future__ import annotations

import ast
import os
from pathlib import Path

REPO = Path(os.environ.get("VERIF_REPO", "/repo"))
PROPS = ["C02"]


def _func(tree: ast.AST, name: str) -> ast.FunctionDef:
    for n in ast.walk(tree):
        if isinstance(n, ast.FunctionDef) and n.name == name:
            return n
    raise LookupError(name)


def _lean_str(s: str) -> str:
    return '"' + s.replace("\\", "\\\\").replace('"', '\\"') + '"'


def _b(x: bool) -> str:
    return "true" if x else "false"


def _first_return(node: ast.AST) -> str:
    rets = [r for r in ast.walk(node) if isinstance(r, ast.Return) and r.value is not None]
    return ast.unparse(rets[-1].value) if rets else ""


def _lineno_of(fn: ast.FunctionDef, pred) -> int | None:  # type: ignore[no-untyped-def]
    for n in ast.walk(fn):
        if pred(n):
            return n.lineno
    return None


def _opt_first(fn: ast.FunctionDef, hint_name: str) -> bool:
    """`_is_optional_type(<hint>)` is evaluated before the dataclass test, and the test looks at the unwrapped annotation."""
    opt_line = _lineno_of(fn, lambda n: isinstance(n, ast.Assign) and isinstance(n.value, ast.Call) and ast.unparse(n.value) == f"_is_optional_type({hint_name})")
    base_ok = _lineno_of(fn, lambda n: isinstance(n, ast.Assign) and ast.unparse(n) == "base = _unwrap_annotated(inner)")
    test_line = _lineno_of(fn, lambda n: isinstance(n, ast.If) and ast.unparse(n.test) == "isinstance(base, type) and issubclass(base, ArrowSerializableDataclass)")
    return opt_line is not None and base_ok is not None and test_line is not None and opt_line < base_ok < test_line


def emit() -> dict[str, str]:
    wire = ast.parse((REPO / "vgi_rpc/rpc/_wire.py").read_text())
    types = ast.parse((REPO / "vgi_rpc/rpc/_types.py").read_text())

    conv = _func(wire, "_convert_for_arrow")
    conv_rows = []
    for n in conv.body:
        if isinstance(n, ast.If):
            t = ast.unparse(n.test)
            label = t[len("isinstance(val, "):-1] if t.startswith("isinstance(val, ") and t.endswith(")") else t
            conv_rows.append((label, _first_return(n)))
    conv_tail = ast.unparse(conv.body[-1]) if conv.body else ""
    if conv_tail != "return val":
        conv_rows.append(("<tail>", conv_tail))

    des = _func(wire, "_deserialize_value")
    des_rows = []
    labels = {
        "isinstance(base, type) and issubclass(base, ArrowSerializableDataclass)": "dataclass",
        "isinstance(base, type) and issubclass(base, Enum)": "Enum",
        "origin is dict and isinstance(value, list)": "dict",
        "origin is frozenset and isinstance(value, list)": "frozenset",
    }
    for n in des.body:
        if isinstance(n, ast.If):
            t = ast.unparse(n.test)
            des_rows.append((labels.get(t, t), _first_return(n)))
    stmts = [ast.unparse(x) for x in des.body if isinstance(x, ast.Assign)]
    if stmts[:2] == ["inner, _ = _is_optional_type(type_hint)", "base = _unwrap_annotated(inner)"]:
        des_order = "opt-then-ann"
    elif stmts[:1] == ["base, _ = _is_optional_type(_unwrap_annotated(type_hint))"]:
        des_order = "ann-then-opt"
    else:
        des_order = "unrecognised: " + " ; ".join(stmts[:2])
    des_unwraps = des_order == "opt-then-ann"

    params_opt_first = _opt_first(_func(types, "_build_params_schema"), "hint")
    result_opt_first = _opt_first(_func(types, "_build_result_schema"), "result_type")

    def rejects_none(fn: ast.FunctionDef) -> bool:
        for n in ast.walk(fn):
            if isinstance(n, ast.If) and ast.unparse(n.test) == "not is_nullable":
                return any(isinstance(r, ast.Raise) and r.exc is not None and ast.unparse(r.exc).startswith("TypeError(") for r in ast.walk(n))
        return False

    vp = rejects_none(_func(wire, "_validate_params"))
    vr = rejects_none(_func(wire, "_validate_result"))

    send = _func(wire, "_send_request")
    send_src = [ast.unparse(x) for x in send.body]
    merge_ok = "merged = {**info.param_defaults, **kwargs}" in send_src
    if merge_ok:
        i = send_src.index("merged = {**info.param_defaults, **kwargs}")
        rest = send_src[i + 1:]
        merge_ok = any(r == "_validate_params(info.name, merged, info.param_types)" for r in rest) and any(
            r.startswith("_write_request(writer, info.name, info.params_schema, merged") for r in rest)

    wr = _func(wire, "_write_request")
    wr_ok = False
    for n in ast.walk(wr):
        if isinstance(n, ast.For) and ast.unparse(n.iter) == "params_schema":
            body = [ast.unparse(x) for x in n.body]
            wr_ok = body == ["val = _convert_for_arrow(kwargs.get(f.name))", "arrays.append(pa.array([val], type=f.type))"]

    brb = _func(wire, "_build_result_batch")
    brb_src = ast.unparse(brb)
    rur = ast.unparse(_func(wire, "_read_unary_response"))
    dp = ast.unparse(_func(wire, "_deserialize_params"))
    same = ("wire_value = _convert_for_arrow(value)" in brb_src and "pa.array([wire_value], type=result_schema.field(0).type)" in brb_src
            and "_deserialize_value(value, info.result_type, reader.ipc_validation)" in rur
            and "kwargs[name] = _deserialize_value(value, ptype, ipc_validation)" in dp)

    def rows(rs: list[tuple[str, str]]) -> str:
        return ", ".join(f"({_lean_str(a)}, {_lean_str(b)})" for a, b in rs)

    body = f"""namespace VgiVerif.Gen.C02

/-- order of the `isinstance` tests in `_convert_for_arrow` with the conversion each applies -/
def convertBranches : List (String × String) := [{rows(conv_rows)}]
/-- order of the tests in `_deserialize_value` with what each returns -/
def deserializeBranches : List (String × String) := [{rows(des_rows)}]
/-- `_deserialize_value` unwraps `X | None` and `Annotated[...]` before testing -/
def deserializeUnwrapsOptional : Bool := {_b(des_unwraps)}
/-- the order in which `_deserialize_value` peels the hint: "opt-then-ann" (`X | None` first, then `Annotated[...]`, one layer
each) or "ann-then-opt" -/
def deserializeOrder : String := {_lean_str(des_order)}
/-- `_build_params_schema` / `_build_result_schema` unwrap `X | None` before the dataclass test (binary column) -/
def paramsOptFirst : Bool := {_b(params_opt_first)}
def resultOptFirst : Bool := {_b(result_opt_first)}
/-- `_validate_params` / `_validate_result` raise `TypeError` for `None` where the annotation is not Optional -/
def validateParamsRejectsNone : Bool := {_b(vp)}
def validateResultRejectsNone : Bool := {_b(vr)}
/-- `_send_request`: `merged = {{**info.param_defaults, **kwargs}}` (explicit arguments win), validated, then written -/
def mergeDefaultsFirst : Bool := {_b(merge_ok)}
/-- `_write_request` fills every schema column from `kwargs.get(f.name)` through `_convert_for_arrow` -/
def writeRequestConverts : Bool := {_b(wr_ok)}
/-- `_build_result_batch` and `_read_unary_response` convert / deserialize with the same two functions -/
def resultUsesSameConversions : Bool := {_b(same)}

end VgiVerif.Gen.C02
"""
    return {"C02.lean": body}
