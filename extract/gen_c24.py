"""C24: shapes of `require_all`, `chain_authenticate`'s constructor guard and `PreconditionGate` (vgi_rpc/http/_bearer.py),
plus the claim literals of the proxy-proof gate that `require_all` looks at (vgi_rpc/http/_proof.py).

Read from the source text with ``ast``.  Emits ``Gen/C24.lean``:

* ``gateRunsFirst``          – the first statement of ``require_all``'s closure is ``claims = gate(req)``;
* ``unverifiedAnonymous``    – whether the gate-only branch returns an anonymous context when the gate's claims say
                               it passed the request without verifying it, and the (key, value) literal it tests;
* ``gateOnlyAuthenticated``  – the ``authenticated=`` literal of the gate-only ``AuthContext(...)``;
* ``innerIdentityKept``      – the inner branch is ``ctx = inner(req)`` … ``dataclasses.replace(ctx, claims=merged)``;
* ``requireAllTypeGuard`` / ``chainGateGuard`` / ``chainEmptyGuard`` – the constructor-time guards;
* ``chainSwallows``          – exception classes the chain's loop catches;
* the ``"verified"`` literals of the gate's success and allow-mode-failure claims.
"""

from __future__ import annotations

import ast
import os
from pathlib import Path

from .regex_to_lean import Unsupported, lean_str

REPO = Path(os.environ.get("VERIF_REPO", "/repo"))
PROPS = ["C24"]


def _func(tree: ast.AST, name: str) -> ast.FunctionDef:
    for n in ast.walk(tree):
        if isinstance(n, ast.FunctionDef) and n.name == name:
            return n
    raise Unsupported(f"function {name} not found")


def _kw(call: ast.Call, name: str) -> ast.expr | None:
    for k in call.keywords:
        if k.arg == name:
            return k.value
    return None


def _is_authctx(node: ast.AST) -> bool:
    return isinstance(node, ast.Call) and isinstance(node.func, ast.Name) and node.func.id == "AuthContext"


def emit() -> dict[str, str]:
    btree = ast.parse((REPO / "vgi_rpc/http/_bearer.py").read_text())

    # ---- require_all ---------------------------------------------------------------------------
    ra = _func(btree, "require_all")
    type_guard = any(
        isinstance(s, ast.If) and ast.unparse(s.test) == "not isinstance(gate, PreconditionGate)"
        and any(isinstance(b, ast.Raise) and "TypeError" in ast.unparse(b) for b in s.body)
        for s in ra.body
    )
    auth = _func(ra, "authenticate")
    body = [s for s in auth.body if not (isinstance(s, ast.Expr) and isinstance(s.value, ast.Constant))]
    gate_first = bool(body) and ast.unparse(body[0]) == "claims = gate(req)"
    if len(body) < 2 or not (isinstance(body[1], ast.If) and ast.unparse(body[1].test) == "inner is None"):
        raise Unsupported("require_all: expected `if inner is None:` after the gate call")
    gate_only = body[1].body
    unverified = False
    test_key, test_val = "", ""
    anon_ok = False
    final_ctx = None
    for st in gate_only:
        if isinstance(st, ast.If):
            t = st.test
            if (
                isinstance(t, ast.Compare) and len(t.ops) == 1 and isinstance(t.ops[0], ast.Eq)
                and isinstance(t.left, ast.Call) and ast.unparse(t.left.func) == "claims.get"
                and len(t.left.args) == 1 and isinstance(t.left.args[0], ast.Constant)
                and isinstance(t.comparators[0], ast.Constant)
                and len(st.body) == 1 and isinstance(st.body[0], ast.Return) and _is_authctx(st.body[0].value)
            ):
                call = st.body[0].value
                dom, au, pr, cl = _kw(call, "domain"), _kw(call, "authenticated"), _kw(call, "principal"), _kw(call, "claims")
                anon_ok = (
                    isinstance(dom, ast.Constant) and dom.value is None
                    and isinstance(au, ast.Constant) and au.value is False
                    and (pr is None or (isinstance(pr, ast.Constant) and pr.value is None))
                    and cl is not None and ast.unparse(cl) == "{gate.claims_key: claims}"
                )
                if not anon_ok:
                    raise Unsupported(f"require_all: unverified branch does not build an anonymous context: {ast.unparse(call)}")
                unverified = True
                test_key, test_val = t.left.args[0].value, t.comparators[0].value
            else:
                raise Unsupported(f"require_all: unrecognised statement in the gate-only branch: {ast.unparse(st)[:80]}")
        elif isinstance(st, ast.Return) and _is_authctx(st.value):
            final_ctx = st.value
        elif isinstance(st, ast.Expr) and isinstance(st.value, ast.Constant):
            continue
        else:
            raise Unsupported(f"require_all: unrecognised statement in the gate-only branch: {ast.unparse(st)[:80]}")
    if final_ctx is None:
        raise Unsupported("require_all: gate-only AuthContext(...) not found")
    au = _kw(final_ctx, "authenticated")
    if not (isinstance(au, ast.Constant) and isinstance(au.value, bool)):
        raise Unsupported("require_all: gate-only `authenticated=` is not a literal")
    gate_only_auth = au.value
    if ast.unparse(_kw(final_ctx, "domain")) != "gate.name" or ast.unparse(_kw(final_ctx, "principal")) != "claims.get('proxy')" \
            or ast.unparse(_kw(final_ctx, "claims")) != "{gate.claims_key: claims}":
        raise Unsupported(f"require_all: gate-only context changed shape: {ast.unparse(final_ctx)}")
    rest = [ast.unparse(s) for s in body[2:]]
    inner_kept = rest == ["ctx = inner(req)", "merged = dict(ctx.claims)", "merged[gate.claims_key] = claims",
                          "return dataclasses.replace(ctx, claims=merged)"]
    if not inner_kept:
        raise Unsupported(f"require_all: inner branch changed shape: {rest}")

    # ---- chain_authenticate ----------------------------------------------------------------------
    ch = _func(btree, "chain_authenticate")
    empty_guard = any(isinstance(s, ast.If) and ast.unparse(s.test) == "not authenticators"
                      and any(isinstance(b, ast.Raise) and "ValueError" in ast.unparse(b) for b in s.body) for s in ch.body)
    gate_guard = False
    for s in ch.body:
        if isinstance(s, ast.For) and ast.unparse(s.iter) == "authenticators":
            for b in s.body:
                if isinstance(b, ast.If) and ast.unparse(b.test) == "isinstance(auth_fn, PreconditionGate)" \
                        and any(isinstance(x, ast.Raise) and ast.unparse(x).startswith("raise TypeError") for x in b.body):
                    gate_guard = True
    cauth = _func(ch, "authenticate")
    swallows: list[str] = []
    for n in ast.walk(cauth):
        if isinstance(n, ast.Try):
            for h in n.handlers:
                if h.type is None:
                    swallows.append("BaseException")
                elif isinstance(h.type, ast.Tuple):
                    swallows += [ast.unparse(e) for e in h.type.elts]
                else:
                    swallows.append(ast.unparse(h.type))

    # ---- the proxy-proof gate's claim literals -----------------------------------------------------
    ptree = ast.parse((REPO / "vgi_rpc/http/_proof.py").read_text())

    def verified_literal(fn: ast.FunctionDef, only_direct: bool) -> list[str]:
        out = []
        for n in ast.walk(fn):
            if isinstance(n, ast.Return) and isinstance(n.value, ast.Dict):
                for k, v in zip(n.value.keys, n.value.values):
                    if isinstance(k, ast.Constant) and k.value == "verified" and isinstance(v, ast.Constant):
                        out.append(v.value)
        return out

    ok_lit = verified_literal(_func(ptree, "verify_proof"), True)
    gate_fn = _func(_func(ptree, "proxy_proof_gate"), "gate")
    fail_lit = verified_literal(gate_fn, True)
    if len(ok_lit) != 1 or len(fail_lit) != 1:
        raise Unsupported(f"proxy-proof claims: expected one 'verified' literal each, got {ok_lit} / {fail_lit}")
    consts = {n.targets[0].id: n.value for n in ptree.body if isinstance(n, ast.Assign) and isinstance(n.targets[0], ast.Name)}
    gate_name = consts["GATE_NAME"].value
    claims_key = consts["CLAIMS_KEY"].value

    def b(x: bool) -> str:
        return "true" if x else "false"

    text = f"""namespace VgiVerif.Gen.C24

/-- `require_all`: `if not isinstance(gate, PreconditionGate): raise TypeError` -/
def requireAllTypeGuard : Bool := {b(type_guard)}
/-- the closure's first statement is `claims = gate(req)` -/
def gateRunsFirst : Bool := {b(gate_first)}
/-- gate-only branch: `if claims.get(<key>) == <value>: return AuthContext(domain=None, authenticated=False, claims=…)` present -/
def unverifiedAnonymous : Bool := {b(unverified)}
def unverifiedKey : List Char := {lean_str(test_key)}
def unverifiedValue : List Char := {lean_str(test_val)}
/-- `authenticated=` of the gate-only `AuthContext(domain=gate.name, …, principal=claims.get("proxy"), …)` -/
def gateOnlyAuthenticated : Bool := {b(gate_only_auth)}
/-- inner branch: `ctx = inner(req)` … `dataclasses.replace(ctx, claims=merged)` -/
def innerIdentityKept : Bool := {b(inner_kept)}

/-- `chain_authenticate`: `if not authenticators: raise ValueError` / `isinstance(auth_fn, PreconditionGate) → raise TypeError` -/
def chainEmptyGuard : Bool := {b(empty_guard)}
def chainGateGuard : Bool := {b(gate_guard)}
/-- exception classes the chain's loop catches (everything else propagates) -/
def chainSwallows : List String := [{", ".join(f'"{s}"' for s in swallows)}]

/-- `"verified"` in `verify_proof`'s returned claims and in the gate's allow-mode failure claims -/
def okVerified : List Char := {lean_str(ok_lit[0])}
def failVerified : List Char := {lean_str(fail_lit[0])}
/-- `GATE_NAME`, `CLAIMS_KEY` -/
def gateName : List Char := {lean_str(gate_name)}
def claimsKey : List Char := {lean_str(claims_key)}

end VgiVerif.Gen.C24
"""
    return {"C24.lean": text}
