"""C34: the access-log schema and the *shapes* of the code that builds, fills and formats an access-log record.

Emits ``Gen/C34.lean``:

from ``vgi_rpc/access_log.schema.json``
  * ``Key``            one constructor per declared property (+ ``Key.name`` / ``Key.all``);
  * ``schema``         ``required``, the per-property atomic keywords, and the ``allOf`` formulas, as a
                       ``VgiVerif.JsonSchema.Schema Key`` term (``oneOf`` of distinct ``const``s becomes ``enum``);

from ``vgi_rpc/rpc/_server.py``
  * ``msgLimit``       ``_truncate_error_message``: ``none`` when it returns ``str(exc)``, ``some n`` when it slices ``[:n]``;
  * ``emptyFallback``  ``_emit_access_log``: the last-resort literal of ``if status == "error" and not error_message:
                       error_message = error_type or <literal>`` (``none`` when that statement is missing or comes after the
                       ``if error_message: extra["error_message"] = …`` guard);
  * ``emitBase`` / ``emitCond``   keys of the ``extra`` dict literal / keys stored by later ``extra[k] = …`` statements;
  * ``emitOnce``       the function hands the record over exactly once: one ``sink.append`` and one ``_access_logger.info``
                       in the two arms of one ``if``;
  * ``pipeViaHelper``  every ``error_message = …`` of ``_serve_unary`` / ``_serve_stream`` is ``str(exc)`` (false) or the
                       helper (true); a mixture or anything else fails the extraction;

from ``vgi_rpc/http/server/_middleware.py``
  * ``egressCond`` / ``egressOnce``   keys ``_AccessLogEgressMiddleware.process_response`` stores into each sink entry; it logs
                       each entry exactly once (one ``_access_logger.info`` in the single loop over the sink);

from ``vgi_rpc/http/server/_app_stream.py`` / ``_app_unary.py`` / ``_resources.py``
  * ``httpMsgHelper``  every access-log ``error_message`` there is ``_truncate_error_message(<exception>)``;
  * ``okStatus`` and the ``http_status`` each error path stores into its outcome (``none`` = the path leaves the default):
    ``initRaise``, ``exchangeInitFail``, ``exchangeOvershoot``, ``producerTurn``, ``unaryErr``, and — one per error path of
    ``_run_http_exchange_turn``, told apart by the call the path's ``try`` guards — ``exchangeResolve``
    (``resolve_external_location``), ``exchangeCoerce`` (``_coerce_input_batch``), ``exchangeRaise`` (``state.process``);
    an error path guarding none of these fails the extraction;
  * ``telemetryOnce``  ``_dispatch_telemetry`` emits in the ``finally`` of its only ``try`` and nowhere else;
  * ``sidAtInit`` / ``sidOnHit`` / ``sidOnMiss``   ``_current_stream_id`` is published by ``/init`` before its telemetry shell and by
    ``_unpack_and_recover_state`` on the cache-hit / cache-miss path of the call-state cache lookup;

from ``vgi_rpc/logging_utils.py`` (``VgiAccessLogFormatter.format``)
  * ``sentinelBase`` / ``sentinelCond``   keys of the sentinel dict literal / keys stored afterwards;
  * ``shedOrder``      the order in which ``request_data`` and ``claims`` are shed;
  * ``sentinelErrFallback``   the literal used when an error record reaches the sentinel without a usable message;
  * ``refusedEmits``   ``_run_stream_exchange_sync`` enters a telemetry shell / calls ``_emit_access_log`` before
                       ``_unpack_and_recover_state`` has returned, or inside an ``except`` handler (a refused continuation is logged);
  * ``jsonAsciiOnly``  no ``json.dumps`` reached by ``VgiJsonFormatter.format`` / ``VgiAccessLogFormatter.format`` (directly, through
                       ``_encoded_len`` or a module-level helper) passes ``ensure_ascii=False``.

Anything outside the recognised shapes raises (extraction fails loudly).
"""

from __future__ import annotations

import ast
import json
import os
import re
from http import HTTPStatus
from pathlib import Path

from .regex_to_lean import Unsupported, lean_str

REPO = Path(os.environ.get("VERIF_REPO", "/repo"))
PROPS = ["C34"]

LEAN_KEYWORDS = {
    "at", "by", "do", "else", "end", "example", "from", "fun", "have", "if", "in", "let", "match", "mut", "namespace",
    "open", "section", "show", "then", "theorem", "def", "where", "with", "instance", "structure", "class", "import",
    "universe", "variable", "private", "protected", "Type", "Prop", "Sort", "return", "for", "unless", "try", "catch",
}

PATTERNS = {
    r"^[A-Za-z0-9+/]+={0,2}$": ".base64",
    r"^[0-9]{4}-[0-9]{2}-[0-9]{2}T[0-9]{2}:[0-9]{2}:[0-9]{2}\.[0-9]{3}Z$": ".timestamp",
}
IGNORED_KEYWORDS = {"description", "title", "$schema", "$id", "$comment"}


# ----------------------------------------------------------------------------------------------- schema


def _jv(v: object) -> str:
    if isinstance(v, bool):
        return f"(.bool {'true' if v else 'false'})"
    if isinstance(v, str):
        return f"(.str {lean_str(v)})"
    if isinstance(v, int):
        return f"(.int {_int(v)})"
    if v is None:
        return ".null"
    raise Unsupported(f"constant {v!r}")


def _int(n: object) -> str:
    if isinstance(n, bool) or not isinstance(n, int):
        if isinstance(n, float) and n == int(n):
            n = int(n)
        else:
            raise Unsupported(f"non-integer bound {n!r}")
    return f"({n})" if n < 0 else str(n)


def _pattern(src: str) -> str:
    if src in PATTERNS:
        return PATTERNS[src]
    m = re.fullmatch(r"\^\[0-9a-f\]\{(\d+)\}\$", src)
    if m:
        return f"(.hexLen {int(m.group(1))})"
    raise Unsupported(f"pattern {src!r}")


def _atoms(s: dict[str, object], where: str) -> list[str]:
    """A property schema as a conjunction of atomic keywords."""
    out: list[str] = []
    for k, v in s.items():
        if k in IGNORED_KEYWORDS:
            continue
        if k == "type":
            if v not in ("string", "boolean", "number", "integer", "object"):
                raise Unsupported(f"{where}: type {v!r}")
            out.append(f".type .{v}")
        elif k == "const":
            out.append(f".const {_jv(v)}")
        elif k == "enum":
            assert isinstance(v, list)
            out.append(".enum [" + ", ".join(_jv(x) for x in v) + "]")
        elif k == "oneOf":
            assert isinstance(v, list)
            consts = []
            for alt in v:
                if not (isinstance(alt, dict) and set(alt) - IGNORED_KEYWORDS == {"const"}):
                    raise Unsupported(f"{where}: oneOf of something else than consts")
                consts.append(alt["const"])
            if len({json.dumps(c) for c in consts}) != len(consts):
                raise Unsupported(f"{where}: oneOf consts not distinct")
            out.append(".enum [" + ", ".join(_jv(x) for x in consts) + "]")
        elif k == "minLength":
            out.append(f".minLength {_int(v)}")
        elif k == "minimum":
            out.append(f".minimum {_int(v)}")
        elif k == "maximum":
            out.append(f".maximum {_int(v)}")
        elif k == "exclusiveMinimum":
            out.append(f".exclusiveMinimum {_int(v)}")
        elif k == "pattern":
            assert isinstance(v, str)
            out.append(f".pattern {_pattern(v)}")
        else:
            raise Unsupported(f"{where}: keyword {k!r}")
    return out


def _conj(parts: list[str]) -> str:
    if not parts:
        return ".tt"
    out = parts[-1]
    for p in reversed(parts[:-1]):
        out = f"(.and {p} {out})"
    return out


def _disj(parts: list[str]) -> str:
    if not parts:
        raise Unsupported("empty anyOf")
    out = parts[-1]
    for p in reversed(parts[:-1]):
        out = f"(.or {p} {out})"
    return out


def _formula(s: dict[str, object], keys: set[str], where: str) -> str:
    """One schema object of the allOf section as a formula."""
    parts: list[str] = []
    has_if = "if" in s
    for k, v in s.items():
        if k in IGNORED_KEYWORDS or k in ("then",):
            continue
        if k == "required":
            assert isinstance(v, list)
            for name in v:
                if name not in keys:
                    raise Unsupported(f"{where}: required key {name!r} is not a declared property")
                parts.append(f"(.req .{name})")
        elif k == "properties":
            assert isinstance(v, dict)
            for name, ps in v.items():
                if name not in keys:
                    raise Unsupported(f"{where}: property {name!r} is not declared")
                for a in _atoms(ps, f"{where}.{name}"):
                    parts.append(f"(.holds .{name} ({a}))")
        elif k == "not":
            assert isinstance(v, dict)
            parts.append(f"(.not {_formula(v, keys, where + '.not')})")
        elif k == "anyOf":
            assert isinstance(v, list)
            parts.append(_disj([_formula(x, keys, f"{where}.anyOf[{i}]") for i, x in enumerate(v)]))
        elif k == "allOf":
            assert isinstance(v, list)
            parts.append(_conj([_formula(x, keys, f"{where}.allOf[{i}]") for i, x in enumerate(v)]))
        elif k == "if":
            assert isinstance(v, dict)
            then = s.get("then")
            if not isinstance(then, dict) or "else" in s:
                raise Unsupported(f"{where}: if without then / with else")
            parts.append(f"(.imp {_formula(v, keys, where + '.if')} {_formula(then, keys, where + '.then')})")
        elif k == "else":
            raise Unsupported(f"{where}: else")
        else:
            raise Unsupported(f"{where}: keyword {k!r}")
    if "then" in s and not has_if:
        raise Unsupported(f"{where}: then without if")
    return _conj(parts)


def schema_text() -> tuple[str, list[str]]:
    s = json.loads((REPO / "vgi_rpc" / "access_log.schema.json").read_text())
    if s.get("type") != "object" or s.get("additionalProperties") is not True:
        raise Unsupported("top level is not an open object schema")
    extra = set(s) - IGNORED_KEYWORDS - {"type", "additionalProperties", "required", "properties", "allOf"}
    if extra:
        raise Unsupported(f"top-level keywords {sorted(extra)}")
    props: dict[str, dict[str, object]] = s["properties"]
    names = list(props)
    for n in names:
        if not re.fullmatch(r"[a-z][a-z0-9_]*", n) or n in LEAN_KEYWORDS:
            raise Unsupported(f"property name {n!r} cannot be a constructor")
    keys = set(names)
    for r in s["required"]:
        if r not in keys:
            raise Unsupported(f"required key {r!r} is not a declared property")
    lines = ["inductive Key where"]
    lines += [f"  | {n}" for n in names]
    lines += ["deriving Repr, DecidableEq", ""]
    lines += ["def Key.all : List Key := [" + ", ".join(f".{n}" for n in names) + "]", ""]
    lines += ["def Key.name : Key → String"]
    lines += [f'  | .{n} => "{n}"' for n in names]
    lines += [""]
    lines += ["def schema : Schema Key where"]
    lines += ["  required := [" + ", ".join(f".{n}" for n in s["required"]) + "]"]
    lines += ["  props := ["]
    plines = []
    for n in names:
        plines.append(f"    (.{n}, [" + ", ".join(_atoms(props[n], n)) + "])")
    lines += [",\n".join(plines) + "]"]
    lines += ["  conds := ["]
    lines += [",\n".join("    " + _formula(c, keys, f"allOf[{i}]") for i, c in enumerate(s.get("allOf", []))) + "]"]
    return "\n".join(lines), names


# ----------------------------------------------------------------------------------------------- source shapes


def _parse(rel: str) -> ast.Module:
    return ast.parse((REPO / rel).read_text())


def _func(tree: ast.AST, name: str) -> ast.FunctionDef:
    for n in ast.walk(tree):
        if isinstance(n, ast.FunctionDef) and n.name == name:
            return n
    raise Unsupported(f"function {name} not found")


def _strip_doc(body: list[ast.stmt]) -> list[ast.stmt]:
    if body and isinstance(body[0], ast.Expr) and isinstance(body[0].value, ast.Constant) and isinstance(body[0].value.value, str):
        return body[1:]
    return body


def _is_str_of(node: ast.expr, name: str | None = None) -> bool:
    return (isinstance(node, ast.Call) and isinstance(node.func, ast.Name) and node.func.id == "str" and len(node.args) == 1
            and not node.keywords and isinstance(node.args[0], ast.Name) and (name is None or node.args[0].id == name))


def msg_limit(tree: ast.Module) -> int | None:
    """``_truncate_error_message``: ``if exc is None: return ""`` then ``return str(exc)`` / ``return str(exc)[:limit]``."""
    f = _func(tree, "_truncate_error_message")
    body = _strip_doc(f.body)
    if len(body) != 2 or not isinstance(body[0], ast.If) or not isinstance(body[1], ast.Return):
        raise Unsupported("_truncate_error_message: body shape")
    arg = f.args.args[0].arg
    t = body[0].test
    if not (isinstance(t, ast.Compare) and isinstance(t.left, ast.Name) and t.left.id == arg and len(t.ops) == 1
            and isinstance(t.ops[0], ast.Is) and isinstance(t.comparators[0], ast.Constant) and t.comparators[0].value is None):
        raise Unsupported("_truncate_error_message: guard")
    r0 = body[0].body
    if not (len(r0) == 1 and isinstance(r0[0], ast.Return) and isinstance(r0[0].value, ast.Constant) and r0[0].value.value == ""):
        raise Unsupported("_truncate_error_message: None branch")
    v = body[1].value
    assert v is not None
    if _is_str_of(v, arg):
        return None
    if isinstance(v, ast.Subscript) and _is_str_of(v.value, arg) and isinstance(v.slice, ast.Slice) and v.slice.lower is None \
            and v.slice.step is None and v.slice.upper is not None:
        up = v.slice.upper
        if isinstance(up, ast.Constant) and isinstance(up.value, int):
            return up.value
        if isinstance(up, ast.Name):
            # a parameter with a default, or a module constant
            params = [a.arg for a in f.args.args]
            if up.id in params:
                i = params.index(up.id) - (len(params) - len(f.args.defaults))
                if i < 0:
                    raise Unsupported("_truncate_error_message: limit has no default")
                d = f.args.defaults[i]
                if isinstance(d, ast.Constant) and isinstance(d.value, int):
                    return d.value
                if isinstance(d, ast.Name):
                    return _module_int(tree, d.id)
            return _module_int(tree, up.id)
    raise Unsupported("_truncate_error_message: return shape")


def _module_int(tree: ast.Module, name: str) -> int:
    for n in tree.body:
        if isinstance(n, ast.Assign) and len(n.targets) == 1 and isinstance(n.targets[0], ast.Name) and n.targets[0].id == name \
                and isinstance(n.value, ast.Constant) and isinstance(n.value.value, int):
            return n.value.value
    raise Unsupported(f"module constant {name}")


def _subscript_key(t: ast.expr, var: str) -> str | None:
    if isinstance(t, ast.Subscript) and isinstance(t.value, ast.Name) and t.value.id == var \
            and isinstance(t.slice, ast.Constant) and isinstance(t.slice.value, str):
        return t.slice.value
    return None


def _dict_literal_keys(f: ast.FunctionDef, var: str) -> list[str]:
    for n in ast.walk(f):
        tgt = None
        if isinstance(n, ast.AnnAssign) and isinstance(n.target, ast.Name):
            tgt, val = n.target.id, n.value
        elif isinstance(n, ast.Assign) and len(n.targets) == 1 and isinstance(n.targets[0], ast.Name):
            tgt, val = n.targets[0].id, n.value
        if tgt == var and isinstance(val, ast.Dict):
            ks = []
            for k in val.keys:
                if not (isinstance(k, ast.Constant) and isinstance(k.value, str)):
                    raise Unsupported(f"{f.name}: {var} literal has a computed key")
                ks.append(k.value)
            return ks
    raise Unsupported(f"{f.name}: dict literal {var} not found")


def _stored_keys(f: ast.FunctionDef, var: str) -> list[str]:
    out: list[str] = []
    for n in ast.walk(f):
        if isinstance(n, ast.Assign):
            for t in n.targets:
                k = _subscript_key(t, var)
                if k is not None:
                    out.append((n.lineno, k))  # type: ignore[arg-type]
    out.sort()  # type: ignore[call-overload]
    seen: list[str] = []
    for _, k in out:  # type: ignore[misc]
        if k not in seen:
            seen.append(k)
    return seen


def emit_shape(tree: ast.Module) -> dict[str, object]:
    f = _func(tree, "_emit_access_log")
    base = _dict_literal_keys(f, "extra")
    cond = [k for k in _stored_keys(f, "extra") if k not in base]
    # fallback + guard, in statement order inside the try body
    fb: str | None = None
    fb_line = guard_line = None
    for n in ast.walk(f):
        if not isinstance(n, ast.If):
            continue
        t = n.test
        if (isinstance(t, ast.BoolOp) and isinstance(t.op, ast.And) and len(t.values) == 2
                and isinstance(t.values[0], ast.Compare) and isinstance(t.values[0].left, ast.Name) and t.values[0].left.id == "status"
                and len(t.values[0].ops) == 1 and isinstance(t.values[0].ops[0], ast.Eq)
                and isinstance(t.values[0].comparators[0], ast.Constant) and t.values[0].comparators[0].value == "error"
                and isinstance(t.values[1], ast.UnaryOp) and isinstance(t.values[1].op, ast.Not)
                and isinstance(t.values[1].operand, ast.Name) and t.values[1].operand.id == "error_message"
                and len(n.body) == 1 and not n.orelse and isinstance(n.body[0], ast.Assign)
                and isinstance(n.body[0].targets[0], ast.Name) and n.body[0].targets[0].id == "error_message"):
            v = n.body[0].value
            if (isinstance(v, ast.BoolOp) and isinstance(v.op, ast.Or) and len(v.values) == 2 and isinstance(v.values[0], ast.Name)
                    and v.values[0].id == "error_type" and isinstance(v.values[1], ast.Constant)
                    and isinstance(v.values[1].value, str) and v.values[1].value):
                fb, fb_line = v.values[1].value, n.lineno
            else:
                raise Unsupported("_emit_access_log: fallback value shape")
        if isinstance(t, ast.Name) and t.id == "error_message" and len(n.body) == 1 and not n.orelse \
                and isinstance(n.body[0], ast.Assign) and _subscript_key(n.body[0].targets[0], "extra") == "error_message" \
                and isinstance(n.body[0].value, ast.Name) and n.body[0].value.id == "error_message":
            guard_line = n.lineno
    if guard_line is None:
        raise Unsupported('_emit_access_log: `if error_message: extra["error_message"] = error_message` not found')
    if fb is not None and not (fb_line is not None and fb_line < guard_line):
        fb = None
    # cancelled guard
    ok_cancel = False
    for n in ast.walk(f):
        if isinstance(n, ast.If) and isinstance(n.test, ast.Name) and n.test.id == "cancelled" and len(n.body) == 1 \
                and isinstance(n.body[0], ast.Assign) and _subscript_key(n.body[0].targets[0], "extra") == "cancelled" \
                and isinstance(n.body[0].value, ast.Constant) and n.body[0].value.value is True:
            ok_cancel = True
    if not ok_cancel:
        raise Unsupported("_emit_access_log: cancelled guard")
    # exactly one hand-over
    once = False
    n_info = n_append = 0
    for n in ast.walk(f):
        if isinstance(n, ast.Call) and isinstance(n.func, ast.Attribute):
            if n.func.attr == "info" and isinstance(n.func.value, ast.Name) and n.func.value.id == "_access_logger":
                n_info += 1
            if n.func.attr == "append" and isinstance(n.func.value, ast.Name) and n.func.value.id == "sink":
                n_append += 1
    for n in ast.walk(f):
        if isinstance(n, ast.If) and len(n.body) == 1 and len(n.orelse) == 1:
            b, o = n.body[0], n.orelse[0]
            if (isinstance(b, ast.Expr) and isinstance(b.value, ast.Call) and isinstance(b.value.func, ast.Attribute)
                    and b.value.func.attr == "append" and isinstance(o, ast.Expr) and isinstance(o.value, ast.Call)
                    and isinstance(o.value.func, ast.Attribute) and o.value.func.attr == "info"):
                once = n_info == 1 and n_append == 1
    return {"base": base, "cond": cond, "fallback": fb, "once": once}


def pipe_msg_shape(tree: ast.Module) -> bool:
    """True = every pipe site renders through the helper, False = every site is a plain ``str(exc)``; anything else fails."""
    kinds: set[str] = set()
    for fn in ("_serve_unary", "_serve_stream"):
        f = _func(tree, fn)
        for n in ast.walk(f):
            if isinstance(n, ast.Assign) and len(n.targets) == 1 and isinstance(n.targets[0], ast.Name) \
                    and n.targets[0].id == "error_message":
                v = n.value
                if isinstance(v, ast.Constant) and v.value == "":
                    continue
                if _is_str_of(v):
                    kinds.add("str")
                elif (isinstance(v, ast.Call) and isinstance(v.func, ast.Name) and v.func.id == "_truncate_error_message"
                      and len(v.args) == 1 and not v.keywords and isinstance(v.args[0], ast.Name)):
                    kinds.add("helper")
                else:
                    raise Unsupported(f"{fn}: error_message = {ast.unparse(v)}")
    if len(kinds) != 1:
        raise Unsupported(f"pipe sites: error_message sources {sorted(kinds)}")
    return kinds == {"helper"}


def egress_shape() -> dict[str, object]:
    """``_AccessLogEgressMiddleware.process_response``: ``for message, extra in sink:`` stores keys and logs once per entry."""
    tree = _parse("vgi_rpc/http/server/_middleware.py")
    cls = next((n for n in tree.body if isinstance(n, ast.ClassDef) and n.name == "_AccessLogEgressMiddleware"), None)
    if cls is None:
        raise Unsupported("_AccessLogEgressMiddleware not found")
    f = next((n for n in cls.body if isinstance(n, ast.FunctionDef) and n.name == "process_response"), None)
    if f is None:
        raise Unsupported("process_response not found")
    loops = [n for n in ast.walk(f) if isinstance(n, ast.For) and isinstance(n.iter, ast.Name) and n.iter.id == "sink"]
    infos = [n for n in ast.walk(f) if isinstance(n, ast.Call) and isinstance(n.func, ast.Attribute) and n.func.attr == "info"]
    once = False
    if len(loops) == 1 and len(infos) == 1:
        inner = [n for n in ast.walk(loops[0]) if n is infos[0]]
        nested = [n for n in ast.walk(loops[0]) if isinstance(n, (ast.For, ast.While)) and n is not loops[0]]
        once = bool(inner) and not nested
    return {"keys": _stored_keys(f, "extra"), "once": once}


def http_shapes() -> dict[str, object]:
    st = _parse("vgi_rpc/http/server/_app_stream.py")
    un = _parse("vgi_rpc/http/server/_app_unary.py")
    rs = _parse("vgi_rpc/http/server/_resources.py")
    helper_ok = True
    n_msgs = 0

    def is_helper(v: ast.expr) -> bool:
        return (isinstance(v, ast.Call) and isinstance(v.func, ast.Name) and v.func.id == "_truncate_error_message"
                and len(v.args) == 1 and not v.keywords and isinstance(v.args[0], ast.Name))

    for tree in (st, un, rs):
        for n in ast.walk(tree):
            if isinstance(n, ast.Assign) and len(n.targets) == 1 and isinstance(n.targets[0], ast.Attribute) \
                    and n.targets[0].attr == "error_message" and isinstance(n.targets[0].value, ast.Name) \
                    and n.targets[0].value.id == "outcome":
                n_msgs += 1
                helper_ok &= is_helper(n.value)
            if isinstance(n, ast.Call) and isinstance(n.func, ast.Name) and n.func.id == "_emit_access_log":
                for kw in n.keywords:
                    if kw.arg == "error_message":
                        n_msgs += 1
                        v = kw.value
                        via_outcome = isinstance(v, ast.Attribute) and v.attr == "error_message" and isinstance(v.value, ast.Name) \
                            and v.value.id == "outcome"
                        helper_ok &= is_helper(v) or via_outcome
    if n_msgs < 5:
        raise Unsupported("http sites: error_message sources not found")

    def status_name(v: ast.expr) -> int:
        if isinstance(v, ast.Attribute) and isinstance(v.value, ast.Name) and v.value.id == "HTTPStatus":
            return int(getattr(HTTPStatus, v.attr))
        raise Unsupported("http_status value is not HTTPStatus.X")

    def _called(stmts: list[ast.stmt]) -> set[str]:
        """Names of the functions / methods called anywhere in the statements."""
        out: set[str] = set()
        for s_ in stmts:
            for c in ast.walk(s_):
                if isinstance(c, ast.Call):
                    if isinstance(c.func, ast.Name):
                        out.add(c.func.id)
                    elif isinstance(c.func, ast.Attribute):
                        out.add(c.func.attr)
        return out

    def error_paths(fn: str) -> list[tuple[set[str], int | None]]:
        """Every error path of the function = a statement list that stores ``outcome.status = "error"``: the calls it guards
        (for an ``except`` handler: the calls of its ``try`` body; otherwise the calls of the block itself) and the
        http_status it stores (``None`` = it leaves the default)."""
        f = _func(st, fn)
        out: list[tuple[set[str], int | None]] = []

        def scan(blk: list[ast.stmt], guarded: list[ast.stmt]) -> None:
            sets_err = False
            hs: int | None = None
            for s_ in blk:
                if isinstance(s_, ast.Assign) and len(s_.targets) == 1 and isinstance(s_.targets[0], ast.Attribute) \
                        and isinstance(s_.targets[0].value, ast.Name) and s_.targets[0].value.id == "outcome":
                    if s_.targets[0].attr == "status" and isinstance(s_.value, ast.Constant) and s_.value.value == "error":
                        sets_err = True
                    if s_.targets[0].attr == "http_status":
                        hs = status_name(s_.value)
            if sets_err:
                out.append((_called(guarded), hs))

        for n in ast.walk(f):
            if isinstance(n, ast.Try):
                for h in n.handlers:
                    scan(h.body, n.body)
            for fld in ("body", "orelse", "finalbody"):
                blk = getattr(n, fld, None)
                if isinstance(blk, list) and blk and isinstance(blk[0], ast.stmt) and not isinstance(n, ast.ExceptHandler):
                    scan(blk, blk)
        if not out:
            raise Unsupported(f"{fn}: no error path")
        return out

    def path_status(fn: str, guards: str | None) -> int | None:
        """The http_status of the error path(s) of ``fn`` that guard a call of ``guards`` (``None``: of every path);
        several such paths must agree."""
        ps = error_paths(fn)
        sel = [hs for calls, hs in ps if guards is None or guards in calls]
        if not sel:
            raise Unsupported(f"{fn}: no error path guards {guards}()")
        if len(set(sel)) != 1:
            raise Unsupported(f"{fn}: error paths guarding {guards or 'anything'} disagree on http_status: {sel}")
        return sel[0]

    def other_paths(fn: str, known: tuple[str, ...]) -> None:
        """Every error path of ``fn`` must guard one of the known calls (a new kind of path fails the extraction)."""
        for calls, hs in error_paths(fn):
            if not any(k in calls for k in known):
                raise Unsupported(f"{fn}: unrecognised error path (http_status {hs}) guarding {sorted(calls)[:8]}")

    # default of _DispatchOutcome.http_status
    ok_status = None
    for n in ast.walk(st):
        if isinstance(n, ast.ClassDef) and n.name == "_DispatchOutcome":
            for s in n.body:
                if isinstance(s, ast.AnnAssign) and isinstance(s.target, ast.Name) and s.target.id == "http_status" and s.value is not None:
                    ok_status = status_name(s.value)
    if ok_status is None:
        raise Unsupported("_DispatchOutcome.http_status default")

    # unary: local http_status
    fu = _func(un, "_run_unary_sync")
    vals = []
    for n in ast.walk(fu):
        if isinstance(n, ast.Assign) and len(n.targets) == 1 and isinstance(n.targets[0], ast.Name) and n.targets[0].id == "http_status":
            vals.append((n.lineno, status_name(n.value)))
    vals.sort()
    if not vals or vals[0][1] != ok_status or len({v for _, v in vals[1:]}) != 1:
        raise Unsupported(f"_run_unary_sync: http_status assignments {vals}")

    # _dispatch_telemetry: one try/finally, the finally holds the only _emit_access_log
    ft = _func(st, "_dispatch_telemetry")
    calls = [n for n in ast.walk(ft) if isinstance(n, ast.Call) and isinstance(n.func, ast.Name) and n.func.id == "_emit_access_log"]
    outer = [s for s in ft.body if isinstance(s, ast.Try)]
    once = (len(calls) == 1 and len(outer) == 1 and any(c in list(ast.walk(ast.Module(body=outer[0].finalbody, type_ignores=[])))
                                                          for c in calls))
    other_paths("_run_http_exchange_turn", ("resolve_external_location", "_coerce_input_batch", "process"))
    return {
        "helper": helper_ok, "ok": ok_status,
        "initRaise": path_status("_run_stream_init_sync", None),
        "exchangeInitFail": path_status("_run_http_exchange_init", None),
        "exchangeResolve": path_status("_run_http_exchange_turn", "resolve_external_location"),
        "exchangeCoerce": path_status("_run_http_exchange_turn", "_coerce_input_batch"),
        "exchangeRaise": path_status("_run_http_exchange_turn", "process"),
        "exchangeOvershoot": path_status("_exchange_error_response", None),
        "producerTurn": path_status("_run_http_producer_turn", None),
        "unaryErr": vals[-1][1],
        "telemetryOnce": once,
    }


def sid_shape() -> dict[str, bool]:
    """Where the HTTP dispatch publishes ``_current_stream_id`` (what ``_emit_access_log`` reads for ``stream_id``).

    ``_unpack_and_recover_state`` looks the call up in the call-state cache: ``if resolved is None:`` (miss: cold worker,
    evicted or disabled cache — the call is resolved from the echoed call token) ``else:`` (hit).  A
    ``_current_stream_id.set(...)`` after that statement runs on both paths, one inside an arm only on that path.
    ``_run_stream_init_sync`` must publish the fresh id before it enters ``_dispatch_telemetry``."""
    st = _parse("vgi_rpc/http/server/_app_stream.py")
    f = _func(st, "_unpack_and_recover_state")

    def is_set(n: ast.AST) -> bool:
        return (isinstance(n, ast.Call) and isinstance(n.func, ast.Attribute) and n.func.attr == "set"
                and isinstance(n.func.value, ast.Name) and n.func.value.id == "_current_stream_id")

    def has_set(stmts: list[ast.stmt]) -> bool:
        return any(is_set(c) for s_ in stmts for c in ast.walk(s_))

    branch = None
    for i, s_ in enumerate(f.body):
        if isinstance(s_, ast.If):
            t = s_.test
            if (isinstance(t, ast.Compare) and isinstance(t.left, ast.Name) and t.left.id == "resolved" and len(t.ops) == 1
                    and isinstance(t.ops[0], ast.Is) and isinstance(t.comparators[0], ast.Constant) and t.comparators[0].value is None):
                branch = i
                break
    if branch is None:
        raise Unsupported("_unpack_and_recover_state: `if resolved is None:` (cache miss / hit) not found at the top level")
    node = f.body[branch]
    assert isinstance(node, ast.If)
    if has_set(f.body[:branch]):
        raise Unsupported("_unpack_and_recover_state: stream id published before the call is resolved")
    both = False
    for s_ in f.body[branch + 1:]:
        if has_set([s_]):
            # allowed shapes: the bare call, or `if resolved.stream_id: <call>` (a stream's id is never empty)
            ok = isinstance(s_, ast.Expr) or (isinstance(s_, ast.If) and not s_.orelse and isinstance(s_.test, ast.Attribute)
                                               and s_.test.attr == "stream_id")
            if not ok:
                raise Unsupported("_unpack_and_recover_state: stream id published under an unrecognised condition")
            both = True
    on_miss = both or has_set(node.body)
    on_hit = both or has_set(node.orelse)
    fi = _func(st, "_run_stream_init_sync")
    set_line = min((c.lineno for c in ast.walk(fi) if is_set(c)), default=None)
    with_line = min((n.lineno for n in ast.walk(fi) if isinstance(n, ast.With) and any(
        isinstance(it.context_expr, ast.Call) and isinstance(it.context_expr.func, ast.Name)
        and it.context_expr.func.id == "_dispatch_telemetry" for it in n.items)), default=None)
    if with_line is None:
        raise Unsupported("_run_stream_init_sync: `with _dispatch_telemetry(...)` not found")
    return {"miss": on_miss, "hit": on_hit, "init": set_line is not None and set_line < with_line}


def refused_shape() -> bool:
    """``_run_stream_exchange_sync``: does a continuation the worker *refuses* (cursor / call token that does not open, is
    expired, belongs to another method, names an unresolvable call — ``_unpack_and_recover_state`` raises) get an access-log
    record?  It does when a telemetry shell / ``_emit_access_log`` is entered before that call has returned or inside an
    ``except`` handler of the function (the stream id is not known at that point).  True = a record is emitted."""
    st = _parse("vgi_rpc/http/server/_app_stream.py")
    f = _func(st, "_run_stream_exchange_sync")
    unpack = [c.lineno for c in ast.walk(f) if isinstance(c, ast.Call) and isinstance(c.func, ast.Name) and c.func.id == "_unpack_and_recover_state"]
    if len(unpack) != 1:
        raise Unsupported(f"_run_stream_exchange_sync: {len(unpack)} calls of _unpack_and_recover_state")

    def emitters(node: ast.AST) -> list[ast.Call]:
        return [c for c in ast.walk(node) if isinstance(c, ast.Call) and isinstance(c.func, ast.Name)
                and c.func.id in ("_dispatch_telemetry", "_emit_access_log")]

    early = [c for c in emitters(f) if c.lineno <= unpack[0]]
    in_handlers = [c for h in ast.walk(f) if isinstance(h, ast.ExceptHandler) for c in emitters(h)]
    if not emitters(f):
        raise Unsupported("_run_stream_exchange_sync: no telemetry shell at all")
    return bool(early or in_handlers)


def json_ascii_only() -> bool:
    """Every ``json.dumps`` the two formatters reach (directly or through a module-level helper they call) escapes non-ASCII:
    no ``ensure_ascii=False``.  With ASCII-only output a record can only ever be one physical line, whatever a reader takes
    for a line boundary (``str.splitlines`` — used by the shipped validator — also splits on U+0085, U+2028, U+2029, …)."""
    tree = _parse("vgi_rpc/logging_utils.py")
    mod_funcs = {n.name: n for n in tree.body if isinstance(n, ast.FunctionDef)}

    def dumps_flags(fn: ast.FunctionDef, depth: int = 0) -> list[bool]:
        out: list[bool] = []
        for c in ast.walk(fn):
            if not isinstance(c, ast.Call):
                continue
            f = c.func
            if isinstance(f, ast.Attribute) and f.attr == "dumps" and isinstance(f.value, ast.Name) and f.value.id == "json":
                flag = True
                for kw in c.keywords:
                    if kw.arg is None:
                        raise Unsupported(f"{fn.name}: json.dumps(**kwargs)")
                    if kw.arg == "ensure_ascii":
                        if not (isinstance(kw.value, ast.Constant) and isinstance(kw.value.value, bool)):
                            raise Unsupported(f"{fn.name}: ensure_ascii is not a literal")
                        flag = kw.value.value
                out.append(flag)
            elif isinstance(f, ast.Name) and f.id in mod_funcs and depth < 3:
                out += dumps_flags(mod_funcs[f.id], depth + 1)
            elif isinstance(f, ast.Attribute) and isinstance(f.value, ast.Name) and f.value.id == "self" and depth < 3:
                for cls in tree.body:
                    if isinstance(cls, ast.ClassDef) and cls.name in ("VgiJsonFormatter", "VgiAccessLogFormatter"):
                        for m in cls.body:
                            if isinstance(m, ast.FunctionDef) and m.name == f.attr and m is not fn and m.name in ("_encoded_len",):
                                out += dumps_flags(m, depth + 1)
        return out

    flags: list[bool] = []
    for cname in ("VgiJsonFormatter", "VgiAccessLogFormatter"):
        cls = next((n for n in tree.body if isinstance(n, ast.ClassDef) and n.name == cname), None)
        if cls is None:
            raise Unsupported(f"{cname} not found")
        fmt = next((n for n in cls.body if isinstance(n, ast.FunctionDef) and n.name == "format"), None)
        if fmt is None:
            raise Unsupported(f"{cname}.format not found")
        got = dumps_flags(fmt)
        if not got:
            raise Unsupported(f"{cname}.format: no json.dumps call reached (another serialiser?)")
        flags += got
    return all(flags)


def formatter_shape() -> dict[str, object]:
    tree = _parse("vgi_rpc/logging_utils.py")
    cls = next((n for n in tree.body if isinstance(n, ast.ClassDef) and n.name == "VgiAccessLogFormatter"), None)
    if cls is None:
        raise Unsupported("VgiAccessLogFormatter not found")
    f = next((n for n in cls.body if isinstance(n, ast.FunctionDef) and n.name == "format"), None)
    if f is None:
        raise Unsupported("VgiAccessLogFormatter.format not found")
    base = _dict_literal_keys(f, "sentinel")
    cond = [k for k in _stored_keys(f, "sentinel") if k not in base]
    # shedding order
    order: list[tuple[int, str]] = []
    for n in ast.walk(f):
        if isinstance(n, ast.Delete):
            for t in n.targets:
                k = _subscript_key(t, "obj")
                if k is not None:
                    order.append((n.lineno, k))
        if isinstance(n, ast.Assign) and isinstance(n.value, ast.Dict) and not n.value.keys:
            k = _subscript_key(n.targets[0], "obj")
            if k is not None:
                order.append((n.lineno, k))
    order.sort()
    # error fallback literal: sentinel["error_message"] = err if … else "<literal>"
    fb = None
    for n in ast.walk(f):
        if isinstance(n, ast.Assign) and _subscript_key(n.targets[0], "sentinel") == "error_message" and isinstance(n.value, ast.IfExp) \
                and isinstance(n.value.orelse, ast.Constant) and isinstance(n.value.orelse.value, str) and n.value.orelse.value:
            fb = n.value.orelse.value
    if fb is None:
        raise Unsupported("sentinel error_message fallback")
    return {"base": base, "cond": cond, "order": [k for _, k in order], "fallback": fb}


# ----------------------------------------------------------------------------------------------- emit


def _keys(ks: list[str], names: list[str], where: str) -> str:
    for k in ks:
        if k not in names:
            raise Unsupported(f"{where}: key {k!r} is not a property of the schema")
    return "[" + ", ".join(f".{k}" for k in ks) + "]"


def _opt_nat(v: object) -> str:
    return "none" if v is None else f"(some {v})"


def emit() -> dict[str, str]:
    schema, names = schema_text()
    srv = _parse("vgi_rpc/rpc/_server.py")
    lim = msg_limit(srv)
    es = emit_shape(srv)
    hs = http_shapes()
    fs = formatter_shape()
    eg = egress_shape()
    sd = sid_shape()
    fb = es["fallback"]
    text = f"""import VgiVerif.Prelude.JsonSchema
namespace VgiVerif.Gen.C34
open VgiVerif.JsonSchema

/-! ## vgi_rpc/access_log.schema.json -/

{schema}

/-! ## vgi_rpc/rpc/_server.py -/

/-- `_truncate_error_message`: `none` = returns `str(exc)`; `some n` = returns `str(exc)[:n]` -/
def msgLimit : Option Nat := {_opt_nat(lim)}

/-- `_emit_access_log`: `if status == "error" and not error_message: error_message = error_type or <this>` (before the guard) -/
def emptyFallback : Option (List Char) := {"none" if fb is None else "(some " + lean_str(str(fb)) + ")"}

def emitBase : List Key := {_keys(list(es["base"]), names, "extra literal")}
def emitCond : List Key := {_keys(list(es["cond"]), names, "extra stores")}
def emitOnce : Bool := {"true" if es["once"] else "false"}
def pipeViaHelper : Bool := {"true" if pipe_msg_shape(srv) else "false"}

/-! ## vgi_rpc/http/server/_middleware.py — _AccessLogEgressMiddleware -/

def egressCond : List Key := {_keys(list(eg["keys"]), names, "egress stores")}
def egressOnce : Bool := {"true" if eg["once"] else "false"}

/-! ## vgi_rpc/http/server -/

def httpMsgHelper : Bool := {"true" if hs["helper"] else "false"}
def telemetryOnce : Bool := {"true" if hs["telemetryOnce"] else "false"}
def okStatus : Nat := {hs["ok"]}
def unaryErr : Nat := {hs["unaryErr"]}
def initRaise : Option Nat := {_opt_nat(hs["initRaise"])}
def exchangeInitFail : Option Nat := {_opt_nat(hs["exchangeInitFail"])}
/-- `_run_http_exchange_turn` has three error paths, told apart by the call their `try` guards: resolving an external
input pointer, coercing the input batch to the declared schema (the caller's fault), and `state.process()` + token mint +
flush (the method's fault) -/
def exchangeResolve : Option Nat := {_opt_nat(hs["exchangeResolve"])}
def exchangeCoerce : Option Nat := {_opt_nat(hs["exchangeCoerce"])}
def exchangeRaise : Option Nat := {_opt_nat(hs["exchangeRaise"])}
def exchangeOvershoot : Option Nat := {_opt_nat(hs["exchangeOvershoot"])}
def producerTurn : Option Nat := {_opt_nat(hs["producerTurn"])}

/-- `_current_stream_id` is published: by `/init` before its telemetry shell; by `_unpack_and_recover_state` (every
continuation, exchange turn and cancel) when the call-state cache hits / misses (cold worker, evicted or disabled cache) -/
def sidAtInit : Bool := {"true" if sd["init"] else "false"}
def sidOnHit : Bool := {"true" if sd["hit"] else "false"}
def sidOnMiss : Bool := {"true" if sd["miss"] else "false"}

/-- `_run_stream_exchange_sync` emits a record for a continuation it refuses before any dispatch shell is entered (bad /
expired / foreign cursor or call token, wrong method): the stream id is not known then -/
def refusedEmits : Bool := {"true" if refused_shape() else "false"}

/-! ## vgi_rpc/logging_utils.py — VgiAccessLogFormatter.format -/

def sentinelBase : List Key := {_keys(list(fs["base"]), names, "sentinel literal")}
def sentinelCond : List Key := {_keys(list(fs["cond"]), names, "sentinel stores")}
def shedOrder : List Key := {_keys(list(fs["order"]), names, "shed order")}
def sentinelErrFallback : List Char := {lean_str(str(fs["fallback"]))}

/-- every `json.dumps` the formatters reach keeps the default `ensure_ascii=True` (non-ASCII and DEL are `\\uXXXX`-escaped) -/
def jsonAsciiOnly : Bool := {"true" if json_ascii_only() else "false"}

end VgiVerif.Gen.C34
"""
    return {"C34.lean": text}
