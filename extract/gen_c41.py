"""C41: shape facts of the threaded socket server.

Sources
  vgi_rpc/rpc/_transport.py   `_serve_socket_threaded` (semaphore creation, the accept loop, `_handle`), and the calls of
                              it in `serve_unix` / `serve_tcp`
  vgi_rpc/rpc/_server.py      `RpcServer.serve` / `serve_one`: per-connection state is local, nothing is stored on `self`

Emits `Gen/C41.lean`: the handler and the accept loop as *programs* of abstract operations (the life-cycle labels of
`Model/C41.lean`) plus boolean shape facts; the obligation `C41_shape` demands the programs the model has.
"""

from __future__ import annotations

import ast
import hashlib
import os
from pathlib import Path

REPO = Path(os.environ.get("VERIF_REPO", "/repo"))
PROPS = ["C41"]
TRANSPORT = "vgi_rpc/rpc/_transport.py"
SERVER = "vgi_rpc/rpc/_server.py"


def _body(fn: ast.FunctionDef) -> list[ast.stmt]:
    b = list(fn.body)
    if b and isinstance(b[0], ast.Expr) and isinstance(b[0].value, ast.Constant) and isinstance(b[0].value.value, str):
        b = b[1:]
    return b


def _fn(tree: ast.AST, name: str) -> ast.FunctionDef:
    for n in ast.walk(tree):
        if isinstance(n, ast.FunctionDef) and n.name == name:
            return n
    raise ValueError(f"function {name} not found")


def _fingerprint(*nodes: ast.AST) -> str:
    h = hashlib.sha256()
    for n in nodes:
        h.update(ast.dump(n, annotate_fields=False, include_attributes=False).encode())
    return h.hexdigest()[:16]


def _is_sem_guard(st: ast.stmt, call: str) -> bool:
    return (
        isinstance(st, ast.If)
        and ast.unparse(st.test) == "semaphore is not None"
        and not st.orelse
        and [ast.unparse(x) for x in st.body] == [call]
    )


def classify_handle(st: ast.stmt) -> list[str]:
    """One top-level statement of `_handle` -> abstract operations (a try/finally contributes several)."""
    src = ast.unparse(st)
    if isinstance(st, ast.Nonlocal):
        return []
    if _is_sem_guard(st, "semaphore.acquire()"):
        return ["semAcq"]
    if src == "transport = transport_factory(conn)":
        return ["factory"]
    if isinstance(st, ast.Try):
        ops: list[str] = []
        ops += ["serve"] if [ast.unparse(x) for x in st.body] == ["server.serve(transport)"] else ["other"]
        if not (len(st.handlers) == 1 and st.handlers[0].type is not None and ast.unparse(st.handlers[0].type) == "Exception"
                and not any(isinstance(n, (ast.Raise, ast.Return)) for n in ast.walk(st.handlers[0]))):
            ops.append("other")
        if st.orelse:
            ops.append("other")
        for f in st.finalbody:
            fs = ast.unparse(f)
            if fs == "transport.close()":
                ops.append("close")
            elif _is_sem_guard(f, "semaphore.release()"):
                ops.append("semRel")
            elif isinstance(f, ast.With) and ast.unparse(f.items[0].context_expr) == "state_lock" and any(
                ast.unparse(x) == "conn_count -= 1" for x in f.body
            ):
                ops.append("countDown")
            else:
                ops.append("other")
        return ops
    return ["other"]


def classify_accept(st: ast.stmt) -> list[str]:
    """One statement of the accept loop body."""
    src = ast.unparse(st)
    if isinstance(st, ast.Try) and [ast.unparse(x) for x in st.body] == ["conn, _ = sock.accept()"]:
        ok = all(
            isinstance(h.body[-1], (ast.Break, ast.Continue)) and h.type is not None and ast.unparse(h.type) in ("TimeoutError", "OSError")
            for h in st.handlers
        )
        return ["accept"] if ok and not st.orelse and not st.finalbody else ["other"]
    if src == "conn.settimeout(None)":
        return []
    if isinstance(st, ast.With) and ast.unparse(st.items[0].context_expr) == "state_lock":
        inner = [ast.unparse(x) for x in st.body]
        # `conn_count += 1` first; the rest of the block is idle-shutdown bookkeeping (C33's subject)
        if inner[:1] == ["conn_count += 1"] and all(x in ("_cancel_timer_locked()", "shutdown_requested = False") for x in inner[1:]):
            return ["countUp"]
        if inner == ["active.add(t)"]:
            return []
        return ["other"]
    if isinstance(st, ast.Assign) and ast.unparse(st.targets[0]) == "t" and isinstance(st.value, ast.Call):
        c = st.value
        kw = {k.arg: ast.unparse(k.value) for k in c.keywords}
        if ast.unparse(c.func) == "threading.Thread" and kw.get("target") == "_handle" and kw.get("args") == "(conn,)":
            return ["thread"]
        return ["other"]
    if src == "t.start()":
        return ["start"]
    return ["other"]


def analyse() -> dict:
    out: dict = {}
    ttree = ast.parse((REPO / TRANSPORT).read_text())
    sst = _fn(ttree, "_serve_socket_threaded")
    body = _body(sst)
    # semaphore: `semaphore = None` then `if max_connections is not None: semaphore = threading.Semaphore(max_connections)`
    sem_ok = False
    for i, st in enumerate(body[:-1]):
        if isinstance(st, ast.AnnAssign) and ast.unparse(st.target) == "semaphore" and st.value is not None and ast.unparse(st.value) == "None":
            nxt = body[i + 1]
            sem_ok = (
                isinstance(nxt, ast.If)
                and ast.unparse(nxt.test) == "max_connections is not None"
                and not nxt.orelse
                and [ast.unparse(x) for x in nxt.body] == ["semaphore = threading.Semaphore(max_connections)"]
            )
    sem_writes = [ast.unparse(n) for n in ast.walk(sst) if isinstance(n, (ast.Assign, ast.AnnAssign))
                  and ast.unparse(n.targets[0] if isinstance(n, ast.Assign) else n.target) == "semaphore"]
    out["semaphoreFromMax"] = sem_ok and len(sem_writes) == 2
    handle = next((n for n in body if isinstance(n, ast.FunctionDef) and n.name == "_handle"), None)
    if handle is None:
        raise ValueError("_serve_socket_threaded._handle not found")
    out["handleArgs"] = [a.arg for a in handle.args.args] == ["conn"]
    hops: list[str] = []
    for st in _body(handle):
        hops += classify_handle(st)
    out["handleProg"] = hops
    # the accept loop: the `while True:` inside the last try
    loop = None
    for st in body:
        if isinstance(st, ast.Try):
            for x in st.body:
                if isinstance(x, ast.While) and ast.unparse(x.test) == "True":
                    loop = x
    if loop is None:
        raise ValueError("accept loop not found")
    aops: list[str] = []
    for st in loop.body:
        aops += classify_accept(st)
    out["acceptProg"] = aops
    # the callers
    calls = {}
    for fname, tr in (("serve_unix", "UnixTransport"), ("serve_tcp", "TcpTransport")):
        fn = _fn(ttree, fname)
        found = [
            [ast.unparse(a) for a in n.args]
            for n in ast.walk(fn)
            if isinstance(n, ast.Call) and ast.unparse(n.func) == "_serve_socket_threaded"
        ]
        calls[fname] = len(found) == 1 and found[0][:5] == ["server", "sock", "max_connections", "idle_timeout", tr]
    out["callers"] = all(calls.values())
    # RpcServer.serve / serve_one: nothing stored on self; the per-connection cache is a local
    stree = ast.parse((REPO / SERVER).read_text())
    cls = next(n for n in stree.body if isinstance(n, ast.ClassDef) and n.name == "RpcServer")
    fns = {n.name: n for n in cls.body if isinstance(n, ast.FunctionDef)}
    stores = []
    for name in ("serve", "serve_one", "_serve_unary", "_serve_stream"):
        if name not in fns:
            raise ValueError(f"RpcServer.{name} not found")
        for n in ast.walk(fns[name]):
            tgts: list[ast.AST] = []
            if isinstance(n, ast.Assign):
                tgts = list(n.targets)
            elif isinstance(n, (ast.AnnAssign, ast.AugAssign)):
                tgts = [n.target]
            for t in tgts:
                for e in ast.walk(t):
                    if isinstance(e, ast.Attribute) and isinstance(e.ctx, ast.Store) and ast.unparse(e.value) == "self":
                        stores.append(f"{name}:{ast.unparse(e)}")
    out["serveStoresNothingOnSelf"] = not stores
    sb = [ast.unparse(x) for x in ast.walk(fns["serve"]) if isinstance(x, ast.Assign)]
    out["connShmIsLocal"] = "conn_shm = _ConnectionShm()" in sb and any(
        isinstance(n, ast.Call) and ast.unparse(n.func) == "self.serve_one" and any(k.arg == "shm_cache" and ast.unparse(k.value) == "conn_shm" for k in n.keywords)
        for n in ast.walk(fns["serve"])
    )
    out["fingerprint"] = _fingerprint(sst, fns["serve"])
    return out


def _b(x: bool) -> str:
    return "true" if x else "false"


def emit() -> dict[str, str]:
    a = analyse()
    hp = ", ".join("." + x for x in a["handleProg"])
    ap = ", ".join("." + x for x in a["acceptProg"])
    body = f"""/-
Extracted from {TRANSPORT} (_serve_socket_threaded, serve_unix, serve_tcp) and {SERVER} (RpcServer.serve / serve_one).
-/
namespace VgiVerif.Gen.C41

/-- abstract operations of the per-connection handler `_handle(conn)` -/
inductive HOp where
  | semAcq      -- `if semaphore is not None: semaphore.acquire()`
  | factory     -- `transport = transport_factory(conn)`
  | serve       -- `try: server.serve(transport)` / `except Exception: log`
  | close       -- finally: `transport.close()`
  | semRel      -- finally: `if semaphore is not None: semaphore.release()`
  | countDown   -- finally: `with state_lock: conn_count -= 1 …`
  | other       -- anything the extractor does not recognise
deriving Repr, DecidableEq

/-- abstract operations of one iteration of the accept loop -/
inductive AOp where
  | accept      -- `conn, _ = sock.accept()` (timeout → continue / break, OSError → break)
  | countUp     -- `with state_lock: conn_count += 1; _cancel_timer_locked() [; shutdown_requested = False]`
  | thread      -- `t = threading.Thread(target=_handle, args=(conn,), …)`
  | start       -- `t.start()`
  | other
deriving Repr, DecidableEq

/-- `_handle`, in source order -/
def handleProg : List HOp := [{hp}]

/-- the accept loop body, in source order -/
def acceptProg : List AOp := [{ap}]

/-- `semaphore` is `None`, or `threading.Semaphore(max_connections)` exactly when `max_connections is not None`
(assigned nowhere else); `_handle` takes the accepted connection as its only argument -/
def semaphoreFromMax : Bool := {_b(a["semaphoreFromMax"] and a["handleArgs"])}

/-- `serve_unix` / `serve_tcp` pass `max_connections` and `UnixTransport` / `TcpTransport` to `_serve_socket_threaded` -/
def callers : Bool := {_b(a["callers"])}

/-- `RpcServer.serve`, `serve_one`, `_serve_unary`, `_serve_stream` assign no attribute of `self` -/
def serveStoresNothingOnSelf : Bool := {_b(a["serveStoresNothingOnSelf"])}

/-- the per-connection SHM cache is a local of `serve()` handed to `serve_one` -/
def connShmIsLocal : Bool := {_b(a["connShmIsLocal"])}

/-- normalised-AST fingerprint of `_serve_socket_threaded` and `RpcServer.serve` (drift indicator only) -/
def fingerprint : String := "{a["fingerprint"]}"

end VgiVerif.Gen.C41
"""
    return {"C41.lean": body}
