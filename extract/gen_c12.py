"""C12 / C13 (shared `Token` model): layout of the stream state tokens, read off the source.

Emitted into ``Gen/Token.lean``:

* constants of ``vgi_rpc/crypto.py`` (envelope lengths) and ``_state_token.py`` (payload framing, versions, codec tags),
  the ``struct`` formats actually used (``<Q`` timestamp, ``<I`` segment length) as byte widths,
* the AAD layouts of ``_compute_aad`` / ``_compute_call_aad`` as *shapes*: prefix literal, anonymous tail literal, the
  ``prefix + tag + domain + sep + principal`` concatenation, and whether the call AAD carries the method name,
* every ``raise`` of the token-open path with the message it carries (``rejectSites``),
* shapes the theorems depend on: the TTL guard and comparison, the strict canonical base64 check, the call-id pairing
  comparison, the method check on the resolved call, and the order of the steps of ``_unpack_and_recover_state``.

Anything that does not have the expected AST shape makes extraction fail loudly (broken correspondence).
"""

from __future__ import annotations

import ast
import os
import struct
from pathlib import Path

REPO = Path(os.environ.get("VERIF_REPO", "/repo"))
PROPS = ["C12", "C13"]

ST = "vgi_rpc/http/server/_state_token.py"
AS = "vgi_rpc/http/server/_app_stream.py"
CR = "vgi_rpc/crypto.py"


class Shape(Exception):
    pass


def _func(tree: ast.Module, name: str) -> ast.FunctionDef:
    for n in ast.walk(tree):
        if isinstance(n, ast.FunctionDef) and n.name == name:
            return n
    raise Shape(f"function {name} not found")


def _consts(tree: ast.Module) -> dict[str, object]:
    """Module-level ``NAME = <constant expression over earlier names>``."""
    env: dict[str, object] = {}
    for n in tree.body:
        tgt = None
        if isinstance(n, ast.Assign) and len(n.targets) == 1 and isinstance(n.targets[0], ast.Name):
            tgt, val = n.targets[0].id, n.value
        elif isinstance(n, ast.AnnAssign) and isinstance(n.target, ast.Name) and n.value is not None:
            tgt, val = n.target.id, n.value
        if tgt is None:
            continue
        try:
            env[tgt] = eval(compile(ast.Expression(val), "<const>", "eval"), {"__builtins__": {}}, dict(env))  # noqa: S307
        except Exception:
            continue
    return env


def _lean_bytes(b: bytes) -> str:
    return "[" + ", ".join(str(x) for x in b) + "]"


def _lean_str(s: str) -> str:
    out = []
    for ch in s:
        if ch == '"':
            out.append('\\"')
        elif ch == "\\":
            out.append("\\\\")
        elif 32 <= ord(ch) < 127:
            out.append(ch)
        else:
            out.append("\\u{%x}" % ord(ch))
    return '"' + "".join(out) + '"'


def _flatten_add(e: ast.expr) -> list[ast.expr]:
    if isinstance(e, ast.BinOp) and isinstance(e.op, ast.Add):
        return _flatten_add(e.left) + _flatten_add(e.right)
    return [e]


def _is_bytes(e: ast.expr) -> bool:
    return isinstance(e, ast.Constant) and isinstance(e.value, bytes)


def _aad_shape(fn: ast.FunctionDef, consts: dict[str, object] | None = None) -> dict[str, object]:
    """prefix / anonymous tail / user tail of an AAD builder.

    Expected body::

        prefix = <bytes literal> [+ method.encode() + <bytes literal>]
        if auth is None or not auth.authenticated:
            return prefix + <bytes literal>
        domain = (auth.domain or "").encode()
        principal = (auth.principal or "").encode()
        return prefix + <1 byte> + domain + <1 byte> + principal
    """
    prefix_parts: list[ast.expr] | None = None
    anon: bytes | None = None
    user: list[ast.expr] | None = None
    enc: dict[str, str] = {}
    guard_ok = False
    for st in fn.body:
        if isinstance(st, ast.Assign) and len(st.targets) == 1 and isinstance(st.targets[0], ast.Name):
            name = st.targets[0].id
            if name == "prefix":
                prefix_parts = _flatten_add(st.value)
            else:
                enc[name] = ast.unparse(st.value)
        elif isinstance(st, ast.If):
            guard_ok = ast.unparse(st.test) == "auth is None or not auth.authenticated"
            if len(st.body) == 1 and isinstance(st.body[0], ast.Return) and st.body[0].value is not None:
                parts = _flatten_add(st.body[0].value)
                if len(parts) == 2 and isinstance(parts[0], ast.Name) and parts[0].id == "prefix" and _is_bytes(parts[1]):
                    anon = parts[1].value  # type: ignore[attr-defined]
        elif isinstance(st, ast.Return) and st.value is not None:
            user = _flatten_add(st.value)
    if prefix_parts is None or anon is None or user is None or not guard_ok:
        raise Shape(f"{fn.name}: unexpected AAD builder shape")
    if enc.get("domain") != "(auth.domain or '').encode()" or enc.get("principal") != "(auth.principal or '').encode()":
        raise Shape(f"{fn.name}: domain/principal are not `(auth.x or '').encode()`: {enc}")
    # user tail: prefix + tag + domain + sep + principal
    if not (
        len(user) == 5
        and isinstance(user[0], ast.Name) and user[0].id == "prefix"
        and _is_bytes(user[1]) and len(user[1].value) == 1  # type: ignore[attr-defined]
        and isinstance(user[2], ast.Name) and user[2].id == "domain"
        and _is_bytes(user[3]) and len(user[3].value) == 1  # type: ignore[attr-defined]
        and isinstance(user[4], ast.Name) and user[4].id == "principal"
    ):
        raise Shape(f"{fn.name}: user AAD is not prefix + tag + domain + sep + principal")
    # prefix: literal  |  literal + method.encode() + literal(1 byte)  |  literal + method.encode()[:W].ljust(W, pad)
    method_bound = False
    method_sep = b""
    method_width = 0       # 0 = terminated by `method_sep`; W > 0 = fixed-width field (truncated to W bytes, padded)
    method_pad = b"\x00"
    import re as _re

    fixed = _re.match(r"^method\.encode\(\)\[:(\w+)\]\.ljust\((\w+), (b'(?:\\x[0-9a-f]{2}|.)')\)$",
                      ast.unparse(prefix_parts[1])) if len(prefix_parts) == 2 else None
    if len(prefix_parts) == 1 and _is_bytes(prefix_parts[0]):
        lit = prefix_parts[0].value  # type: ignore[attr-defined]
    elif (
        len(prefix_parts) == 3
        and _is_bytes(prefix_parts[0])
        and ast.unparse(prefix_parts[1]) == "method.encode()"
        and _is_bytes(prefix_parts[2]) and len(prefix_parts[2].value) == 1  # type: ignore[attr-defined]
        and any(a.arg == "method" for a in fn.args.args)
    ):
        lit = prefix_parts[0].value  # type: ignore[attr-defined]
        method_bound = True
        method_sep = prefix_parts[2].value  # type: ignore[attr-defined]
    elif (
        fixed is not None and _is_bytes(prefix_parts[0]) and fixed.group(1) == fixed.group(2)
        and any(a.arg == "method" for a in fn.args.args)
    ):
        w = fixed.group(1)
        width = int(w) if w.isdigit() else (consts or {}).get(w)
        if not isinstance(width, int) or width <= 0:
            raise Shape(f"{fn.name}: cannot resolve the method field width {w!r}")
        lit = prefix_parts[0].value  # type: ignore[attr-defined]
        method_bound = True
        method_width = width
        method_pad = ast.literal_eval(fixed.group(3))
    else:
        raise Shape(f"{fn.name}: unexpected prefix expression {ast.unparse(ast.Tuple(prefix_parts, ast.Load()))}")
    return {
        "prefix": lit,
        "anon": anon,
        "tag": user[1].value,  # type: ignore[attr-defined]
        "sep": user[3].value,  # type: ignore[attr-defined]
        "method_bound": method_bound,
        "method_sep": method_sep,
        "method_width": method_width,
        "method_pad": method_pad,
    }


def _raise_message(n: ast.Raise, consts: dict[str, object]) -> tuple[str, str] | None:
    """(message, status) of ``raise _RpcHttpError(RuntimeError(<msg>), status_code=HTTPStatus.X)`` / ``raise _token_rejected()``."""
    e = n.exc
    if not isinstance(e, ast.Call) or not isinstance(e.func, ast.Name):
        return None
    if e.func.id == "_token_rejected" and not e.args:
        return str(consts.get("_TOKEN_REJECTED_MESSAGE", "<missing _TOKEN_REJECTED_MESSAGE>")), "BAD_REQUEST:uniform"
    if e.func.id == "_undeclared_call_state_type":
        return "<helper:_undeclared_call_state_type>", "BAD_REQUEST"
    if e.func.id == "_RpcHttpError" and e.args:
        inner = e.args[0]
        status = ""
        for kw in e.keywords:
            if kw.arg == "status_code":
                status = ast.unparse(kw.value).split(".")[-1]
        if isinstance(inner, ast.Call) and inner.args:
            a = inner.args[0]
            if isinstance(a, ast.Constant) and isinstance(a.value, str):
                return a.value, status
            if isinstance(a, ast.Name):  # a message parameter (pinned tree: _read_segment(data, pos, message))
                return f"<param:{a.id}>", status
            if isinstance(a, ast.JoinedStr):
                return "<f-string:" + ast.unparse(a) + ">", status
        return "<dynamic>", status
    return None


def _sites(fn: ast.FunctionDef, consts: dict[str, object]) -> list[tuple[str, str, str]]:
    out = []
    k = 0
    for n in sorted((x for x in ast.walk(fn) if isinstance(x, ast.Raise)), key=lambda x: (x.lineno, x.col_offset)):
        m = _raise_message(n, consts)
        if m is None:
            continue
        out.append((f"{fn.name}#{k}", m[0], m[1]))
        k += 1
    return out


def _helper_rejected(tree: ast.Module) -> bool:
    """``_token_rejected`` returns ``_RpcHttpError(RuntimeError(_TOKEN_REJECTED_MESSAGE), status_code=HTTPStatus.BAD_REQUEST)``."""
    try:
        fn = _func(tree, "_token_rejected")
    except Shape:
        return False
    rets = [n for n in ast.walk(fn) if isinstance(n, ast.Return)]
    return len(rets) == 1 and rets[0].value is not None and ast.unparse(rets[0].value) == (
        "_RpcHttpError(RuntimeError(_TOKEN_REJECTED_MESSAGE), status_code=HTTPStatus.BAD_REQUEST)"
    )


def _struct_formats(fn: ast.FunctionDef) -> list[str]:
    out = []
    for n in ast.walk(fn):
        if (
            isinstance(n, ast.Call)
            and isinstance(n.func, ast.Attribute)
            and isinstance(n.func.value, ast.Name)
            and n.func.value.id == "struct"
            and n.args
            and isinstance(n.args[0], ast.Constant)
        ):
            out.append(f"{n.func.attr}:{n.args[0].value}")
    return out


def _ttl_shape(fn: ast.FunctionDef) -> tuple[str, str, str]:
    """(kind, guard, test) of the TTL check.

    nested:  `if token_ttl > 0:` { created_at = unpack_from…; `if int(time.time()) - created_at > token_ttl:` raise }
    flat:    created_at = unpack_from… (unconditional); `if token_ttl > 0 and int(time.time()) - created_at > token_ttl:` raise
    """
    for n in ast.walk(fn):
        if isinstance(n, ast.If) and "token_ttl" in ast.unparse(n.test):
            t = n.test
            if isinstance(t, ast.BoolOp) and isinstance(t.op, ast.And) and len(t.values) == 2:
                unconditional = any(
                    isinstance(b, (ast.Assign, ast.AnnAssign)) and "created_at" in ast.unparse(b.target if isinstance(b, ast.AnnAssign) else b.targets[0])
                    and "struct.unpack_from('<Q', plaintext, 0)" in ast.unparse(b.value)  # type: ignore[arg-type]
                    for b in fn.body
                )
                raises = any(isinstance(b, ast.Raise) for b in n.body)
                if unconditional and raises:
                    return "flat", ast.unparse(t.values[0]), ast.unparse(t.values[1])
                return "?", "", ""
            inner = [m for m in ast.walk(n) if isinstance(m, ast.If) and m is not n]
            if inner:
                return "nested", ast.unparse(n.test), ast.unparse(inner[0].test)
    return "?", "", ""


def _strict_b64(tree: ast.Module, opener: ast.FunctionDef) -> bool:
    """The opener decodes through `_decode_token`, which re-encodes and compares with the presented text."""
    uses = any(
        isinstance(n, ast.Call) and isinstance(n.func, ast.Name) and n.func.id == "_decode_token" for n in ast.walk(opener)
    )
    plain = any(
        isinstance(n, ast.Call) and ast.unparse(n.func) == "base64.b64decode" for n in ast.walk(opener)
    )
    if not uses or plain:
        return False
    try:
        fn = _func(tree, "_decode_token")
    except Shape:
        return False
    dec = any(
        isinstance(n, ast.Assign) and ast.unparse(n.value) == "base64.b64decode(token, validate=True)" for n in ast.walk(fn)
    )
    cmp_ok = False
    for n in ast.walk(fn):
        if isinstance(n, ast.If) and ast.unparse(n.test) == "base64.b64encode(raw) != bytes(token)":
            cmp_ok = any(isinstance(b, ast.Raise) for b in n.body)
    return dec and cmp_ok


def _b64_validate(tree: ast.Module, opener: ast.FunctionDef) -> bool:
    """Some `base64.b64decode(token, validate=True)` is on the opener's decode path."""
    fns = [opener]
    try:
        fns.append(_func(tree, "_decode_token"))
    except Shape:
        pass
    return any(
        isinstance(n, ast.Call) and ast.unparse(n) == "base64.b64decode(token, validate=True)" for f in fns for n in ast.walk(f)
    )


def _recover_order(fn: ast.FunctionDef) -> list[str]:
    """Names of the steps of `_unpack_and_recover_state` in source order."""
    wanted = {
        "_open_cursor_token": "open_cursor",
        "get": "cache_get",
        "_resolve_call_from_token": "resolve_call_from_token",
        "put": "cache_put",
        "_resolve_state_cls": "resolve_state_cls",
        "_deserialize_state_bytes": "deserialize_state",
        "bind_call_state": "bind_call_state",
        "rehydrate": "rehydrate",
    }
    ev: list[tuple[int, int, str]] = []
    for n in ast.walk(fn):
        if isinstance(n, ast.Call):
            name = n.func.id if isinstance(n.func, ast.Name) else n.func.attr if isinstance(n.func, ast.Attribute) else ""
            if name in wanted:
                if name in ("get", "put") and "_call_state_cache" not in ast.unparse(n.func):
                    continue
                ev.append((n.lineno, n.col_offset, wanted[name]))
        if isinstance(n, ast.If) and ast.unparse(n.test) == "resolved.method != method_name":
            if any(isinstance(b, ast.Raise) and ast.unparse(b.exc) == "_token_rejected()" for b in n.body if b.exc is not None):  # type: ignore[union-attr]
                ev.append((n.lineno, n.col_offset, "method_check"))
        if isinstance(n, ast.If) and ast.unparse(n.test) == "call_state_type not in _declared_call_state_types(state_info)":
            ev.append((n.lineno, n.col_offset, "hit_type_check"))
    return [e[2] for e in sorted(ev)]


def _hit_branch(fn: ast.FunctionDef) -> list[str]:
    """What `_unpack_and_recover_state` does in the `else:` (cache hit) branch of `if resolved is None:`."""
    for n in ast.walk(fn):
        if isinstance(n, ast.If) and ast.unparse(n.test) == "resolved is None":
            out = []
            for b in n.orelse:
                for m in ast.walk(b):
                    if isinstance(m, ast.If):
                        t = ast.unparse(m.test)
                        if t == "resolved.method != method_name":
                            out.append("method_check")
                        elif t == "call_state_type not in _declared_call_state_types(state_info)":
                            out.append("hit_type_check")
            miss = []
            for b in n.body:
                for m in ast.walk(b):
                    if isinstance(m, ast.Call):
                        f = ast.unparse(m.func)
                        if f == "_resolve_call_from_token":
                            miss.append("resolve_call_from_token")
                        elif f.endswith("_call_state_cache.put"):
                            miss.append("cache_put")
            return ["miss:" + x for x in miss] + ["hit:" + x for x in out]
    return []


def _normalize_key_shape(cr_tree: ast.Module) -> bool:
    """`normalize_key`: `if len(key) == _KEY_LEN: return key` then `return hashlib.sha256(key).digest()` — an exactly-32-byte
    key passes through, every other length is a hash of the *whole* key (no slicing, no padding)."""
    fn = _func(cr_tree, "normalize_key")
    body = [b for b in fn.body if not (isinstance(b, ast.Expr) and isinstance(b.value, ast.Constant))]
    if len(body) != 2 or not isinstance(body[0], ast.If) or not isinstance(body[1], ast.Return):
        return False
    guard = body[0]
    return (
        ast.unparse(guard.test) == "len(key) == _KEY_LEN"
        and not guard.orelse
        and len(guard.body) == 1
        and isinstance(guard.body[0], ast.Return)
        and ast.unparse(guard.body[0].value) == "key"  # type: ignore[arg-type]
        and ast.unparse(body[1].value) == "hashlib.sha256(key).digest()"  # type: ignore[arg-type]
    )


def _openers_normalize(cr_tree: ast.Module) -> bool:
    """`seal_bytes` / `open_bytes` hand `normalize_key(key)` (and nothing else) to the cipher."""
    ok = []
    for name in ("seal_bytes", "open_bytes"):
        fn = _func(cr_tree, name)
        calls = [n for n in ast.walk(fn) if isinstance(n, ast.Call) and ast.unparse(n.func) in ("_seal", "_open")]
        ok.append(len(calls) == 1 and len(calls[0].args) >= 2 and ast.unparse(calls[0].args[1]) == "normalize_key(key)")
    return all(ok)


def _cache_shape(st_tree: ast.Module, as_tree: ast.Module) -> dict[str, bool]:
    """How the call-state cache ages its entries.

    * `_CallStateCache.get`: `if expires_at <= now:` → delete + miss; a hit only does `move_to_end` (no write to
      `self._entries[key]`, i.e. the deadline is not refreshed),
    * `_CallStateCache.put`: `self._entries[key] = (now + self._ttl, resolved)`,
    * `_call_cache_birth`: `float(created_at) if app._token_ttl > 0 else now`, and both `put` call sites of
      `_app_stream` pass `_call_cache_birth(app, <token created_at>, now)`,
    * `_HttpRpcApp`: the cache's ttl is `float(token_ttl) if token_ttl > 0 else 3600.0`.
    """
    cls = next(n for n in ast.walk(st_tree) if isinstance(n, ast.ClassDef) and n.name == "_CallStateCache")
    get = next(n for n in cls.body if isinstance(n, ast.FunctionDef) and n.name == "get")
    put = next(n for n in cls.body if isinstance(n, ast.FunctionDef) and n.name == "put")
    expiry = [n for n in ast.walk(get) if isinstance(n, ast.If) and ast.unparse(n.test) == "expires_at <= now"]
    expiry_ok = len(expiry) == 1 and any(isinstance(b, ast.Return) and ast.unparse(b) == "return None" for b in expiry[0].body)
    writes = [n for n in ast.walk(get) if isinstance(n, (ast.Assign, ast.AugAssign))
              and "self._entries" in ast.unparse(n.targets[0] if isinstance(n, ast.Assign) else n.target)]
    put_ok = any(isinstance(n, ast.Assign) and ast.unparse(n) == "self._entries[key] = (now + self._ttl, resolved)" for n in ast.walk(put))
    try:
        birth = _func(as_tree, "_call_cache_birth")
        rets = [n for n in ast.walk(birth) if isinstance(n, ast.Return)]
        birth_ok = len(rets) == 1 and ast.unparse(rets[0].value) == "float(created_at) if app._token_ttl > 0 else now"  # type: ignore[arg-type]
    except Shape:
        birth_ok = False
    puts = [n for n in ast.walk(as_tree) if isinstance(n, ast.Call) and ast.unparse(n.func).endswith("_call_state_cache.put")]
    puts_ok = len(puts) == 2 and all(
        len(c.args) == 4 and isinstance(c.args[3], ast.Call) and ast.unparse(c.args[3].func) == "_call_cache_birth" for c in puts
    ) and sorted(ast.unparse(c.args[3]) for c in puts) == ["_call_cache_birth(app, created_at, now)", "_call_cache_birth(app, int(minted_at), minted_at)"]
    app_py = REPO / "vgi_rpc/http/server/_app.py"
    ttl_ok = "ttl=float(token_ttl) if token_ttl > 0 else 3600.0" in ast.unparse(ast.parse(app_py.read_text()))
    return {"expiry": expiry_ok, "refresh": bool(writes), "put": put_ok, "birth": birth_ok, "puts": puts_ok, "cache_ttl": ttl_ok}


def _call_order(fn: ast.FunctionDef) -> list[str]:
    """Steps of `_resolve_call_from_token` in source order."""
    ev: list[tuple[int, int, str]] = []
    for n in ast.walk(fn):
        if isinstance(n, ast.If):
            t = ast.unparse(n.test)
            if t == "call_token is None":
                ev.append((n.lineno, n.col_offset, "missing_check"))
            elif t == "not secrets.compare_digest(token_call_id, expected_call_id)":
                ev.append((n.lineno, n.col_offset, "pairing_check"))
        if isinstance(n, ast.Call):
            name = ast.unparse(n.func)
            if name in ("_open_call_token", "_open_call_token_dated"):
                ev.append((n.lineno, n.col_offset, "open_call"))
            elif name == "pa.ipc.read_schema":
                ev.append((n.lineno, n.col_offset, "read_schema"))
            elif name.endswith(".deserialize_from_bytes"):
                ev.append((n.lineno, n.col_offset, "deserialize_call_state"))
    return [e[2] for e in sorted(ev)]


def _before(order: list[str], a: str, b: str) -> bool:
    return a in order and b in order and order.index(a) < order.index(b)


def _method_binding(st_tree: ast.Module, as_tree: ast.Module, call_aad: dict[str, object]) -> dict[str, bool]:
    rec = _func(as_tree, "_unpack_and_recover_state")
    res = _func(as_tree, "_resolve_call_from_token")
    init = _func(as_tree, "_run_stream_init_sync")
    exch = _func(as_tree, "_run_stream_exchange_sync")
    mint = _func(st_tree, "_mint_call_token")

    def has_call(fn: ast.FunctionDef, text: str) -> bool:
        return any(isinstance(n, ast.Call) and ast.unparse(n) == text for n in ast.walk(fn))

    def has_call_prefix(fn: ast.FunctionDef, fname: str, last_arg: str) -> bool:
        for n in ast.walk(fn):
            if isinstance(n, ast.Call) and ast.unparse(n.func) == fname and n.args and ast.unparse(n.args[-1]) == last_arg:
                return True
        return False

    return {
        "aad": bool(call_aad["method_bound"]),
        "open": has_call(res, "_compute_call_aad(auth, method_name)"),
        "mint": has_call(mint, "_compute_call_aad(auth, method)"),
        "init_mint": has_call_prefix(init, "_mint_call_token", "method_name"),
        "init_cache": has_call_prefix(init, "_ResolvedCall", "method_name"),
        "miss_entry": has_call_prefix(res, "_ResolvedCall", "method_name"),
        "recover_arg": has_call_prefix(exch, "_unpack_and_recover_state", "method_name")
        and has_call_prefix(rec, "_resolve_call_from_token", "method_name"),
        "check": "method_check" in _recover_order(rec),
        # … and it is made on the hit branch, before anything decodes the state or calls a hook
        "check_before_decode": "hit:method_check" in _hit_branch(rec) and _before(_recover_order(rec), "method_check", "resolve_state_cls"),
    }


def emit() -> dict[str, str]:
    st_tree = ast.parse((REPO / ST).read_text())
    as_tree = ast.parse((REPO / AS).read_text())
    cr_tree = ast.parse((REPO / CR).read_text())
    c = _consts(st_tree)
    cc = _consts(cr_tree)

    need = ["_HEADER_LEN", "_CURSOR_TOKEN_VERSION", "_CALL_TOKEN_VERSION", "_TIMESTAMP_LEN", "_CALL_ID_LEN",
            "_MIN_CURSOR_PLAINTEXT_LEN", "_MAX_TOKEN_PLAINTEXT_BYTES", "_CODEC_RAW", "_CODEC_ZSTD"]
    for k in need:
        if k not in c:
            raise Shape(f"constant {k} not found in {ST}")
    for k in ["_KEY_LEN", "_NONCE_LEN", "_TAG_LEN", "_VERSION_LEN", "_MIN_TOKEN_LEN"]:
        if k not in cc:
            raise Shape(f"constant {k} not found in {CR}")
    if len(c["_CODEC_RAW"]) != 1 or len(c["_CODEC_ZSTD"]) != 1:  # type: ignore[arg-type]
        raise Shape("codec tags are not single bytes")

    open_cur = _func(st_tree, "_open_cursor_token")
    try:
        open_call = _func(st_tree, "_open_call_token_dated")
    except Shape:
        open_call = _func(st_tree, "_open_call_token")
    seal_cur = _func(st_tree, "_seal_cursor_token")
    seal_call = _func(st_tree, "_seal_call_token")
    read_seg = _func(st_tree, "_read_segment")
    unpack_pt = _func(st_tree, "_unpack_plaintext")
    rec = _func(as_tree, "_unpack_and_recover_state")
    res = _func(as_tree, "_resolve_call_from_token")

    # struct formats: one timestamp format, one length format, used consistently by sealers and readers
    fm_seal = set(_struct_formats(seal_cur)) | set(_struct_formats(seal_call))
    fm_read = set(_struct_formats(open_cur)) | set(_struct_formats(open_call)) | set(_struct_formats(read_seg))
    if fm_seal != {"pack:<Q", "pack:<I"} or fm_read != {"unpack_from:<Q", "unpack_from:<I"}:
        raise Shape(f"unexpected struct formats: seal {sorted(fm_seal)} read {sorted(fm_read)}")
    ts_w, len_w = struct.calcsize("<Q"), struct.calcsize("<I")

    # number of segments / min length of the call plaintext
    n_call_segs = sum(1 for n in ast.walk(open_call) if isinstance(n, ast.Call) and ast.unparse(n.func) == "_read_segment")
    n_cur_segs = sum(1 for n in ast.walk(open_cur) if isinstance(n, ast.Call) and ast.unparse(n.func) == "_read_segment")
    min_call = None
    for n in ast.walk(open_call):
        if isinstance(n, ast.If) and ast.unparse(n.test).startswith("len(plaintext) <"):
            rhs = n.test.comparators[0]  # type: ignore[attr-defined]
            min_call = eval(compile(ast.Expression(rhs), "<c>", "eval"), {"__builtins__": {}}, dict(c))  # noqa: S307
            if not isinstance(n.test.ops[0], ast.Lt):  # type: ignore[attr-defined]
                raise Shape("call min-length guard is not `<`")
    min_cur_guard = any(
        isinstance(n, ast.If) and ast.unparse(n.test) == "len(plaintext) < _MIN_CURSOR_PLAINTEXT_LEN" for n in ast.walk(open_cur)
    )
    if min_call is None or not min_cur_guard:
        raise Shape("min-length guards not found")
    n_call_packs = sum(1 for f in _struct_formats(seal_call) if f == "pack:<I")  # set() above dedups; count separately
    n_call_packs = sum(
        1 for n in ast.walk(seal_call)
        if isinstance(n, ast.Call) and ast.unparse(n.func) == "struct.pack" and n.args and getattr(n.args[0], "value", None) == "<I"
    )
    if n_call_packs != n_call_segs:
        raise Shape(f"call token: {n_call_packs} packed segments but {n_call_segs} read")

    aad_cur = _aad_shape(_func(st_tree, "_compute_aad"))
    aad_call = _aad_shape(_func(st_tree, "_compute_call_aad"), c)
    if aad_cur["method_bound"]:
        raise Shape("_compute_aad unexpectedly takes a method (shared with sticky sessions)")
    for k in ("anon", "tag", "sep"):
        if aad_cur[k] != aad_call[k]:
            raise Shape(f"identity tails of the two AADs differ in {k}")

    sites: list[tuple[str, str, str]] = []
    for fn in (open_cur, open_call, unpack_pt, read_seg, res, rec):
        sites += _sites(fn, c)
    uniform_helper = _helper_rejected(st_tree)

    ttl_cur = _ttl_shape(open_cur)
    ttl_call = _ttl_shape(open_call)
    want_ttl = ("token_ttl > 0", "int(time.time()) - created_at > token_ttl")
    ttl_ok = ttl_cur[1:] == want_ttl and ttl_call[1:] == want_ttl and ttl_cur[0] == "nested" and ttl_call[0] in ("nested", "flat")

    strict = _strict_b64(st_tree, open_cur) and _strict_b64(st_tree, open_call)
    validate = _b64_validate(st_tree, open_cur) and _b64_validate(st_tree, open_call)
    mb = _method_binding(st_tree, as_tree, aad_call)
    cs = _cache_shape(st_tree, as_tree)
    method_bound = all(mb.values())
    method_partial = any(mb.values()) and not method_bound

    # the envelope version the openers pass to crypto.open_bytes
    def _ver(fn: ast.FunctionDef) -> str:
        for n in ast.walk(fn):
            if isinstance(n, ast.Call) and ast.unparse(n.func) in ("crypto.open_bytes", "crypto.seal_bytes"):
                for kw in n.keywords:
                    if kw.arg == "version":
                        return ast.unparse(kw.value)
        return ""

    vers = {f.name: _ver(f) for f in (open_cur, seal_cur, open_call, seal_call)}
    if vers != {"_open_cursor_token": "_CURSOR_TOKEN_VERSION", "_seal_cursor_token": "_CURSOR_TOKEN_VERSION",
                open_call.name: "_CALL_TOKEN_VERSION", "_seal_call_token": "_CALL_TOKEN_VERSION"}:
        raise Shape(f"unexpected envelope versions {vers}")

    site_lines = ",\n".join(f"  ({_lean_str(k)}, {_lean_str(m)}, {_lean_str(s)})" for k, m, s in sites)
    order = ", ".join(_lean_str(x) for x in _recover_order(rec))
    corder = ", ".join(_lean_str(x) for x in _call_order(res))
    mb_lines = ", ".join(f"({_lean_str(k)}, {str(v).lower()})" for k, v in mb.items())
    body = f"""namespace VgiVerif.Gen.Token

/-! `vgi_rpc/crypto.py` — envelope `version (1) || nonce (24) || ciphertext+tag` -/
def keyLen : Nat := {cc["_KEY_LEN"]}
def nonceLen : Nat := {cc["_NONCE_LEN"]}
def tagLen : Nat := {cc["_TAG_LEN"]}
def versionLen : Nat := {cc["_VERSION_LEN"]}
def minTokenLen : Nat := {cc["_MIN_TOKEN_LEN"]}

/-- `normalize_key`: a key of exactly `keyLen` bytes is used as is, any other length is SHA-256 of the whole key; and
    `seal_bytes` / `open_bytes` pass exactly `normalize_key(key)` to the cipher — so (SHA-256 collision-free) distinct
    operator keys are distinct AEAD keys, which is what the symbolic `KeyId` of the model stands for -/
def normalizeKeyShape : Bool := {str(_normalize_key_shape(cr_tree) and _openers_normalize(cr_tree)).lower()}

/-! `_state_token.py` — plaintext framing -/
def headerLen : Nat := {c["_HEADER_LEN"]}
def timestampLen : Nat := {c["_TIMESTAMP_LEN"]}
def callIdLen : Nat := {c["_CALL_ID_LEN"]}
def minCursorPlaintextLen : Nat := {c["_MIN_CURSOR_PLAINTEXT_LEN"]}
/-- `len(plaintext) < _TIMESTAMP_LEN + _CALL_ID_LEN + _HEADER_LEN * 5` in `_open_call_token` -/
def minCallPlaintextLen : Nat := {min_call}
def cursorSegments : Nat := {n_cur_segs}
def callSegments : Nat := {n_call_segs}
def cursorTokenVersion : Nat := {c["_CURSOR_TOKEN_VERSION"]}
def callTokenVersion : Nat := {c["_CALL_TOKEN_VERSION"]}
def maxTokenPlaintextBytes : Nat := {c["_MAX_TOKEN_PLAINTEXT_BYTES"]}
def codecRaw : UInt8 := {c["_CODEC_RAW"][0]}
def codecZstd : UInt8 := {c["_CODEC_ZSTD"][0]}
/-- byte width of `struct` format `<Q` (created_at) and `<I` (segment length); both little-endian -/
def tsFmtWidth : Nat := {ts_w}
def lenFmtWidth : Nat := {len_w}

/-! AAD layouts: `prefix [+ method + methodSep] + (anonTail | userTag + domain + sep + principal)` -/
def cursorPrefix : List UInt8 := {_lean_bytes(aad_cur["prefix"])}   -- {aad_cur["prefix"]!r}
def callPrefix : List UInt8 := {_lean_bytes(aad_call["prefix"])}   -- {aad_call["prefix"]!r}
def anonTail : List UInt8 := {_lean_bytes(aad_cur["anon"])}   -- {aad_cur["anon"]!r}
def userTag : UInt8 := {aad_cur["tag"][0]}
def identitySep : UInt8 := {aad_cur["sep"][0]}
/-- `_compute_call_aad` puts `method.encode() + methodSep` between the prefix and the identity tail -/
def callAadHasMethod : Bool := {str(bool(aad_call["method_bound"])).lower()}
def methodSep : UInt8 := {(aad_call["method_sep"] or b"\\0")[0]}
/-- layout of the method segment: width 0 = the whole `method.encode()` followed by `methodSep` (prefix-free, since
    method names are NUL-free); width W > 0 = a fixed field `method.encode()[:W].ljust(W, pad)` — truncating, hence
    **not injective** for names that agree on their first W bytes -/
def callAadMethodWidth : Nat := {aad_call["method_width"]}
def callAadMethodPad : UInt8 := {aad_call["method_pad"][0]}

/-! shapes -/
/-- TTL guard is `token_ttl > 0` and the test `int(time.time()) - created_at > token_ttl` in both openers -/
def ttlShapeRecognised : Bool := {str(ttl_ok).lower()}
/-- the call opener reads `created_at` unconditionally and tests `token_ttl > 0 and …` in one `if` ("flat"),
    or reads it under `if token_ttl > 0:` ("nested", as the cursor opener does) -/
def callTtlFlat : Bool := {str(ttl_call[0] == "flat").lower()}
/-- name of the function that opens call tokens on the request path -/
def callOpener : String := {_lean_str(open_call.name)}
/-- both openers decode with `base64.b64decode(token, validate=True)` -/
def b64Validate : Bool := {str(validate).lower()}
/-- both openers additionally require `base64.b64encode(raw) == token` (one accepted spelling per envelope) -/
def strictB64 : Bool := {str(strict).lower()}
/-- every place that has to carry the method name does (see `methodBindingParts`) -/
def methodBound : Bool := {str(method_bound).lower()}
def methodBindingPartial : Bool := {str(method_partial).lower()}
def methodBindingParts : List (String × Bool) := [{mb_lines}]
/-- `_token_rejected()` builds `_RpcHttpError(RuntimeError(_TOKEN_REJECTED_MESSAGE), status_code=BAD_REQUEST)` -/
def uniformHelper : Bool := {str(uniform_helper).lower()}
def uniformMessage : String := {_lean_str(str(c.get("_TOKEN_REJECTED_MESSAGE", "")))}

/-- every `raise` on the token path: (site = function#index in source order, message, status) -/
def rejectSites : List (String × String × String) := [
{site_lines}
]

/-- steps of `_unpack_and_recover_state`, in source order -/
def recoverOrder : List String := [{order}]
/-- `_CallStateCache.get`: an entry with `expires_at <= now` is deleted and reported as a miss -/
def cacheGetExpires : Bool := {str(cs["expiry"]).lower()}
/-- `_CallStateCache.get` writes `self._entries[key]` on a hit (moves the deadline) -/
def cacheGetRefreshes : Bool := {str(cs["refresh"]).lower()}
/-- `put` stores `now + ttl`; both call sites pass `_call_cache_birth(app, <created_at of the call token>, now)` =
    `float(created_at) if token_ttl > 0 else now`; the cache ttl is `token_ttl` when positive (else 3600) -/
def cacheAgesFromToken : Bool := {str(cs["put"] and cs["birth"] and cs["puts"] and cs["cache_ttl"]).lower()}
/-- the two branches of `if resolved is None:` in `_unpack_and_recover_state` -/
def recoverBranches : List String := [{", ".join(_lean_str(x) for x in _hit_branch(rec))}]
/-- steps of `_resolve_call_from_token`, in source order -/
def resolveCallOrder : List String := [{corder}]

end VgiVerif.Gen.Token
"""
    return {"Token.lean": body}
