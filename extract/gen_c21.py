"""C21: the closed reason set, the classification / combination shapes, the serializer's headers, the proxy-note
composition and the client parser's exception guard, read from the source with `ast`.

Emits `lean/VgiVerif/Gen/C21Unauthorized.lean`.  Everything the model branches on is *data* here (enum members,
which member a guard compares with, which exception classes an `except` / `suppress` names, header names and values,
f-string segments); control flow that cannot be expressed as data is reduced to a `…Recognised : Bool` flag that the
proofs require to be `true` (so an edit that changes the shape breaks an obligation and raises the search budget).
"""

from __future__ import annotations

import ast
import os
import sys
from pathlib import Path

REPO = Path(os.environ.get("VERIF_REPO", "/repo"))
PROPS = ["C21"]

F_UNAUTH = "vgi_rpc/http/_unauthorized.py"
F_BEARER = "vgi_rpc/http/_bearer.py"
F_ERRORS = "vgi_rpc/http/server/_errors.py"
F_MIDDLE = "vgi_rpc/http/server/_middleware.py"
F_FACTORY = "vgi_rpc/http/server/_factory.py"
F_CLIENT = "vgi_rpc/http/_client.py"
F_COMMON = "vgi_rpc/http/_common.py"
F_MTLS = "vgi_rpc/http/_mtls.py"
F_PROOF = "vgi_rpc/http/_proof.py"


def _tree(rel: str) -> ast.Module:
    return ast.parse((REPO / rel).read_text())


def _func(tree: ast.AST, name: str) -> ast.FunctionDef:
    for n in ast.walk(tree):
        if isinstance(n, ast.FunctionDef) and n.name == name:
            return n
    raise LookupError(f"function {name} not found")


def _class(tree: ast.AST, name: str) -> ast.ClassDef:
    for n in ast.walk(tree):
        if isinstance(n, ast.ClassDef) and n.name == name:
            return n
    raise LookupError(f"class {name} not found")


def _const(tree: ast.Module, name: str) -> object:
    for n in tree.body:
        if isinstance(n, ast.Assign) and len(n.targets) == 1 and isinstance(n.targets[0], ast.Name) and n.targets[0].id == name:
            return ast.literal_eval(n.value)
    raise LookupError(f"constant {name} not found")


def _body(fn: ast.FunctionDef) -> list[ast.stmt]:
    """Function body without the docstring."""
    b = list(fn.body)
    if b and isinstance(b[0], ast.Expr) and isinstance(b[0].value, ast.Constant) and isinstance(b[0].value.value, str):
        b = b[1:]
    return b


def _member(e: ast.expr) -> str | None:
    """`AuthReason.X` → "X"."""
    if isinstance(e, ast.Attribute) and isinstance(e.value, ast.Name) and e.value.id == "AuthReason":
        return e.attr
    return None


def _names(e: ast.expr | None) -> list[str]:
    """Exception classes named by an `except` type / `suppress(...)` argument list."""
    if e is None:
        return ["BaseException"]
    if isinstance(e, ast.Tuple):
        return [ast.unparse(x) for x in e.elts]
    return [ast.unparse(e)]


def q(s: str) -> str:
    """Lean `String` literal."""
    out = ['"']
    for c in s:
        o = ord(c)
        if c == '"':
            out.append('\\"')
        elif c == "\\":
            out.append("\\\\")
        elif c == "\n":
            out.append("\\n")
        elif 32 <= o < 127:
            out.append(c)
        elif o < 0x10000 and not 0xD800 <= o <= 0xDFFF:
            out.append("\\u%04x" % o)
        else:
            raise ValueError(f"cannot write code point {o:#x} as a Lean string literal")
    out.append('"')
    return "".join(out)


def qlist(xs: list[str]) -> str:
    return "[" + ", ".join(q(x) for x in xs) + "]"


def b(x: bool) -> str:
    return "true" if x else "false"


# ------------------------------------------------------------------------------------------ _unauthorized.py


def reason_members(t: ast.Module) -> list[tuple[str, str]]:
    cls = _class(t, "AuthReason")
    assert [ast.unparse(x) for x in cls.bases] == ["StrEnum"], "AuthReason is no longer a StrEnum"
    out = []
    for n in cls.body:
        if isinstance(n, ast.Assign) and len(n.targets) == 1 and isinstance(n.targets[0], ast.Name):
            v = ast.literal_eval(n.value)
            assert isinstance(v, str)
            out.append((n.targets[0].id, v))
    return out


def classify_shape(t: ast.Module) -> dict:
    """declared = getattr(exc, REASON_ATTR, None); if isinstance(declared, AuthReason): return declared;
    if isinstance(exc, PermissionError): return AuthReason.X; return AuthReason.Y"""
    fn = _func(t, "classify_auth_failure")
    body = _body(fn)
    rec = {"recognised": False, "cls": "", "then": "", "else": "", "guard": ""}
    try:
        a, i1, i2, r = body
        if isinstance(i1, ast.If):
            rec["guard"] = ast.unparse(i1.test)
        ok = (
            ast.unparse(a) == "declared = getattr(exc, REASON_ATTR, None)"
            and isinstance(i1, ast.If)
            and ast.unparse(i1.test) == "isinstance(declared, AuthReason)"
            and [ast.unparse(s) for s in i1.body] == ["return declared"]
            and not i1.orelse
            and isinstance(i2, ast.If)
            and isinstance(i2.test, ast.Call)
            and ast.unparse(i2.test.func) == "isinstance"
            and ast.unparse(i2.test.args[0]) == "exc"
            and len(i2.body) == 1
            and isinstance(i2.body[0], ast.Return)
            and not i2.orelse
            and isinstance(r, ast.Return)
        )
        if ok:
            rec["cls"] = ast.unparse(i2.test.args[1])
            rec["then"] = _member(i2.body[0].value) or ""
            rec["else"] = _member(r.value) or ""
            rec["recognised"] = bool(rec["then"] and rec["else"])
    except ValueError:
        pass
    return rec


def auth_failure_shape(t: ast.Module) -> dict:
    """AuthFailure(ValueError): super().__init__(detail or reason.value); self.reason = reason; setattr(self, REASON_ATTR, reason)"""
    cls = _class(t, "AuthFailure")
    bases = [ast.unparse(x) for x in cls.bases]
    init = _func(cls, "__init__")
    stmts = [ast.unparse(s) for s in _body(init)]
    ok = stmts == ["super().__init__(detail or reason.value)", "self.reason = reason", "setattr(self, REASON_ATTR, reason)"]
    return {"bases": bases, "recognised": ok}


def unavailable_shape(t: ast.Module) -> dict:
    cls = _class(t, "AuthUnavailableError")
    bases = [ast.unparse(x) for x in cls.bases]
    init = _func(cls, "__init__")
    stmts = _body(init)
    default_msg = ""
    ok = False
    if len(stmts) == 3 and ast.unparse(stmts[1]) == "self.detail = detail" and ast.unparse(stmts[2]) == "self.retry_after = retry_after":
        c = stmts[0]
        if (
            isinstance(c, ast.Expr)
            and isinstance(c.value, ast.Call)
            and ast.unparse(c.value.func) == "super().__init__"
            and len(c.value.args) == 1
            and isinstance(c.value.args[0], ast.BoolOp)
            and isinstance(c.value.args[0].op, ast.Or)
            and ast.unparse(c.value.args[0].values[0]) == "detail"
            and isinstance(c.value.args[0].values[1], ast.Constant)
        ):
            default_msg = c.value.args[0].values[1].value
            ok = True
    retry_default = None
    for a, d in zip(init.args.kwonlyargs, init.args.kw_defaults):
        if a.arg == "retry_after" and d is not None:
            retry_default = ast.literal_eval(d)
    return {"bases": bases, "recognised": ok and isinstance(retry_default, int), "default_msg": default_msg, "retry_default": retry_default or 0}


def declare_shapes(t: ast.Module) -> dict:
    """The three declaration helpers all de-duplicate with dict.fromkeys (first-seen order)."""
    d = [ast.unparse(s) for s in _body(_func(t, "declare_proxy_headers"))]
    ok_d = d == [
        "merged = tuple(dict.fromkeys([*proxy_headers_of(fn), *headers]))",
        "setattr(fn, _PROXY_HEADERS_ATTR, merged)",
        "return fn",
    ]
    m = [ast.unparse(s) for s in _body(_func(t, "merge_proxy_headers"))]
    ok_m = m == [
        "names: list[str] = []",
        "for source in sources:\n    names.extend(proxy_headers_of(source))",
        "return tuple(dict.fromkeys(names))",
    ]
    p = [ast.unparse(s) for s in _body(_func(t, "proxy_headers_of"))]
    ok_p = p == [
        "declared = getattr(fn, _PROXY_HEADERS_ATTR, ())",
        "if isinstance(declared, tuple | list):\n    return tuple((str(name) for name in declared))",
        "return ()",
    ]
    return {"recognised": ok_d and ok_m and ok_p}


def hint_segments(t: ast.Module) -> dict:
    """build_proxy_hint: names = tuple(dict.fromkeys(headers)); if not names: return ""; listed = ", ".join(names);
    noun = A if len(names) == 1 else B; return f"…{listed} {noun}…{C if len(names) == 1 else D}…" """
    fn = _func(t, "build_proxy_hint")
    body = _body(fn)
    rec: dict = {"recognised": False, "segs": [], "sep": "", "noun1": "", "nounN": ""}
    try:
        a, i, l, n, r = body
        if not (
            ast.unparse(a) == "names = tuple(dict.fromkeys(headers))"
            and isinstance(i, ast.If)
            and ast.unparse(i.test) == "not names"
            and [ast.unparse(s) for s in i.body] == ["return ''"]
            and isinstance(l, ast.Assign)
            and ast.unparse(l.targets[0]) == "listed"
            and isinstance(l.value, ast.Call)
            and isinstance(l.value.func, ast.Attribute)
            and l.value.func.attr == "join"
            and isinstance(l.value.func.value, ast.Constant)
            and ast.unparse(l.value.args[0]) == "names"
            and isinstance(n, ast.Assign)
            and ast.unparse(n.targets[0]) == "noun"
            and isinstance(n.value, ast.IfExp)
            and ast.unparse(n.value.test) == "len(names) == 1"
            and isinstance(r, ast.Return)
            and isinstance(r.value, ast.JoinedStr)
        ):
            return rec
        rec["sep"] = l.value.func.value.value
        rec["noun1"] = ast.literal_eval(n.value.body)
        rec["nounN"] = ast.literal_eval(n.value.orelse)
        segs: list[tuple[str, str, str]] = []
        for v in r.value.values:
            if isinstance(v, ast.Constant):
                segs.append(("lit", v.value, ""))
            elif isinstance(v, ast.FormattedValue) and v.conversion == -1 and v.format_spec is None:
                e = v.value
                if isinstance(e, ast.Name) and e.id == "listed":
                    segs.append(("listed", "", ""))
                elif isinstance(e, ast.Name) and e.id == "noun":
                    segs.append(("noun", "", ""))
                elif isinstance(e, ast.IfExp) and ast.unparse(e.test) == "len(names) == 1":
                    segs.append(("oneMany", ast.literal_eval(e.body), ast.literal_eval(e.orelse)))
                else:
                    return rec
            else:
                return rec
        rec["segs"] = segs
        rec["recognised"] = True
    except ValueError:
        pass
    return rec


# ------------------------------------------------------------------------------------------ _bearer.py


def combine_shape(t: ast.Module) -> dict:
    """if not codes: return E; if all(code is A for code in codes): return R; for code in codes: if code is not S: return code; return F"""
    fn = _func(t, "_combine_reasons")
    body = _body(fn)
    rec = {"recognised": False, "empty": "", "allMember": "", "allResult": "", "skip": "", "fall": ""}
    try:
        i0, i1, f, r = body
        ok = (
            isinstance(i0, ast.If)
            and ast.unparse(i0.test) == "not codes"
            and len(i0.body) == 1
            and isinstance(i0.body[0], ast.Return)
            and isinstance(i1, ast.If)
            and isinstance(i1.test, ast.Call)
            and ast.unparse(i1.test.func) == "all"
            and isinstance(i1.test.args[0], ast.GeneratorExp)
            and ast.unparse(i1.test.args[0].generators[0]) == " for code in codes"
            and isinstance(i1.test.args[0].elt, ast.Compare)
            and isinstance(i1.test.args[0].elt.ops[0], (ast.Is, ast.Eq))
            and ast.unparse(i1.test.args[0].elt.left) == "code"
            and len(i1.body) == 1
            and isinstance(i1.body[0], ast.Return)
            and isinstance(f, ast.For)
            and ast.unparse(f.target) == "code"
            and ast.unparse(f.iter) == "codes"
            and len(f.body) == 1
            and isinstance(f.body[0], ast.If)
            and isinstance(f.body[0].test, ast.Compare)
            and isinstance(f.body[0].test.ops[0], (ast.IsNot, ast.NotEq))
            and ast.unparse(f.body[0].test.left) == "code"
            and [ast.unparse(s) for s in f.body[0].body] == ["return code"]
            and not f.body[0].orelse
            and not f.orelse
            and isinstance(r, ast.Return)
        )
        if ok:
            rec["empty"] = _member(i0.body[0].value) or ""
            rec["allMember"] = _member(i1.test.args[0].elt.comparators[0]) or ""
            rec["allResult"] = _member(i1.body[0].value) or ""
            rec["skip"] = _member(f.body[0].test.comparators[0]) or ""
            rec["fall"] = _member(r.value) or ""
            rec["recognised"] = all(rec[k] for k in ("empty", "allMember", "allResult", "skip", "fall"))
    except ValueError:
        pass
    return rec


def chain_shape(t: ast.Module) -> dict:
    outer = _func(t, "chain_authenticate")
    inner = _func(outer, "authenticate")
    rec: dict = {"recognised": False, "catches": [], "codeClass": "", "codeElse": "", "pre": "", "sep": "", "post": "",
                 "declares": False, "rejectsEmpty": False, "rejectsGate": False}
    body = _body(inner)
    try:
        a0, a1, a2, loop, det, rs = body
        if not (
            ast.unparse(a0) == "last_error: ValueError | None = None"
            and ast.unparse(a1) == "reasons: list[str] = []"
            and ast.unparse(a2) == "codes: list[AuthReason] = []"
            and isinstance(loop, ast.For)
            and ast.unparse(loop.target) == "auth_fn"
            and ast.unparse(loop.iter) == "authenticators"
            and len(loop.body) == 1
            and isinstance(loop.body[0], ast.Try)
            and not loop.orelse
        ):
            return rec
        tr = loop.body[0]
        if not ([ast.unparse(s) for s in tr.body] == ["return auth_fn(req)"] and len(tr.handlers) == 1 and not tr.orelse and not tr.finalbody):
            return rec
        h = tr.handlers[0]
        rec["catches"] = _names(h.type)
        hb = [ast.unparse(s) for s in h.body]
        if not (len(hb) == 3 and hb[0] == "last_error = exc" and hb[1] == "reasons.append(str(exc) or type(exc).__name__)"):
            return rec
        app = h.body[2]
        if not (
            isinstance(app, ast.Expr)
            and isinstance(app.value, ast.Call)
            and ast.unparse(app.value.func) == "codes.append"
            and isinstance(app.value.args[0], ast.IfExp)
        ):
            return rec
        ife = app.value.args[0]
        if not (
            ast.unparse(ife.body) == "exc.reason"
            and isinstance(ife.test, ast.Call)
            and ast.unparse(ife.test.func) == "isinstance"
            and ast.unparse(ife.test.args[0]) == "exc"
        ):
            return rec
        rec["codeClass"] = ast.unparse(ife.test.args[1])
        rec["codeElse"] = _member(ife.orelse) or ""
        if not (
            isinstance(det, ast.Assign)
            and ast.unparse(det.targets[0]) == "detail"
            and isinstance(det.value, ast.Call)
            and isinstance(det.value.func, ast.Attribute)
            and det.value.func.attr == "join"
            and isinstance(det.value.func.value, ast.Constant)
            and ast.unparse(det.value.args[0]) == "reasons"
        ):
            return rec
        rec["sep"] = det.value.func.value.value
        if not (
            isinstance(rs, ast.Raise)
            and isinstance(rs.exc, ast.Call)
            and ast.unparse(rs.exc.func) == "AuthFailure"
            and len(rs.exc.args) == 2
            and ast.unparse(rs.exc.args[0]) == "_combine_reasons(codes)"
            and isinstance(rs.exc.args[1], ast.JoinedStr)
        ):
            return rec
        js = rs.exc.args[1].values
        if not (
            len(js) == 3
            and isinstance(js[0], ast.Constant)
            and isinstance(js[1], ast.FormattedValue)
            and ast.unparse(js[1].value) == "detail"
            and isinstance(js[2], ast.Constant)
        ):
            return rec
        rec["pre"], rec["post"] = js[0].value, js[2].value
        src = ast.unparse(outer)
        rec["declares"] = "declare_proxy_headers(authenticate, *merge_proxy_headers(*authenticators))" in src
        rec["rejectsEmpty"] = any(
            isinstance(s, ast.If) and ast.unparse(s.test) == "not authenticators" and isinstance(s.body[0], ast.Raise)
            for s in _body(outer)
        )
        rec["rejectsGate"] = "isinstance(auth_fn, PreconditionGate)" in src
        rec["recognised"] = bool(rec["codeElse"]) and rec["declares"]
    except ValueError:
        pass
    return rec


def _returns_context_only(stmts: list[ast.stmt]) -> bool:
    """Every path through `stmts` ends in `return AuthContext(...)`: only `if` (on the gate's claims) and `return`
    statements, the last one a `return`; the only calls are `AuthContext(...)` and `claims.get(...)` — nothing is
    raised, nothing else is invoked, so for the 401 contract the branch is "the gate passed -> the request passes"."""
    if not stmts or not isinstance(stmts[-1], ast.Return):
        return False
    for s in stmts:
        if isinstance(s, ast.Return):
            if not (isinstance(s.value, ast.Call) and ast.unparse(s.value.func) == "AuthContext"):
                return False
        elif isinstance(s, ast.If):
            if not _returns_context_only(s.body) or (s.orelse and not _returns_context_only(s.orelse)):
                return False
        else:
            return False
        for n in ast.walk(s):
            if isinstance(n, ast.Call) and ast.unparse(n.func) not in ("AuthContext", "claims.get"):
                return False
    return True


def require_all_shape(t: ast.Module) -> dict:
    outer = _func(t, "require_all")
    inner = _func(outer, "authenticate")
    stmts = _body(inner)
    ok = False
    gate_only_returns: list[str] = []
    try:
        c, i, x, m, m2, r = stmts
        ok = (
            ast.unparse(c) == "claims = gate(req)"
            and isinstance(i, ast.If)
            and ast.unparse(i.test) == "inner is None"
            and _returns_context_only(i.body)
            and not i.orelse
            and ast.unparse(x) == "ctx = inner(req)"
            and isinstance(r, ast.Return)
        )
        # nothing is raised by the composition itself
        ok = ok and not any(isinstance(n, ast.Raise) for n in ast.walk(inner))
        if ok:
            for n in sorted((x for x in ast.walk(i) if isinstance(x, ast.Return)), key=lambda x: x.lineno):
                if isinstance(n.value, ast.Call):
                    kw = {k.arg: ast.unparse(k.value) for k in n.value.keywords}
                    gate_only_returns.append("authenticated=" + kw.get("authenticated", "?"))
        # no try/except anywhere: whatever the gate or the credential raises propagates unchanged
        ok = ok and not any(isinstance(n, (ast.Try, ast.With)) for n in ast.walk(inner))
    except ValueError:
        pass
    declares = "declare_proxy_headers(authenticate, *merge_proxy_headers(gate, inner))" in ast.unparse(outer)
    gate_cls = _class(t, "PreconditionGate")
    gate_init = [ast.unparse(s) for s in _body(_func(gate_cls, "__init__"))]
    gate_ok = "self.vgi_proxy_headers = tuple(proxy_headers)" in gate_init and [
        ast.unparse(s) for s in _body(_func(gate_cls, "__call__"))
    ] == ["return self._fn(req)"]
    return {"recognised": ok and declares and gate_ok, "gate_only_returns": gate_only_returns}


# ------------------------------------------------------------------------------------------ _middleware.py


def middleware_shape(t: ast.Module) -> dict:
    cls = _class(t, "_AuthMiddleware")
    fn = _func(cls, "process_request")
    tries = [n for n in _body(fn) if isinstance(n, ast.Try)]
    rec: dict = {"recognised": False, "handlers": [], "classifies": False, "retry": False}
    if len(tries) != 1:
        return rec
    tr = tries[0]
    if [ast.unparse(s) for s in tr.body] != ["auth = self._authenticate(req)"] or tr.orelse or tr.finalbody:
        return rec
    hs = []
    for h in tr.handlers:
        raises = [n for n in h.body if isinstance(n, ast.Raise)]
        if len(raises) != 1 or not isinstance(raises[0].exc, ast.Call) or h.body[-1] is not raises[0]:
            return rec
        call = raises[0].exc
        kws = {k.arg: ast.unparse(k.value) for k in call.keywords}
        err = ast.unparse(call.func)
        hs.append((_names(h.type), err, kws))
        if err == "falcon.HTTPUnauthorized":
            src = [ast.unparse(s) for s in h.body]
            rec["classifies"] = (
                src[0] == "reason = classify_auth_failure(exc)"
                and src[1] == "req.context.vgi_auth_reason = reason"
                and kws.get("description") == "str(exc)"
            )
        if err == "falcon.HTTPServiceUnavailable":
            rec["retry"] = kws.get("retry_after") == "exc.retry_after" and kws.get("description") == "str(exc)"
    rec["handlers"] = [(c, e) for c, e, _ in hs]
    rec["recognised"] = rec["classifies"] and rec["retry"]
    return rec


# ------------------------------------------------------------------------------------------ _errors.py


def serializer_shape(t: ast.Module, common: ast.Module) -> dict:
    outer = _func(t, "_make_error_serializer")
    ser = _func(outer, "_serialize")
    rec: dict = {"recognised": False, "headers": [], "needle": "", "jsonType": "", "htmlType": "", "default": "", "guard": ""}
    consts = {"AUTH_REASON_HEADER": _const(common, "AUTH_REASON_HEADER"), "AUTH_PROXY_REQUIRED_HEADER": _const(common, "AUTH_PROXY_REQUIRED_HEADER")}

    def hname(e: ast.expr) -> str | None:
        if isinstance(e, ast.Constant) and isinstance(e.value, str):
            return e.value
        if isinstance(e, ast.Name) and e.id in consts:
            return str(consts[e.id])
        return None

    body = _body(ser)
    if not (isinstance(body[0], ast.If) and isinstance(body[0].test, ast.UnaryOp) and isinstance(body[0].test.op, ast.Not)):
        return rec
    rec["guard"] = ast.unparse(body[0].test.operand)
    if not (isinstance(body[0].body[-1], ast.Return)):
        return rec
    rest = body[1:]
    src = [ast.unparse(s) for s in rest]
    # reason = getattr(req.context, 'vgi_auth_reason', AuthReason.X); if not isinstance(reason, AuthReason): reason = AuthReason.X
    a = rest[0]
    if not (
        isinstance(a, ast.Assign)
        and ast.unparse(a.targets[0]) == "reason"
        and isinstance(a.value, ast.Call)
        and ast.unparse(a.value.func) == "getattr"
        and ast.unparse(a.value.args[0]) == "req.context"
        and ast.literal_eval(a.value.args[1]) == "vgi_auth_reason"
    ):
        return rec
    d1 = _member(a.value.args[2])
    i = rest[1]
    if not (isinstance(i, ast.If) and ast.unparse(i.test) == "not isinstance(reason, AuthReason)" and len(i.body) == 1 and isinstance(i.body[0], ast.Assign)):
        return rec
    d2 = _member(i.body[0].value)
    if not d1 or d1 != d2:
        return rec
    rec["default"] = d1
    if src[2] != "detail = exc.description or ''":
        return rec
    # set_header calls at the top level of the 401 branch, in order; (name, value, only-with-note)
    headers = []
    for s in rest[3:]:
        calls: list[tuple[ast.Call, bool]] = []
        if isinstance(s, ast.Expr) and isinstance(s.value, ast.Call):
            calls.append((s.value, False))
        elif isinstance(s, ast.If) and ast.unparse(s.test) == "proxy_hint" and not s.orelse:
            for x in s.body:
                if isinstance(x, ast.Expr) and isinstance(x.value, ast.Call):
                    calls.append((x.value, True))
        for c, cond in calls:
            if ast.unparse(c.func) == "resp.set_header":
                n = hname(c.args[0])
                v = "<reason>" if ast.unparse(c.args[1]) == "reason.value" else hname(c.args[1])
                if n is None or v is None:
                    return rec
                headers.append((n, v, cond))
    rec["headers"] = headers
    # the negotiation `if _wants_html(req): … text/html … else: … MEDIA_JSON`
    neg = [s for s in rest if isinstance(s, ast.If) and ast.unparse(s.test) == "_wants_html(req)"]
    if len(neg) != 1:
        return rec

    def ctype(stmts: list[ast.stmt]) -> str | None:
        for x in stmts:
            if isinstance(x, ast.Assign) and ast.unparse(x.targets[0]) == "resp.content_type":
                if isinstance(x.value, ast.Constant):
                    return str(x.value.value)
                if ast.unparse(x.value) == "falcon.MEDIA_JSON":
                    return "application/json"
        return None

    def renderer(stmts: list[ast.stmt]) -> str:
        return " ".join(ast.unparse(n.func) for s in stmts for n in ast.walk(s) if isinstance(n, ast.Call) and ast.unparse(n.func).startswith("_render_"))

    ht, jt = ctype(neg[0].body), ctype(neg[0].orelse)
    if ht is None or jt is None:
        return rec
    if renderer(neg[0].body) != "_render_unauthorized_html" or renderer(neg[0].orelse) != "_render_unauthorized_json":
        return rec
    rec["htmlType"], rec["jsonType"] = ht, jt
    wh = _body(_func(t, "_wants_html"))
    if not (
        len(wh) == 1
        and isinstance(wh[0], ast.Return)
        and isinstance(wh[0].value, ast.Compare)
        and isinstance(wh[0].value.ops[0], ast.In)
        and isinstance(wh[0].value.left, ast.Constant)
        and ast.unparse(wh[0].value.comparators[0]) == "req.get_header('Accept') or ''"
    ):
        return rec
    rec["needle"] = wh[0].value.left.value
    if src[-1] != "resp.data = body":
        return rec
    rec["recognised"] = True
    return rec


def json_envelope_shape(t: ast.Module) -> dict:
    """payload = {"error": <lit>, "reason": reason.value, "detail": detail}; if proxy_hint: payload[<key>] = proxy_hint"""
    fn = _func(t, "_render_unauthorized_json")
    body = _body(fn)
    rec: dict = {"recognised": False, "keys": [], "error": "", "hintKey": ""}
    try:
        p, i, r = body
        if not (isinstance(p, ast.AnnAssign) and isinstance(p.value, ast.Dict)):
            return rec
        keys = [ast.literal_eval(k) for k in p.value.keys]  # type: ignore[arg-type]
        vals = [ast.unparse(v) for v in p.value.values]
        if vals[1:] != ["reason.value", "detail"] or not isinstance(p.value.values[0], ast.Constant):
            return rec
        rec["keys"] = keys
        rec["error"] = p.value.values[0].value
        if not (
            isinstance(i, ast.If)
            and ast.unparse(i.test) == "proxy_hint"
            and len(i.body) == 1
            and isinstance(i.body[0], ast.Assign)
            and isinstance(i.body[0].targets[0], ast.Subscript)
            and ast.unparse(i.body[0].value) == "proxy_hint"
            and not i.orelse
        ):
            return rec
        rec["hintKey"] = ast.literal_eval(i.body[0].targets[0].slice)
        rec["recognised"] = ast.unparse(r).startswith("return json.dumps(payload")
    except ValueError:
        pass
    return rec


# ------------------------------------------------------------------------------------------ _factory.py


def factory_shape(t: ast.Module) -> dict:
    """proxy_hint = build_proxy_hint([*(proxy_auth_headers or ()), *proxy_headers_of(authenticate), *((PROOF_HEADER,) if proxy_proof_required else ())])
    … app.set_error_serializer(_make_error_serializer(proxy_hint))"""
    fn = _func(t, "make_wsgi_app")
    rec: dict = {"recognised": False, "sources": []}
    for n in ast.walk(fn):
        if isinstance(n, ast.Assign) and ast.unparse(n.targets[0]) == "proxy_hint":
            c = n.value
            if not (isinstance(c, ast.Call) and ast.unparse(c.func) == "build_proxy_hint" and isinstance(c.args[0], ast.List)):
                return rec
            srcs = []
            for e in c.args[0].elts:
                if not isinstance(e, ast.Starred):
                    return rec
                s = ast.unparse(e.value)
                if s == "proxy_auth_headers or ()":
                    srcs.append("declared")
                elif s == "proxy_headers_of(authenticate)":
                    srcs.append("authenticate")
                elif s == "(PROOF_HEADER,) if proxy_proof_required else ()":
                    srcs.append("proof_required")
                else:
                    return rec
            rec["sources"] = srcs
    src = ast.unparse(fn)
    installs = "app.set_error_serializer(_make_error_serializer(proxy_hint))" in src
    # proxy_hint is assigned exactly once (never rebound per request)
    n_assign = sum(1 for n in ast.walk(fn) if isinstance(n, ast.Assign) and ast.unparse(n.targets[0]) == "proxy_hint")
    rec["recognised"] = bool(rec["sources"]) and installs and n_assign == 1
    return rec


# ------------------------------------------------------------------------------------------ _client.py


def client_shape(t: ast.Module) -> dict:
    fn = _func(t, "_parse_unauthorized")
    body = _body(fn)
    rec: dict = {"recognised": False, "suppresses": [], "fallback": "", "sniff": [], "htmlDetail": "", "emptyDetail": "",
                 "keys": []}
    try:
        a, w, i, tx, i2, r = body
        if not (ast.unparse(a) == "payload: object = None" and isinstance(w, ast.With) and len(w.items) == 1):
            return rec
        ce = w.items[0].context_expr
        if not (isinstance(ce, ast.Call) and ast.unparse(ce.func) == "contextlib.suppress"):
            return rec
        rec["suppresses"] = [ast.unparse(x) for x in ce.args]
        if [ast.unparse(s) for s in w.body] != ["payload = json.loads(content)"]:
            return rec
        if not (isinstance(i, ast.If) and ast.unparse(i.test) == "isinstance(payload, dict)" and not i.orelse):
            return rec
        ib = [ast.unparse(s) for s in i.body]
        if not (
            len(ib) == 3
            and ib[0] == "raw_reason = str(payload.get('reason', ''))"
            and ib[2] == "return AuthenticationError(reason, str(payload.get('detail', '')), str(payload.get('proxy_hint', '')))"
        ):
            return rec
        ra = i.body[1]
        if not (
            isinstance(ra, ast.Assign)
            and isinstance(ra.value, ast.IfExp)
            and ast.unparse(ra.value.test) == "raw_reason in _AUTH_REASONS"
            and ast.unparse(ra.value.body) == "AuthReason(raw_reason)"
        ):
            return rec
        rec["fallback"] = _member(ra.value.orelse) or ""
        rec["keys"] = ["reason", "detail", "proxy_hint"]
        if ast.unparse(tx) != "text = content.decode(errors='replace').strip()":
            return rec
        if not (isinstance(i2, ast.If) and isinstance(i2.test, ast.BoolOp) and isinstance(i2.test.op, ast.Or)):
            return rec
        sniff = []
        for v in i2.test.values:
            # text[:N].lower() == "<lit>"
            if not (
                isinstance(v, ast.Compare)
                and isinstance(v.ops[0], ast.Eq)
                and isinstance(v.comparators[0], ast.Constant)
                and isinstance(v.left, ast.Call)
                and isinstance(v.left.func, ast.Attribute)
                and v.left.func.attr == "lower"
                and isinstance(v.left.func.value, ast.Subscript)
                and ast.unparse(v.left.func.value.value) == "text"
                and isinstance(v.left.func.value.slice, ast.Slice)
                and v.left.func.value.slice.lower is None
            ):
                return rec
            sniff.append((int(ast.literal_eval(v.left.func.value.slice.upper)), v.comparators[0].value))  # type: ignore[arg-type]
        rec["sniff"] = sniff
        if not (len(i2.body) == 1 and isinstance(i2.body[0], ast.Assign) and isinstance(i2.body[0].value, ast.Constant)):
            return rec
        rec["htmlDetail"] = i2.body[0].value.value
        e = i2.orelse
        if not (
            len(e) == 1
            and isinstance(e[0], ast.Assign)
            and isinstance(e[0].value, ast.BoolOp)
            and isinstance(e[0].value.op, ast.Or)
            and ast.unparse(e[0].value.values[0]) == "text[:_MAX_UNAUTHORIZED_DETAIL]"
            and isinstance(e[0].value.values[1], ast.Constant)
        ):
            return rec
        rec["emptyDetail"] = e[0].value.values[1].value
        m = _member(r.value.args[0]) if isinstance(r, ast.Return) and isinstance(r.value, ast.Call) else None
        if not (m and ast.unparse(r.value.func) == "AuthenticationError" and ast.unparse(r.value.args[1]) == "detail"):  # type: ignore[union-attr]
            return rec
        rec["nonEnvelope"] = m
        # the parser reads the body only (no header / extra argument can steer the reason past the closed-set check)
        rec["params"] = [a.arg for a in fn.args.posonlyargs + fn.args.args + fn.args.kwonlyargs]
        rec["recognised"] = bool(rec["fallback"]) and rec["params"] == ["content"]
    except ValueError:
        pass
    return rec


def isspace_ranges() -> list[tuple[int, int]]:
    out: list[list[int]] = []
    for cp in range(sys.maxunicode + 1):
        if 0xD800 <= cp <= 0xDFFF:
            continue
        if chr(cp).isspace():
            if out and out[-1][1] == cp - 1:
                out[-1][1] = cp
            else:
                out.append([cp, cp])
    return [(a, c) for a, c in out]


# ------------------------------------------------------------------------------------------ emit


def emit() -> dict[str, str]:
    un, be, er, mi, fa, cl, co = (_tree(f) for f in (F_UNAUTH, F_BEARER, F_ERRORS, F_MIDDLE, F_FACTORY, F_CLIENT, F_COMMON))
    members = reason_members(un)
    cs = classify_shape(un)
    af = auth_failure_shape(un)
    ua = unavailable_shape(un)
    de = declare_shapes(un)
    hs = hint_segments(un)
    cb = combine_shape(be)
    ch = chain_shape(be)
    ra = require_all_shape(be)
    mw = middleware_shape(mi)
    se = serializer_shape(er, co)
    je = json_envelope_shape(er)
    fs = factory_shape(fa)
    cp = client_shape(cl)
    reason_attr = _const(un, "REASON_ATTR")
    auth_reasons_ok = any(
        isinstance(n, ast.Assign) and ast.unparse(n) == "_AUTH_REASONS = frozenset((reason.value for reason in AuthReason))" for n in cl.body
    )
    max_detail = _const(cl, "_MAX_UNAUTHORIZED_DETAIL")
    proof_header = _const(co, "PROOF_HEADER")
    xfcc = _const(_tree(F_MTLS), "_XFCC_HEADER")
    # proxy_proof_gate declares its header only in require mode
    pg = ast.unparse(_func(_tree(F_PROOF), "proxy_proof_gate"))
    proof_gate_ok = "required = config.mode == 'require'" in pg and "proxy_headers=(PROOF_HEADER,) if required else ()" in pg
    proof_error = _class(_tree(F_PROOF), "ProofError")
    proof_error_ok = [ast.unparse(x) for x in proof_error.bases] == ["PermissionError"] and (
        "setattr(self, REASON_ATTR, AuthReason.PROXY_REQUIRED)" in ast.unparse(proof_error)
    )

    def segs() -> str:
        out = []
        for k, x, y in hs["segs"]:
            if k == "lit":
                out.append(f"  .lit {q(x)}")
            elif k == "listed":
                out.append("  .listed")
            elif k == "noun":
                out.append("  .noun")
            else:
                out.append(f"  .oneMany {q(x)} {q(y)}")
        return ",\n".join(out)

    handlers = ",\n".join(f"  ({qlist(c)}, {q(e)})" for c, e in mw["handlers"])
    headers = ",\n".join(f"  ({q(n)}, {q(v)}, {b(c)})" for n, v, c in se["headers"])
    sniff = ", ".join(f"({n}, {q(s)})" for n, s in cp["sniff"])
    spaces = ", ".join(f"({a}, {c})" for a, c in isspace_ranges())
    body = f"""namespace VgiVerif.Gen.C21

/-- `class AuthReason(StrEnum)` of {F_UNAUTH}: (member, value) in declaration order -/
def reasonMembers : List (String × String) := [
{",\n".join(f"  ({q(n)}, {q(v)})" for n, v in members)}
]

/-- `REASON_ATTR` -/
def reasonAttr : String := {q(str(reason_attr))}

/-- `classify_auth_failure`: declared attribute (when an `AuthReason`) wins; `isinstance(exc, <cls>)` → `<then>`; else `<else>` -/
def classifyRecognised : Bool := {b(cs["recognised"])}
/-- the test under which the declared attribute is returned as the reason (anything else falls through to the guess) -/
def classifyGuard : String := {q(cs["guard"])}
def classifyClass : String := {q(cs["cls"])}
def classifyThen : String := {q(cs["then"])}
def classifyElse : String := {q(cs["else"])}

/-- `class AuthFailure(<bases>)`, `__init__` = `super().__init__(detail or reason.value); self.reason = reason; setattr(self, REASON_ATTR, reason)` -/
def authFailureBases : List String := {qlist(af["bases"])}
def authFailureRecognised : Bool := {b(af["recognised"])}

/-- `class AuthUnavailableError(<bases>)`; `super().__init__(detail or <default>)`, `retry_after` default -/
def unavailableBases : List String := {qlist(ua["bases"])}
def unavailableRecognised : Bool := {b(ua["recognised"])}
def unavailableDefaultMsg : String := {q(ua["default_msg"])}
def unavailableDefaultRetry : Int := {int(ua["retry_default"])}

/-- `declare_proxy_headers` / `merge_proxy_headers` / `proxy_headers_of` de-duplicate with `dict.fromkeys` (first-seen order) -/
def declareRecognised : Bool := {b(de["recognised"])}

/-- `_combine_reasons`: `not codes` → empty; `all(code is allMember)` → allResult; first `code is not skip`; else fall -/
def combineRecognised : Bool := {b(cb["recognised"])}
def combineEmpty : String := {q(cb["empty"])}
def combineAllMember : String := {q(cb["allMember"])}
def combineAllResult : String := {q(cb["allResult"])}
def combineSkip : String := {q(cb["skip"])}
def combineFall : String := {q(cb["fall"])}

/-- `chain_authenticate.authenticate`: `except <catches>`; code = `exc.reason if isinstance(exc, <codeClass>) else <codeElse>` -/
def chainRecognised : Bool := {b(ch["recognised"])}
def chainCatches : List String := {qlist(ch["catches"])}
def chainCodeClass : String := {q(ch["codeClass"])}
def chainCodeElse : String := {q(ch["codeElse"])}
def chainDetailPre : String := {q(ch["pre"])}
def chainDetailSep : String := {q(ch["sep"])}
def chainDetailPost : String := {q(ch["post"])}
def chainRejectsEmpty : Bool := {b(ch["rejectsEmpty"])}
def chainRejectsGate : Bool := {b(ch["rejectsGate"])}

/-- `require_all.authenticate`: gate first, no handler around gate or credential, nothing raised by the composition
    itself; without a credential every path after the gate returns an `AuthContext`; declarations of both carried forward -/
def requireAllRecognised : Bool := {b(ra["recognised"])}
/-- the contexts the gate-only branch returns (every path returns one; none raises) -/
def requireAllGateOnlyReturns : List String := {qlist(ra["gate_only_returns"])}

/-- `_AuthMiddleware.process_request`: the `except` clauses around `self._authenticate(req)` in order: (classes, falcon error raised) -/
def middlewareRecognised : Bool := {b(mw["recognised"])}
def middlewareHandlers : List (List String × String) := [
{handlers}
]

/-- `_make_error_serializer._serialize`: `if not <guard>: default JSON; return`; 401 branch sets these headers
    (name, value — `<reason>` = `reason.value` —, only when the app has a proxy note) -/
def serializerRecognised : Bool := {b(se["recognised"])}
def serializerGuard : String := {q(se["guard"])}
def serializerDefaultReason : String := {q(se["default"])}
def serializerHeaders : List (String × String × Bool) := [
{headers}
]
def htmlNeedle : String := {q(se["needle"])}
def htmlContentType : String := {q(se["htmlType"])}
def jsonContentType : String := {q(se["jsonType"])}

/-- `_render_unauthorized_json`: keys of the envelope, the literal under the first key, the conditional key -/
def envelopeRecognised : Bool := {b(je["recognised"])}
def envelopeKeys : List String := {qlist(je["keys"])}
def envelopeError : String := {q(je["error"])}
def envelopeHintKey : String := {q(je["hintKey"])}

inductive Seg where
  | lit (s : String)
  | listed
  | noun
  | oneMany (one many : String)
deriving Repr, DecidableEq

/-- `build_proxy_hint`: `""` for no names, else this f-string over the de-duplicated names -/
def hintRecognised : Bool := {b(hs["recognised"])}
def hintListSep : String := {q(hs["sep"])}
def hintNounOne : String := {q(hs["noun1"])}
def hintNounMany : String := {q(hs["nounN"])}
def hintSegments : List Seg := [
{segs()}
]

/-- `make_wsgi_app`: the sources of the names handed to `build_proxy_hint`, in order; computed once, installed in the serializer -/
def factoryRecognised : Bool := {b(fs["recognised"])}
def hintSources : List String := {qlist(fs["sources"])}

/-- header names of the built-in proxy-dependent authenticators -/
def proofHeader : String := {q(str(proof_header))}
def xfccHeader : String := {q(str(xfcc))}
def proofGateDeclaresOnlyInRequire : Bool := {b(proof_gate_ok)}
def proofErrorIsPermissionWithProxyRequired : Bool := {b(proof_error_ok)}

/-- `_parse_unauthorized` -/
def clientRecognised : Bool := {b(cp["recognised"] and auth_reasons_ok)}
def clientParseParams : List String := {qlist(cp.get("params", []))}
def clientSuppresses : List String := {qlist(cp["suppresses"])}
def clientUnknownReason : String := {q(cp["fallback"])}
def clientNonEnvelopeReason : String := {q(cp.get("nonEnvelope", ""))}
def clientMaxDetail : Nat := {int(max_detail)}  -- _MAX_UNAUTHORIZED_DETAIL
def clientHtmlSniff : List (Nat × String) := [{sniff}]
def clientHtmlDetail : String := {q(cp["htmlDetail"])}
def clientEmptyDetail : String := {q(cp["emptyDetail"])}

/-- code-point ranges with `str.isspace()` in the running interpreter (what `str.strip()` removes) -/
def isspaceRanges : List (Nat × Nat) := [{spaces}]

end VgiVerif.Gen.C21
"""
    return {"C21Unauthorized.lean": body}
