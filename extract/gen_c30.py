"""C30: constants and *shapes* of the external-storage offload code.

Regenerated from the working tree on every check run into lean/VgiVerif/Gen/C30.lean:
  * metadata keys, log levels, codecs, the retry cap;
  * the order of the checks in `_fetch_and_resolve` (sha → open → pointer-inside → classify → counts → schema → deliver),
    including *how* `_dispatch_log_or_error` is called inside the read loop (classification only, no callback);
  * the guards of `maybe_externalize_batch` / `maybe_externalize_collector` (order, comparison operator);
  * the tests of `is_external_location_batch` and `_dispatch_log_or_error`;
  * whether the digest is taken before compression and put on the pointer (server and client-upload path);
  * the call sites of externalize / resolve in `vgi_rpc/rpc/_wire.py`.
`Model/C30.lean` computes with the constants and pins every shape with an `example … := by decide`, so a source edit
either changes the model or stops it from compiling.
"""

from __future__ import annotations

import ast
import os
from pathlib import Path

from .regex_to_lean import lean_str

REPO = Path(os.environ.get("VERIF_REPO", "/repo"))
PROPS = ["C30"]


def _fn(tree: ast.Module, name: str) -> ast.FunctionDef | None:
    for n in ast.walk(tree):
        if isinstance(n, (ast.FunctionDef, ast.AsyncFunctionDef)) and n.name == name:
            return n  # type: ignore[return-value]
    return None


def _is_call(n: ast.AST, dotted: str) -> bool:
    return isinstance(n, ast.Call) and ast.unparse(n.func) == dotted


def _fetch_order(fn: ast.FunctionDef | None) -> list[str]:
    """Labels of the checks of `_fetch_and_resolve`, in source order."""
    if fn is None:
        return ["missing"]
    ev: list[tuple[int, int, str]] = []
    loops = [n for n in ast.walk(fn) if isinstance(n, ast.While)]
    in_while = {id(x) for w in loops for x in ast.walk(w)}
    for n in ast.walk(fn):
        if isinstance(n, ast.Compare) and len(n.ops) == 1:
            src = ast.unparse(n)
            if isinstance(n.ops[0], ast.NotEq) and "actual_sha256" in src and "expected_sha256" in src:
                ev.append((n.lineno, n.col_offset, "sha"))
            elif src == "fetched_cm.get(LOCATION_KEY) is not None":
                ev.append((n.lineno, n.col_offset, "location"))
            elif src == "len(data_batches) == 0":
                ev.append((n.lineno, n.col_offset, "count0"))
            elif src == "len(data_batches) > 1":
                ev.append((n.lineno, n.col_offset, "countN"))
            elif src == "resolved_batch.schema != expected_schema":
                ev.append((n.lineno, n.col_offset, "schema"))
        elif _is_call(n, "ipc.open_stream"):
            ev.append((n.lineno, n.col_offset, "open"))
        elif _is_call(n, "_dispatch_log_or_error"):
            assert isinstance(n, ast.Call)
            third = ast.unparse(n.args[2]) if len(n.args) > 2 else "?"
            if id(n) in in_while:
                ev.append((n.lineno, n.col_offset, "classify" if third == "None" else f"dispatch_in_loop({third})"))
            else:
                ev.append((n.lineno, n.col_offset, "deliver" if third == "on_log" else f"deliver({third})"))
    return [lab for _, _, lab in sorted(ev)]


def _guards(fn: ast.FunctionDef | None) -> list[str]:
    """Leading guards of maybe_externalize_*: each returns the input unchanged."""
    if fn is None:
        return ["missing"]
    out: list[str] = []
    for st in fn.body:
        if isinstance(st, ast.Expr) and isinstance(st.value, ast.Constant):
            continue  # docstring
        if isinstance(st, ast.If) and any(isinstance(x, ast.Return) for x in st.body):
            t = st.test
            src = ast.unparse(t)
            if src == "config.storage is None":
                out.append("storage_none")
            elif src == "batch.num_rows == 0":
                out.append("zero_rows")
            elif (
                isinstance(t, ast.Compare)
                and len(t.ops) == 1
                and "get_total_buffer_size()" in ast.unparse(t.left)
                and ast.unparse(t.comparators[0]) == "config.externalize_threshold_bytes"
            ):
                out.append("size:" + type(t.ops[0]).__name__)
            else:
                out.append("other:" + src)
            continue
        if isinstance(st, ast.Try):
            body = ast.unparse(st.body[0]) if st.body else ""
            hs = [ast.unparse(h.type) if h.type is not None else "" for h in st.handlers]
            if body == "data_ab = out.data_batch" and hs == ["RuntimeError"]:
                out.append("no_data")
            else:
                out.append("other:try")
            continue
        break
    return out


def _sha_shape(fn: ast.FunctionDef | None) -> tuple[bool, bool]:
    """(digest taken before compression, pointer built with sha256=<that digest>)."""
    if fn is None:
        return False, False
    sha_line = comp_line = None
    ptr = False
    for n in ast.walk(fn):
        if _is_call(n, "hashlib.sha256") and sha_line is None:
            sha_line = n.lineno
        if _is_call(n, "_codec_compress") and comp_line is None:
            comp_line = n.lineno
        if _is_call(n, "make_external_location_batch"):
            assert isinstance(n, ast.Call)
            ptr = any(k.arg == "sha256" and ast.unparse(k.value) == "data_sha256" for k in n.keywords)
    return (sha_line is not None and comp_line is not None and sha_line < comp_line), ptr


def _compression_block(fn: ast.FunctionDef | None) -> list[str]:
    """Statements of the `if config.compression is not None:` block: what is uploaded and under which Content-Encoding."""
    if fn is None:
        return ["missing"]
    for st in fn.body:
        if isinstance(st, ast.If) and ast.unparse(st.test) == "config.compression is not None":
            return [ast.unparse(x) for x in st.body] + (["else: " + ast.unparse(x) for x in st.orelse])
    return ["missing"]


def _returns_false_tests(fn: ast.FunctionDef | None) -> list[str]:
    if fn is None:
        return ["missing"]
    out = []
    for st in fn.body:
        if isinstance(st, ast.If) and len(st.body) == 1 and isinstance(st.body[0], ast.Return):
            out.append(ast.unparse(st.test) + " -> " + ast.unparse(st.body[0].value) if st.body[0].value else "")
        elif isinstance(st, ast.Return) and st.value is not None:
            out.append("return " + ast.unparse(st.value))
    return out


def _classify_tests(fn: ast.FunctionDef | None) -> list[str]:
    """Top-level `if … return False` guards of _dispatch_log_or_error + the EXCEPTION comparison."""
    if fn is None:
        return ["missing"]
    out = []
    for st in fn.body:
        if isinstance(st, ast.If):
            rets = [x for x in st.body if isinstance(x, ast.Return)]
            if rets and ast.unparse(rets[-1].value) == "False":
                out.append("data if " + ast.unparse(st.test))
            elif any(isinstance(x, ast.Raise) for x in st.body):
                out.append("raise if " + ast.unparse(st.test))
        elif isinstance(st, ast.Try):
            # `try: level = Level(level_str)  except ValueError: … return True` — an unknown level is consumed silently
            body = ast.unparse(st.body[0]) if st.body else ""
            for h in st.handlers:
                rets = [x for x in h.body if isinstance(x, ast.Return)]
                if body == "level = Level(level_str)" and rets and ast.unparse(rets[-1].value) == "True":
                    out.append("ignored if Level(level_str) raises " + (ast.unparse(h.type) if h.type is not None else "?"))
                else:
                    out.append("other:try " + body)
        elif isinstance(st, ast.Return) and st.value is not None:
            out.append("return " + ast.unparse(st.value))
    return out


def _retry(fn: ast.FunctionDef | None) -> tuple[int, bool, list[str]]:
    cap, plus1, types = -1, False, []
    if fn is None:
        return cap, plus1, ["missing"]
    for n in ast.walk(fn):
        if isinstance(n, ast.Assign) and ast.unparse(n.targets[0]) == "max_retries" and _is_call(n.value, "min"):
            assert isinstance(n.value, ast.Call)
            if ast.unparse(n.value.args[0]) == "config.max_retries" and isinstance(n.value.args[1], ast.Constant):
                cap = int(n.value.args[1].value)
        if _is_call(n, "stop_after_attempt"):
            assert isinstance(n, ast.Call)
            plus1 = ast.unparse(n.args[0]) == "max_retries + 1"
        if isinstance(n, ast.AnnAssign) and ast.unparse(n.target) == "retry_types" and isinstance(n.value, ast.Tuple):
            types = [ast.unparse(e) for e in n.value.elts]
    return cap, plus1, types


def _call_sites(path: Path) -> list[str]:
    tree = ast.parse(path.read_text())
    out = []
    for fn in ast.walk(tree):
        if isinstance(fn, (ast.FunctionDef, ast.AsyncFunctionDef)):
            for n in ast.walk(fn):
                if isinstance(n, ast.Call) and isinstance(n.func, ast.Name) and n.func.id in (
                    "maybe_externalize_batch", "maybe_externalize_collector", "resolve_external_location"):
                    out.append(f"{fn.name}:{n.func.id}")
    return sorted(out)


def _strs(xs: list[str]) -> str:
    return "[" + ", ".join('"' + x.replace("\\", "\\\\").replace('"', '\\"') + '"' for x in xs) + "]"


def emit() -> dict[str, str]:
    import typing

    import vgi_rpc.external as ext
    import vgi_rpc.metadata as md
    from vgi_rpc.log import Level

    ext_tree = ast.parse((REPO / "vgi_rpc/external.py").read_text())
    wire_tree = ast.parse((REPO / "vgi_rpc/rpc/_wire.py").read_text())
    cli_tree = ast.parse((REPO / "vgi_rpc/http/_client.py").read_text())

    order = _fetch_order(_fn(ext_tree, "_fetch_and_resolve"))
    g_coll = _guards(_fn(ext_tree, "maybe_externalize_collector"))
    g_batch = _guards(_fn(ext_tree, "maybe_externalize_batch"))
    sha_c, ptr_c = _sha_shape(_fn(ext_tree, "maybe_externalize_collector"))
    sha_b, ptr_b = _sha_shape(_fn(ext_tree, "maybe_externalize_batch"))
    comp_c = _compression_block(_fn(ext_tree, "maybe_externalize_collector"))
    comp_b = _compression_block(_fn(ext_tree, "maybe_externalize_batch"))
    cap, plus1, rtypes = _retry(_fn(ext_tree, "resolve_external_location"))
    ptr_tests = _returns_false_tests(_fn(ext_tree, "is_external_location_batch"))
    cls_tests = _classify_tests(_fn(wire_tree, "_dispatch_log_or_error"))
    client_sha = False
    bp = _fn(cli_tree, "_build_pointer_request_body")
    if bp is not None:
        for n in ast.walk(bp):
            if _is_call(n, "make_external_location_batch"):
                assert isinstance(n, ast.Call)
                client_sha = any(k.arg == "sha256" and "sha256(original_body)" in ast.unparse(k.value) for k in n.keywords)
    algos = list(typing.get_args(typing.get_type_hints(ext.Compression)["algorithm"]))
    levels = [lv.value for lv in Level]
    size_ops = sorted({g.split(":")[1] for g in g_coll + g_batch if g.startswith("size:")})
    body = f"""namespace VgiVerif.Gen.C30

/-- vgi_rpc/metadata.py -/
def locationKey : String := "{md.LOCATION_KEY.decode()}"
def sha256Key : String := "{md.LOCATION_SHA256_KEY.decode()}"
def fetchMsKey : String := "{md.LOCATION_FETCH_MS_KEY.decode()}"
def sourceKey : String := "{md.LOCATION_SOURCE_KEY.decode()}"
def logLevelKey : String := "{md.LOG_LEVEL_KEY.decode()}"
def logMessageKey : String := "{md.LOG_MESSAGE_KEY.decode()}"

/-- `Level.EXCEPTION.value` and the values of the other members of `vgi_rpc.log.Level` -/
def exceptionLevel : List Char := {lean_str(Level.EXCEPTION.value)}
def logLevels : List (List Char) := [{", ".join(lean_str(v) for v in levels if v != Level.EXCEPTION.value)}]

/-- `Compression.algorithm : Literal[...]` -/
def codecs : List String := {_strs(algos)}

/-- `max_retries = min(config.max_retries, <retryCap>)`; `stop_after_attempt(max_retries + 1)` -/
def retryCap : Nat := {max(cap, 0)}
def retryCapRecognised : Bool := {str(cap >= 0 and plus1).lower()}
def retryTypes : List String := {_strs(rtypes)}

/-- checks of `_fetch_and_resolve` in source order; `classify` = `_dispatch_log_or_error(b, cm, None)` inside the read
loop (no callback), `deliver` = the callback loop after all validation -/
def fetchOrder : List String := {_strs(order)}

/-- leading guards (each returns the input unchanged) of `maybe_externalize_collector` / `maybe_externalize_batch` -/
def collectorGuards : List String := {_strs(g_coll)}
def batchGuards : List String := {_strs(g_batch)}
/-- the size guard is `size < threshold` (strict) in both -/
def sizeGuardIsLt : Bool := {str(size_ops == ["Lt"]).lower()}
/-- `maybe_externalize_batch` never externalises a zero-row batch -/
def batchSkipsZeroRows : Bool := {str("zero_rows" in g_batch).lower()}

/-- the digest is computed over the raw IPC bytes *before* compression and travels on the pointer -/
def shaBeforeCompression : Bool := {str(sha_c and sha_b).lower()}
def serverPointerHasSha : Bool := {str(ptr_c and ptr_b).lower()}
/-- `_build_pointer_request_body` (client upload-URL flow) puts sha256(original_body) on the pointer -/
def clientPointerHasSha : Bool := {str(client_sha).lower()}

/-- body of `if config.compression is not None:` in `maybe_externalize_collector` / `maybe_externalize_batch`: the uploaded
bytes are ALWAYS the codec's output and the Content-Encoding is the codec's name (whatever the sizes) -/
def collectorCompression : List String := {_strs(comp_c)}
def batchCompression : List String := {_strs(comp_b)}

/-- `is_external_location_batch` -/
def pointerTests : List String := {_strs(ptr_tests)}
/-- `_dispatch_log_or_error` -/
def classifyTests : List String := {_strs(cls_tests)}

/-- call sites in vgi_rpc/rpc/_wire.py -/
def wireCallSites : List String := {_strs(_call_sites(REPO / "vgi_rpc/rpc/_wire.py"))}

end VgiVerif.Gen.C30
"""
    return {"C30.lean": body}
