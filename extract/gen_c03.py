"""C03: tables and shapes of the dataclass (de)serialisation layer -> lean/VgiVerif/Gen/C03.lean.

From vgi_rpc/utils.py: COMPACT_MARKER, `_COMPACT_TYPES`, the scalar `type_map` of `_infer_arrow_type` and what Enum /
frozenset / dict / RecordBatch / Schema map to, the order of the type tests in `_convert_value_for_serialization` and
`_convert_value_for_deserialization`, whether the frozenset / dict branches convert their elements, whether the Enum branch
falls back to a lookup by value, whether `_compact_plan` refuses explicit-ArrowType fields.
From vgi_rpc/http/server/_state_token.py: `_UNION_STATE_MARKER`, the `struct` format of the union tag.
Anything outside the recognised fragment is emitted verbatim, which breaks `C03_shapes` (never silently accepted).
"""

from __future__ import annotations

import ast
import os
import struct
from pathlib import Path

REPO = Path(os.environ.get("VERIF_REPO", "/repo"))
PROPS = ["C03"]

_PA_TO_LEAN = {
    "pa.string()": ".utf8",
    "pa.binary()": ".binary",
    "pa.int64()": ".int .i64",
    "pa.float64()": ".f64",
    "pa.bool_()": ".bool",
    "pa.int32()": ".int .i32",
    "pa.float32()": ".f32",
}


def _func(tree: ast.AST, name: str) -> ast.FunctionDef:
    for n in ast.walk(tree):
        if isinstance(n, ast.FunctionDef) and n.name == name:
            return n
    raise LookupError(name)


def _lean_str(s: str) -> str:
    return '"' + s.replace("\\", "\\\\").replace('"', '\\"') + '"'


def _ser_label(test: ast.expr) -> str:
    src = ast.unparse(test)
    if src == "value is None":
        return "None"
    if isinstance(test, ast.BoolOp) and isinstance(test.op, ast.Or):
        names = []
        for v in test.values:
            if (isinstance(v, ast.Compare) and len(v.ops) == 1 and isinstance(v.ops[0], ast.Is) and ast.unparse(v.left) in ("value_type", "type(value)")
                    and isinstance(v.comparators[0], ast.Name)):
                names.append(v.comparators[0].id)
            else:
                return src
        if sorted(names) == sorted(["str", "int", "float", "bool", "bytes"]):
            return "exact-scalar"
        return src
    if src.startswith("isinstance(value, ") and src.endswith(")"):
        return src[len("isinstance(value, "):-1].replace("pa.", "")
    return src


def _deser_label(test: ast.expr) -> str:
    src = ast.unparse(test)
    table = [
        ("value is None", "None"),
        ("inner_type is pa.Schema", "Schema"),
        ("inner_type is pa.RecordBatch", "RecordBatch"),
        ("isinstance(inner_type, type) and hasattr(inner_type, 'deserialize_from_bytes') and isinstance(value, bytes)", "deserialize_from_bytes"),
        ("isinstance(inner_type, type) and issubclass(inner_type, Enum)", "Enum"),
        ("isinstance(inner_type, type) and hasattr(inner_type, 'ARROW_SCHEMA') and isinstance(getattr(inner_type, 'ARROW_SCHEMA', None), pa.Schema) "
         "and isinstance(value, dict)", "dataclass-dict"),
        ("get_origin(inner_type) is frozenset and isinstance(value, list)", "frozenset"),
        ("get_origin(inner_type) is dict and isinstance(value, list)", "dict"),
        ("origin is list", "list"),
    ]
    for s, lab in table:
        if src == s:
            return lab
    return src


def _calls(node: ast.AST, name: str) -> bool:
    for n in ast.walk(node):
        if isinstance(n, ast.Call):
            f = n.func
            if (isinstance(f, ast.Attribute) and f.attr == name) or (isinstance(f, ast.Name) and f.id == name):
                return True
    return False


def emit() -> dict[str, str]:
    import vgi_rpc.http.server._state_token as st
    import vgi_rpc.utils as u

    utils_src = (REPO / "vgi_rpc/utils.py").read_text()
    tree = ast.parse(utils_src)
    st_tree = ast.parse((REPO / "vgi_rpc/http/server/_state_token.py").read_text())

    marker = u.COMPACT_MARKER
    union = st._UNION_STATE_MARKER
    assert len(marker) == 1 and len(union) == 1, (marker, union)
    import pyarrow as pa

    first = u.serialize_record_batch_bytes(pa.record_batch({"a": [1]}))[0]

    # union tag format
    fmt = None
    for n in ast.walk(_func(st_tree, "_serialize_state_bytes")):
        if isinstance(n, ast.Call) and ast.unparse(n.func) == "struct.pack" and n.args and isinstance(n.args[0], ast.Constant):
            fmt = n.args[0].value
    assert isinstance(fmt, str), "struct.pack format of the union tag not found"
    tag_bytes = struct.calcsize(fmt)
    tag_max = 2 ** (8 * tag_bytes) - 1
    assert fmt in ("<H", "<I", "<B"), fmt

    # _infer_arrow_type
    infer = _func(tree, "_infer_arrow_type")
    type_map = None
    for n in ast.walk(infer):
        tgt = n.target if isinstance(n, ast.AnnAssign) else (n.targets[0] if isinstance(n, ast.Assign) else None)
        if isinstance(tgt, ast.Name) and tgt.id == "type_map" and isinstance(n.value, ast.Dict):
            type_map = n.value
    assert type_map is not None, "type_map literal not found in _infer_arrow_type"
    scalar_rows = []
    for k, v in zip(type_map.keys, type_map.values):
        key = ast.unparse(k)
        val = ast.unparse(v)
        if val not in _PA_TO_LEAN:
            raise ValueError(f"_infer_arrow_type maps {key} to {val}: outside the extractor's fragment")
        scalar_rows.append(f"({_lean_str(key)}, {_PA_TO_LEAN[val]})")
    enum_ok = arrow_obj_ok = set_ok = dict_ok = False
    for n in ast.walk(infer):
        if isinstance(n, ast.If):
            t = ast.unparse(n.test)
            rets = [ast.unparse(r.value) for r in ast.walk(n) if isinstance(r, ast.Return) and r.value is not None]
            if t == "isinstance(python_type, type) and issubclass(python_type, Enum)":
                enum_ok = rets == ["pa.dictionary(pa.int16(), pa.string())"]
            if t == "python_type is pa.RecordBatch or python_type is pa.Schema":
                arrow_obj_ok = rets == ["pa.binary()"]
            if t == "origin is frozenset":
                set_ok = "pa.list_(element_type)" in rets
            if t == "origin is dict":
                dict_ok = "pa.map_(key_type, value_type)" in rets

    # _COMPACT_TYPES
    ct = None
    for n in tree.body:
        tgt = n.target if isinstance(n, ast.AnnAssign) else (n.targets[0] if isinstance(n, ast.Assign) else None)
        if isinstance(tgt, ast.Name) and tgt.id == "_COMPACT_TYPES" and isinstance(n.value, ast.Dict):
            ct = n.value
    assert ct is not None, "_COMPACT_TYPES literal not found"
    ct_rows = []
    for k, v in zip(ct.keys, ct.values):
        names = [ast.unparse(e) for e in v.elts] if isinstance(v, ast.Tuple) else [ast.unparse(v)]
        ct_rows.append(f"({_lean_str(ast.unparse(k))}, [{', '.join(_lean_str(x) for x in names)}])")

    # branch orders
    ser = _func(tree, "_convert_value_for_serialization")
    ser_labels = [_ser_label(n.test) for n in ser.body if isinstance(n, ast.If)]
    deser = _func(tree, "_convert_value_for_deserialization")
    deser_labels = []
    set_rec = dict_rec = enum_fallback = False
    for n in deser.body:
        if isinstance(n, ast.If):
            lab = _deser_label(n.test)
            deser_labels.append(lab)
            if lab == "frozenset":
                set_rec = _calls(n, "_convert_value_for_deserialization")
            if lab == "dict":
                dict_rec = _calls(n, "_convert_value_for_deserialization")
            if lab == "Enum":
                for h in ast.walk(n):
                    if isinstance(h, ast.ExceptHandler) and h.type is not None and ast.unparse(h.type) == "KeyError":
                        enum_fallback = any(isinstance(c, ast.Compare) and ast.unparse(c) == "member.value == value" for c in ast.walk(h))

    # _compact_plan guard
    plan = _func(tree, "_compact_plan")
    refuses = False
    for n in ast.walk(plan):
        if isinstance(n, ast.If):
            t = ast.unparse(n.test)
            sets_false = any(isinstance(a, ast.Assign) and ast.unparse(a) == "supported = False" for a in ast.walk(n))
            if sets_false and ("_has_explicit_arrow_type" in t or "ArrowType" in t) and ("overrides" in t or "_ARROW_FIELD_OVERRIDES" in t):
                refuses = True

    # _serialize: columns with a dictionary below a struct are built dictionary-free and cast (null-struct children stay valid)
    ser_src = ast.unparse(_func(tree, "_serialize"))
    builds_free = "encoder.build_types[index]" in ser_src and ".cast(encoder.types[index])" in ser_src

    # transient defaults: the plan keeps the field's default_factory and every decoder calls it per instance
    plan_fn = _func(tree, "_serialization_plan")
    keeps = False
    for n in ast.walk(plan_fn):
        if isinstance(n, ast.Call) and ast.unparse(n.func) == "_FieldPlan":
            kw = {k.arg: ast.unparse(k.value) for k in n.keywords}
            keeps = kw.get("default") == "f.default" and kw.get("default_factory") == "f.default_factory"
    batch_src = ast.unparse(_func(tree, "deserialize_from_batch"))
    conv_src = ast.unparse(_func(tree, "_convert_value_for_deserialization"))
    compact_src = ast.unparse(_func(tree, "deserialize_compact"))
    per_instance = (keeps and "kwargs[name] = factory()" in batch_src and "nested_kwargs[field_plan.name] = factory()" in conv_src
                    and "kwargs[name] = cast('Callable[[], object]', factory)()" in compact_src)

    def b(x: bool) -> str:
        return "true" if x else "false"

    body = f"""import VgiVerif.Prelude.PyVal
namespace VgiVerif.Gen.C03
open VgiVerif.Py

/-- `vgi_rpc.utils.COMPACT_MARKER` (one byte) -/
def compactMarker : Nat := {marker[0]}
/-- `vgi_rpc.http.server._state_token._UNION_STATE_MARKER` (one byte) -/
def unionMarker : Nat := {union[0]}
/-- first byte of every Arrow IPC stream (continuation indicator), observed on a freshly written stream -/
def ipcFirstByte : Nat := {first}
/-- `struct.pack({fmt!r}, tag)`: size in bytes and largest tag -/
def tagBytes : Nat := {tag_bytes}
def tagMax : Nat := {tag_max}

/-- `_infer_arrow_type`: the `type_map` of plain scalars -/
def scalarArrow : List (String × ATy) := [{', '.join(scalar_rows)}]
/-- `_infer_arrow_type`: Enum ↦ dictionary<int16, string>; `pa.RecordBatch` / `pa.Schema` ↦ binary; frozenset ↦ list; dict ↦ map -/
def enumIsDictStr : Bool := {b(enum_ok)}
def arrowObjIsBinary : Bool := {b(arrow_obj_ok)}
def setIsList : Bool := {b(set_ok)}
def dictIsMap : Bool := {b(dict_ok)}

/-- keys of `_COMPACT_TYPES` with the runtime types each accepts -/
def compactTypes : List (String × List String) := [{', '.join(ct_rows)}]

/-- shape: `_convert_value_for_deserialization` converts the elements of a frozenset / the keys and values of a dict -/
def setRecurses : Bool := {b(set_rec)}
def dictRecurses : Bool := {b(dict_rec)}
/-- shape: `_compact_plan` refuses a field carrying an explicit `ArrowType` / `_ARROW_FIELD_OVERRIDES` entry -/
def compactRefusesExplicit : Bool := {b(refuses)}
/-- shape: `_serialize` builds a column whose type has a dictionary below a struct dictionary-free and casts it -/
def buildsDictionaryFree : Bool := {b(builds_free)}
/-- shape: a transient field's `default_factory` is kept in the cached plan and called once per decoded instance (top level,
nested dataclass, compact codec): no two instances share a default object -/
def transientFactoryPerInstance : Bool := {b(per_instance)}
/-- shape: Enum lookup by name, then by value -/
def enumFallbackByValue : Bool := {b(enum_fallback)}

/-- order of the type tests in `_convert_value_for_serialization` -/
def serBranches : List String := [{', '.join(_lean_str(x) for x in ser_labels)}]
/-- order of the annotation tests in `_convert_value_for_deserialization` -/
def deserBranches : List String := [{', '.join(_lean_str(x) for x in deser_labels)}]

end VgiVerif.Gen.C03
"""
    return {"C03.lean": body}
