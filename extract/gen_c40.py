"""C40: the capability-header table of ``make_wsgi_app``, how the middleware stamps it, and how the client reads it back.

Emits ``Gen/Caps.lean``:

* ``table``  — one row per ``capability_headers[<CONST>] = <expr>`` statement of ``make_wsgi_app`` in source order:
  the header name (constant resolved by import), the conjunction of the enclosing ``if`` conditions, and the value
  expression, each translated into a small closed vocabulary (``Cond`` / ``Val``).  An unrecognised condition or value
  expression is an extraction *error* (nothing is defaulted);
* ``encodingOrder`` / ``encodingsRecognised`` — ``enabled_encodings`` is ``tuple(codec_levels)`` with ``codec_levels`` filled
  from ``decodable`` iff ``compression_level is not None``; ``decodable`` filters ``(Encoding.ZSTD, Encoding.GZIP)`` by
  runtime availability;
* ``stampsAll`` / ``cacheControlOnOptions`` / ``installedIfNonEmpty`` — shape of ``_CapabilitiesMiddleware.process_response``
  and of its installation;
* ``otherHeaders`` — every header name written elsewhere under ``vgi_rpc/http`` (constants resolved; f-string names give
  their literal head and are listed as ``otherHeaderFamilies``), to show nothing else writes a capability header;
* ``probe`` — for every field of ``HttpServerCapabilities(...)`` returned by ``http_capabilities``: header read, parse kind.
"""

from __future__ import annotations

import ast
import os
from pathlib import Path

from .leanlit import lean_bool, lean_chars

REPO = Path(os.environ.get("VERIF_REPO", "/repo"))
PROPS = ["C40"]

FACTORY = "vgi_rpc/http/server/_factory.py"
MW = "vgi_rpc/http/server/_middleware.py"
CLIENT = "vgi_rpc/http/_client.py"

CONDS = {
    "max_request_bytes is not None": "maxRequestBytes",
    "max_response_bytes is not None": "maxResponseBytes",
    "max_externalized_response_bytes is not None": "maxExternalizedResponseBytes",
    "upload_url_provider is not None": "uploadProvider",
    "max_upload_bytes is not None": "maxUploadBytes",
    "proxy_proof_required": "proofRequired",
    "introspect_resolver is not None": "introspect",
    "enable_sticky": "sticky",
    "sticky_echo_headers": "stickyEcho",
    # not a capability setting: `proxy_hint` is non-empty when authentication depends on proxy-injected headers
    # (proxy_auth_headers / an authenticator declaring them / proof required).  Recognised so that the model follows a source
    # that guards a header with it — the exactness theorem then fails instead of the extraction.
    "proxy_hint": "proxyHint",
}
VALS = {
    "str(max_request_bytes)": ".decimal .maxRequestBytes",
    "str(max_response_bytes)": ".decimal .maxResponseBytes",
    "str(max_externalized_response_bytes)": ".decimal .maxExternalizedResponseBytes",
    "str(max_upload_bytes)": ".decimal .maxUploadBytes",
    "'true'": ".litTrue",
    "'true' if server.external_config is not None and server.external_config.storage is not None else 'false'": ".storageFlag",
    "', '.join((e.value for e in enabled_encodings))": ".encodings",
    "str(int(sticky_default_ttl))": ".truncDecimal",
    "', '.join(sticky_echo_headers.keys())": ".echoNames",
}


def _func(tree: ast.AST, name: str) -> ast.FunctionDef:
    for n in ast.walk(tree):
        if isinstance(n, ast.FunctionDef) and n.name == name:
            return n
    raise LookupError(name)


def _parents(tree: ast.AST) -> dict[ast.AST, ast.AST]:
    par: dict[ast.AST, ast.AST] = {}
    for n in ast.walk(tree):
        for c in ast.iter_child_nodes(n):
            par[c] = n
    return par


def _resolve_const(name: str) -> str:
    import vgi_rpc.http._common as common
    import vgi_rpc.http.server._introspect as introspect
    import vgi_rpc.http.server._middleware as mw

    for mod in (common, introspect, mw):
        if hasattr(mod, name):
            v = getattr(mod, name)
            if isinstance(v, str):
                return v
    raise LookupError(f"header constant {name} not resolvable")


def _table() -> list[tuple[str, str, list[str], str]]:
    tree = ast.parse((REPO / FACTORY).read_text())
    fn = _func(tree, "make_wsgi_app")
    par = _parents(fn)
    rows = []
    for n in sorted((x for x in ast.walk(fn) if isinstance(x, ast.Assign)), key=lambda x: x.lineno):
        t = n.targets[0]
        if not (len(n.targets) == 1 and isinstance(t, ast.Subscript) and ast.unparse(t.value) == "capability_headers"):
            continue
        if not isinstance(t.slice, ast.Name):
            raise ValueError(f"capability header key is not a constant name: {ast.unparse(t.slice)}")
        const = t.slice.id
        conds: list[str] = []
        cur: ast.AST = n
        while cur is not fn:
            p = par[cur]
            if isinstance(p, ast.If):
                if cur in p.orelse:
                    raise ValueError(f"capability header {const} assigned in an else branch (line {n.lineno})")
                src = " ".join(ast.unparse(p.test).split())
                if src not in CONDS:
                    raise ValueError(f"unrecognised condition for {const}: {src}")
                conds.append(CONDS[src])
            elif not isinstance(p, (ast.FunctionDef,)):
                raise ValueError(f"capability header {const} assigned under {type(p).__name__}")
            cur = p
        val = " ".join(ast.unparse(n.value).split())
        if val not in VALS:
            raise ValueError(f"unrecognised value expression for {const}: {val}")
        rows.append((const, _resolve_const(const), list(reversed(conds)), VALS[val]))
    # any other mutation of the dict (update / pop / del / setdefault) is not modelled
    for n in ast.walk(fn):
        if isinstance(n, ast.Call) and isinstance(n.func, ast.Attribute) and ast.unparse(n.func.value) == "capability_headers":
            raise ValueError(f"capability_headers.{n.func.attr}(…) is not modelled")
        if isinstance(n, ast.Delete) and "capability_headers" in ast.unparse(n):
            raise ValueError("del capability_headers[…] is not modelled")
    return rows


def _encodings_shape() -> tuple[list[str], bool]:
    tree = ast.parse((REPO / FACTORY).read_text())
    fn = _func(tree, "make_wsgi_app")
    want = {
        "decodable": "tuple((enc for enc in (Encoding.ZSTD, Encoding.GZIP) if enc in runtime and (not (zstd_disabled and enc is Encoding.ZSTD))))",
        "enabled_encodings": "tuple(codec_levels)",
        "runtime": "set(available_encodings())",
    }
    got: dict[str, list[str]] = {}
    cond_fill = False
    for n in ast.walk(fn):
        tgt = None
        val = None
        if isinstance(n, ast.AnnAssign) and isinstance(n.target, ast.Name) and n.value is not None:
            tgt, val = n.target.id, n.value
        elif isinstance(n, ast.Assign) and len(n.targets) == 1 and isinstance(n.targets[0], ast.Name):
            tgt, val = n.targets[0].id, n.value
        if tgt in ("decodable", "enabled_encodings", "runtime", "codec_levels") and val is not None:
            got.setdefault(tgt, []).append(" ".join(ast.unparse(val).split()))
        if isinstance(n, ast.If) and " ".join(ast.unparse(n.test).split()) == "compression_level is not None":
            for b in n.body:
                if isinstance(b, ast.Assign) and ast.unparse(b.targets[0]) == "codec_levels":
                    if " ".join(ast.unparse(b.value).split()) == "{enc: compression_level if enc is Encoding.ZSTD else 6 for enc in decodable}" and not n.orelse:
                        cond_fill = True
    ok = cond_fill and all(got.get(k) == [v] for k, v in want.items()) and sorted(got.get("codec_levels", [])) == sorted(
        ["{}", "{enc: compression_level if enc is Encoding.ZSTD else 6 for enc in decodable}"])
    from vgi_rpc._codec import Encoding

    return [Encoding.ZSTD.value, Encoding.GZIP.value], ok


def _middleware_shape() -> tuple[bool, bool, bool]:
    tree = ast.parse((REPO / MW).read_text())
    cls = next(n for n in tree.body if isinstance(n, ast.ClassDef) and n.name == "_CapabilitiesMiddleware")
    fn = _func(cls, "process_response")
    body = [b for b in fn.body if not (isinstance(b, ast.Expr) and isinstance(b.value, ast.Constant))]
    stamps = (
        len(body) >= 1
        and isinstance(body[0], ast.For)
        and ast.unparse(body[0].iter) == "self._headers.items()"
        and len(body[0].body) == 1
        and ast.unparse(body[0].body[0]) == "resp.set_header(name, value)"
        and ast.unparse(body[0].target) == "(name, value)"
    )
    cache = (
        len(body) == 2
        and isinstance(body[1], ast.If)
        and ast.unparse(body[1].test) == "req.method == 'OPTIONS'"
        and len(body[1].body) == 1
        and ast.unparse(body[1].body[0]).startswith("resp.set_header('Cache-Control'")
    )
    init = _func(cls, "__init__")
    stores = any(ast.unparse(n) == "self._headers = headers" for n in ast.walk(init))
    ftree = ast.parse((REPO / FACTORY).read_text())
    ffn = _func(ftree, "make_wsgi_app")
    installed = False
    for n in ast.walk(ffn):
        if isinstance(n, ast.If) and ast.unparse(n.test) == "capability_headers" and not n.orelse and len(n.body) == 1:
            if ast.unparse(n.body[0]) == "middleware.append(_CapabilitiesMiddleware(capability_headers))":
                installed = True
    return bool(stamps and stores), bool(cache), installed


def _other_headers() -> tuple[list[str], list[str]]:
    """Header names written by anything other than `_CapabilitiesMiddleware` under vgi_rpc/http (static names, f-string heads)."""
    names: set[str] = set()
    fams: set[str] = set()
    import vgi_rpc.http._common as common

    files = sorted((REPO / "vgi_rpc/http").rglob("*.py"))
    for f in files:
        tree = ast.parse(f.read_text())
        par = _parents(tree)
        for n in ast.walk(tree):
            if not (isinstance(n, ast.Call) and isinstance(n.func, ast.Attribute) and n.func.attr in ("set_header", "append_header", "delete_header")):
                continue
            if not n.args:
                continue
            # skip the stamping loop itself
            cur: ast.AST | None = n
            inside_caps = False
            while cur is not None:
                if isinstance(cur, ast.ClassDef) and cur.name == "_CapabilitiesMiddleware":
                    inside_caps = True
                cur = par.get(cur)
            a = n.args[0]
            if inside_caps and isinstance(a, ast.Name) and a.id == "name":
                continue
            if isinstance(a, ast.Constant) and isinstance(a.value, str):
                names.add(a.value)
            elif isinstance(a, ast.Name):
                v = getattr(common, a.id, None)
                if v is None:
                    mod = __import__("importlib").import_module("vgi_rpc.http.server._middleware")
                    v = getattr(mod, a.id, None)
                if not isinstance(v, str):
                    raise ValueError(f"{f.name}:{n.lineno}: header name {a.id} not resolvable")
                names.add(v)
            elif isinstance(a, ast.JoinedStr) and a.values and isinstance(a.values[0], ast.FormattedValue) and isinstance(a.values[0].value, ast.Name):
                v = getattr(common, a.values[0].value.id, None)
                if not isinstance(v, str):
                    raise ValueError(f"{f.name}:{n.lineno}: header family head not resolvable")
                fams.add(v)
            elif isinstance(a, ast.JoinedStr) and a.values and isinstance(a.values[0], ast.Constant):
                fams.add(str(a.values[0].value))
            else:
                raise ValueError(f"{f.name}:{n.lineno}: dynamic header name {ast.unparse(a)}")
    return sorted(names), sorted(fams)


def _probe() -> list[tuple[str, str, str]]:
    """(field of HttpServerCapabilities, header read, parse kind) from `http_capabilities`."""
    tree = ast.parse((REPO / CLIENT).read_text())
    fn = _func(tree, "http_capabilities")
    raw_of: dict[str, str] = {}  # raw variable -> header constant
    var_kind: dict[str, tuple[str, str]] = {}  # variable -> (kind, raw var)
    cur_raw: dict[str, str] = {}
    for n in sorted((x for x in ast.walk(fn) if isinstance(x, (ast.Assign, ast.AnnAssign))), key=lambda x: x.lineno):
        if isinstance(n, ast.AnnAssign):
            continue
        if len(n.targets) != 1 or not isinstance(n.targets[0], ast.Name):
            continue
        tgt = n.targets[0].id
        src = " ".join(ast.unparse(n.value).split())
        import re

        m = re.fullmatch(r"headers\.get\((\w+)\) or headers\.get\(\1\.lower\(\)\)", src) or re.fullmatch(r"headers\.get\((\w+)\)", src)
        if m and m.group(1).endswith("_HEADER"):
            raw_of[tgt] = m.group(1)
            cur_raw[tgt] = m.group(1)
            continue
        m = re.fullmatch(r"headers\.get\((\w+)\.lower\(\)\)", src)
        if m and raw_of.get(tgt) == m.group(1):
            continue
        m = re.fullmatch(r"int\((\w+)\)", src)
        if m and m.group(1) in cur_raw:
            var_kind[tgt] = ("optInt", cur_raw[m.group(1)])
            continue
        m = re.fullmatch(r"(\w+) == 'true' if \1 is not None else False", src)
        if m and m.group(1) in cur_raw:
            var_kind[tgt] = ("isTrue", cur_raw[m.group(1)])
            continue
        if tgt == "supported_encodings" and "supported_raw" in cur_raw:
            var_kind[tgt] = ("encodings", cur_raw["supported_raw"])
            continue
        if tgt == "sticky_echo" and "sticky_echo_raw" in cur_raw:
            var_kind[tgt] = ("names", cur_raw["sticky_echo_raw"])
            continue
    ret = None
    for n in ast.walk(fn):
        if isinstance(n, ast.Return) and isinstance(n.value, ast.Call) and ast.unparse(n.value.func) == "HttpServerCapabilities":
            ret = n.value
    if ret is None:
        raise ValueError("http_capabilities: return HttpServerCapabilities(...) not found")
    out = []
    for k in ret.keywords:
        assert k.arg is not None
        v = ast.unparse(k.value)
        if k.arg == "cache_expires_at":
            continue  # a clock reading, not configuration
        if v not in var_kind:
            raise ValueError(f"http_capabilities: field {k.arg} = {v} not recognised")
        kind, const = var_kind[v]
        out.append((k.arg, _resolve_const(const), kind))
    return out


def _probe_stateless() -> bool:
    """`http_capabilities` answers from the response of the probe it makes now: no decorator (memoisation), no `global`, a
    single `return` that is the `HttpServerCapabilities(...)` constructor call itself, no store into / mutating call on
    anything that is not a local variable, and no module-level mutable container next to it that the function mentions."""
    tree = ast.parse((REPO / CLIENT).read_text())
    fn = _func(tree, "http_capabilities")
    if fn.decorator_list:
        return False
    local = {a.arg for a in fn.args.args + fn.args.kwonlyargs}
    for n in ast.walk(fn):
        if isinstance(n, (ast.Global, ast.Nonlocal)):
            return False
        if isinstance(n, ast.Name) and isinstance(n.ctx, ast.Store):
            local.add(n.id)
        if isinstance(n, (ast.Import, ast.ImportFrom)):
            local.update((a.asname or a.name).split(".")[0] for a in n.names)
    rets = [n for n in ast.walk(fn) if isinstance(n, ast.Return)]
    if len(rets) != 1 or not (isinstance(rets[0].value, ast.Call) and ast.unparse(rets[0].value.func) == "HttpServerCapabilities"):
        return False

    def root(e: ast.expr) -> str | None:
        while isinstance(e, (ast.Attribute, ast.Subscript)):
            e = e.value
        return e.id if isinstance(e, ast.Name) else None

    mut = {"append", "add", "setdefault", "pop", "popitem", "update", "clear", "extend", "insert", "remove", "discard", "__setitem__"}
    for n in ast.walk(fn):
        targets: list[ast.expr] = []
        if isinstance(n, ast.Assign):
            targets = list(n.targets)
        elif isinstance(n, (ast.AnnAssign, ast.AugAssign)):
            targets = [n.target]
        elif isinstance(n, ast.Delete):
            targets = list(n.targets)
        for t in targets:
            if isinstance(t, (ast.Attribute, ast.Subscript)) and root(t) not in local:
                return False
        if isinstance(n, ast.Call) and isinstance(n.func, ast.Attribute) and n.func.attr in mut and root(n.func.value) not in local:
            return False
    # module-level containers the function refers to (a cache would be one)
    containers = set()
    for st in tree.body:
        tgt = val = None
        if isinstance(st, ast.Assign) and len(st.targets) == 1 and isinstance(st.targets[0], ast.Name):
            tgt, val = st.targets[0].id, st.value
        elif isinstance(st, ast.AnnAssign) and isinstance(st.target, ast.Name) and st.value is not None:
            tgt, val = st.target.id, st.value
        if tgt and isinstance(val, (ast.Dict, ast.List, ast.Set)) or (
                tgt and isinstance(val, ast.Call) and ast.unparse(val.func).split(".")[-1] in
                ("dict", "list", "set", "OrderedDict", "defaultdict", "WeakValueDictionary", "LRUCache")):
            containers.add(tgt)
    used = {n.id for n in ast.walk(fn) if isinstance(n, ast.Name)}
    return not (containers & used)


def emit() -> dict[str, str]:
    rows = _table()
    order, enc_ok = _encodings_shape()
    stamps, cache, installed = _middleware_shape()
    names, fams = _other_headers()
    probe = _probe()
    probe_stateless = _probe_stateless()
    nl = ",\n"
    row_txt = nl.join(
        f"  {{ const := \"{c}\", header := {lean_chars(h)}, conds := [{', '.join('.' + x for x in conds)}], value := {v} }}"
        for c, h, conds, v in rows
    )
    probe_txt = nl.join(f"  {{ field := \"{f}\", header := {lean_chars(h)}, kind := .{k} }}" for f, h, k in probe)
    body = f"""namespace VgiVerif.Gen.Caps

/-- integer-valued settings of `make_wsgi_app` that are advertised -/
inductive IntParam where
  | maxRequestBytes | maxResponseBytes | maxExternalizedResponseBytes | maxUploadBytes
deriving Repr, DecidableEq

/-- `if` conditions guarding a `capability_headers[...] = ...` statement -/
inductive Cond where
  | maxRequestBytes                 -- `max_request_bytes is not None`
  | maxResponseBytes                -- `max_response_bytes is not None`
  | maxExternalizedResponseBytes    -- `max_externalized_response_bytes is not None`
  | uploadProvider                  -- `upload_url_provider is not None`
  | maxUploadBytes                  -- `max_upload_bytes is not None`
  | proofRequired                   -- `proxy_proof_required`
  | introspect                      -- `introspect_resolver is not None`
  | sticky                          -- `enable_sticky`
  | stickyEcho                      -- `sticky_echo_headers` (a non-empty mapping)
  | proxyHint                       -- `proxy_hint` (auth depends on proxy-injected headers; has no capability header)
deriving Repr, DecidableEq

/-- value expressions -/
inductive Val where
  | decimal (p : IntParam)          -- `str(<p>)`
  | litTrue                         -- `"true"`
  | storageFlag                     -- `"true" if server.external_config is not None and ….storage is not None else "false"`
  | encodings                       -- `", ".join(e.value for e in enabled_encodings)`
  | truncDecimal                    -- `str(int(sticky_default_ttl))`
  | echoNames                       -- `", ".join(sticky_echo_headers.keys())`
deriving Repr, DecidableEq

structure Row where
  const : String
  header : List Char
  conds : List Cond
  value : Val
deriving Repr, DecidableEq

/-- every `capability_headers[<const>] = <value>` of `make_wsgi_app`, in source order, under its enclosing conditions -/
def table : List Row := [
{row_txt}
]

/-- `enabled_encodings = tuple(codec_levels)`; filled from `decodable` (this order, filtered by runtime support) iff
    `compression_level is not None` -/
def encodingOrder : List (List Char) := [{", ".join(lean_chars(x) for x in order)}]
def encodingsRecognised : Bool := {lean_bool(enc_ok)}

/-- `_CapabilitiesMiddleware.process_response` starts with `for name, value in self._headers.items(): resp.set_header(name, value)` -/
def stampsAll : Bool := {lean_bool(stamps)}
/-- … followed only by `if req.method == "OPTIONS": resp.set_header("Cache-Control", …)` -/
def cacheControlOnOptions : Bool := {lean_bool(cache)}
/-- `if capability_headers: middleware.append(_CapabilitiesMiddleware(capability_headers))` -/
def installedIfNonEmpty : Bool := {lean_bool(installed)}

/-- header names written anywhere else under vgi_rpc/http (`set_header` / `append_header` / `delete_header`) -/
def otherHeaders : List (List Char) := [
{nl.join("  " + lean_chars(x) for x in names)}
]
/-- literal heads of dynamically named headers written elsewhere (`f"{{ECHO_HEADER_PREFIX}}{{name}}"`) -/
def otherHeaderFamilies : List (List Char) := [{", ".join(lean_chars(x) for x in fams)}]

/-- `http_capabilities` keeps nothing between calls: one `return HttpServerCapabilities(...)`, no memo, no module-level store -/
def probeStateless : Bool := {lean_bool(probe_stateless)}

inductive ProbeKind where
  | optInt      -- `int(raw)` under `suppress(ValueError)` when present, else `None`
  | isTrue      -- `raw == "true"` when present, else `False`
  | encodings   -- absent ⇒ (zstd,); blank ⇒ (); else `parse_encoding_list(raw) or (zstd,)`
  | names       -- comma-separated, stripped, empties dropped
deriving Repr, DecidableEq

structure ProbeField where
  field : String
  header : List Char
  kind : ProbeKind
deriving Repr, DecidableEq

/-- `http_capabilities`: which header feeds which field of `HttpServerCapabilities` (cache_expires_at excluded: a clock) -/
def probe : List ProbeField := [
{probe_txt}
]

end VgiVerif.Gen.Caps
"""
    return {"Caps.lean": body}
