"""C31: constants, tables, the Content-Range regex and the control-flow *shapes* of vgi_rpc/external_fetch.py.

Everything the Lean model `Model/C31*.lean` is parameterised by is regenerated here from the working tree:

* `_REDIRECT_STATUSES`, `FetchConfig` field defaults, the 65536 read chunks, the `16 *` decoded-cap factor,
  the probe-fallback statuses `(403, 405, 501)`, the `Encoding` wire names;
* the `_content_length_from_content_range` pattern (regex kit) and the `re` entry point used;
* shapes (AST patterns): the redirect loop (`for redirect_count in range(config.max_redirects + K)`, validator call
  first, `allow_redirects=False` on both client calls, the `redirect_count >= config.max_redirects` guard), the
  comparisons of the byte-limit guards, `auto_decompress=False`, what `redact_url` passes to `urlunparse`;
* the interpreter-side tables `urllib.parse` uses (scheme characters, `uses_params`, stripped / removed characters),
  the decimal-digit and whitespace tables and the int-string digit limit.

An unrecognised shape raises: extraction then fails loudly and the check reports a broken correspondence.
"""

from __future__ import annotations

import ast
import os
import sys
from pathlib import Path

from .regex_to_lean import category_ranges, lean_str, pattern_to_lean

REPO = Path(os.environ.get("VERIF_REPO", "/repo"))
PROPS = ["C31"]
SRC = "vgi_rpc/external_fetch.py"

_CMP = {ast.Gt: ">", ast.GtE: ">=", ast.Lt: "<", ast.LtE: "<=", ast.Eq: "==", ast.NotEq: "!="}


class Shape(Exception):
    pass


def _func(tree: ast.Module, name: str) -> ast.AST:
    for n in ast.walk(tree):
        if isinstance(n, (ast.FunctionDef, ast.AsyncFunctionDef)) and n.name == name:
            return n
    raise Shape(f"function {name} not found")


def _const_int(node: ast.AST) -> int:
    """Evaluate an int expression made of literals and * + (e.g. 64 * 1024 * 1024)."""
    v = ast.literal_eval(ast.unparse(node)) if not isinstance(node, ast.BinOp) else None
    if v is None:
        assert isinstance(node, ast.BinOp)
        a, b = _const_int(node.left), _const_int(node.right)
        if isinstance(node.op, ast.Mult):
            return a * b
        if isinstance(node.op, ast.Add):
            return a + b
        raise Shape(f"unsupported constant expression {ast.unparse(node)}")
    if not isinstance(v, int) or isinstance(v, bool):
        raise Shape(f"not an int: {ast.unparse(node)}")
    return v


def _config_defaults(tree: ast.Module) -> dict[str, object]:
    for n in ast.walk(tree):
        if isinstance(n, ast.ClassDef) and n.name == "FetchConfig":
            out: dict[str, object] = {}
            for st in n.body:
                if isinstance(st, ast.AnnAssign) and isinstance(st.target, ast.Name) and st.value is not None:
                    name = st.target.id
                    if name.startswith("_"):
                        continue
                    if isinstance(st.value, ast.Constant) and st.value.value is None:
                        out[name] = None
                    elif isinstance(st.value, ast.Constant) and isinstance(st.value.value, float):
                        out[name] = st.value.value
                    else:
                        out[name] = _const_int(st.value)
            return out
    raise Shape("FetchConfig not found")


def _cmp_of(test: ast.AST, left_src: str, right_src: str) -> str:
    if (
        isinstance(test, ast.Compare)
        and len(test.ops) == 1
        and ast.unparse(test.left) == left_src
        and ast.unparse(test.comparators[0]) == right_src
    ):
        return _CMP[type(test.ops[0])]
    raise Shape(f"guard {ast.unparse(test)!r} is not `{left_src} <op> {right_src}`")


def _find_if(fn: ast.AST, left_src: str, right_src: str) -> str:
    for n in ast.walk(fn):
        if isinstance(n, ast.If):
            try:
                return _cmp_of(n.test, left_src, right_src)
            except Shape:
                continue
    raise Shape(f"no `if {left_src} <op> {right_src}` in {getattr(fn, 'name', '?')}")


def _redirect_loop(tree: ast.Module) -> dict[str, object]:
    fn = _func(tree, "_request_following_redirects")
    loops = [n for n in ast.walk(fn) if isinstance(n, ast.For)]
    if len(loops) != 1:
        raise Shape("expected exactly one for-loop in _request_following_redirects")
    loop = loops[0]
    it = loop.iter
    if not (
        isinstance(loop.target, ast.Name)
        and isinstance(it, ast.Call)
        and isinstance(it.func, ast.Name)
        and it.func.id == "range"
        and len(it.args) == 1
        and isinstance(it.args[0], ast.BinOp)
        and isinstance(it.args[0].op, ast.Add)
        and ast.unparse(it.args[0].left) == "config.max_redirects"
    ):
        raise Shape(f"redirect loop header: {ast.unparse(loop.iter)}")
    offset = _const_int(it.args[0].right)
    counter = loop.target.id
    # first statement validates the current URL
    first = loop.body[0]
    validate_first = (
        isinstance(first, ast.Expr)
        and isinstance(first.value, ast.Call)
        and ast.unparse(first.value) == "_validate_url(current_url, url_validator)"
    )
    # every client.<verb>(...) call in the loop: first arg current_url, allow_redirects=False
    calls = [
        n
        for n in ast.walk(loop)
        if isinstance(n, ast.Call)
        and isinstance(n.func, ast.Attribute)
        and isinstance(n.func.value, ast.Name)
        and n.func.value.id == "client"
    ]
    verbs = sorted(c.func.attr for c in calls)  # type: ignore[attr-defined]
    no_auto = bool(calls) and all(
        len(c.args) == 1
        and ast.unparse(c.args[0]) == "current_url"
        and any(k.arg == "allow_redirects" and isinstance(k.value, ast.Constant) and k.value.value is False for k in c.keywords)
        for c in calls
    )
    # the validator call textually precedes the request (same loop body, earlier statement)
    req_stmt = next((i for i, st in enumerate(loop.body) if any(c in list(ast.walk(st)) for c in calls)), -1)
    validate_first = validate_first and req_stmt > 0
    # the only assignment to current_url inside the loop is `current_url = next_url`, after the checks
    assigns = [
        ast.unparse(n)
        for n in ast.walk(loop)
        if isinstance(n, ast.Assign) and any(isinstance(t, ast.Name) and t.id == "current_url" for t in n.targets)
    ]
    guard = _find_if(loop, counter, "config.max_redirects")
    statuses_test = any(
        isinstance(n, ast.If) and ast.unparse(n.test) == "response.status not in _REDIRECT_STATUSES" for n in ast.walk(loop)
    )
    joined = any(isinstance(n, ast.Assign) and ast.unparse(n) == "next_url = urljoin(current_url, location)" for n in ast.walk(loop))
    target_check = any(
        isinstance(n, ast.If) and ast.unparse(n.test) == "not urlparse(next_url).scheme or not urlparse(next_url).netloc"
        for n in ast.walk(loop)
    )
    # order of the three post-redirect checks: limit, then Location, then target
    order = []
    for st in loop.body:
        if isinstance(st, ast.If):
            t = ast.unparse(st.test)
            if t.startswith(counter):
                order.append("limit")
            elif t == "not location":
                order.append("location")
            elif "urlparse(next_url)" in t:
                order.append("target")
    return {
        "offset": offset,
        "validate_first": validate_first,
        "no_auto": no_auto,
        "verbs": verbs,
        "assigns": assigns,
        "guard": guard,
        "statuses_test": statuses_test,
        "joined": joined,
        "target_check": target_check,
        "order": order,
    }


def _read_chunks(tree: ast.Module) -> tuple[int, int, str, str, str, str]:
    body = _func(tree, "_read_response_body")
    full = None
    for n in ast.walk(body):
        if isinstance(n, ast.Call) and isinstance(n.func, ast.Attribute) and n.func.attr == "iter_chunked":
            full = _const_int(n.args[0])
    if full is None:
        raise Shape("iter_chunked(<int>) not found")
    full_guard = _find_if(body, "total", "config.max_fetch_bytes")
    rng = _func(tree, "_read_range_response_body")
    rchunk = None
    sentinel_ok = False
    for n in ast.walk(rng):
        if isinstance(n, ast.Assign) and ast.unparse(n) == (
            "sentinel = min(expected_size - total + 1, config.max_fetch_bytes - total + 1)"
        ):
            sentinel_ok = True
        if isinstance(n, ast.Call) and isinstance(n.func, ast.Attribute) and n.func.attr == "read" and n.args:
            a = n.args[0]
            if (
                isinstance(a, ast.Call)
                and isinstance(a.func, ast.Name)
                and a.func.id == "min"
                and len(a.args) == 2
                and ast.unparse(a.args[1]) == "max(1, sentinel)"
            ):
                rchunk = _const_int(a.args[0])
    if rchunk is None or not sentinel_ok:
        raise Shape("range read `resp.content.read(min(<int>, max(1, sentinel)))` / sentinel not recognised")
    whiles = [n for n in ast.walk(rng) if isinstance(n, ast.While)]
    if len(whiles) != 1:
        raise Shape("range read loop")
    g1 = _find_if(whiles[0], "total", "config.max_fetch_bytes")
    g2 = _find_if(whiles[0], "total", "expected_size")
    # the final `if total != expected_size` after the loop
    finals = [
        _CMP[type(st.test.ops[0])]
        for st in rng.body  # type: ignore[attr-defined]
        if isinstance(st, ast.If) and isinstance(st.test, ast.Compare) and ast.unparse(st.test.left) == "total"
    ]
    if finals != ["!="]:
        raise Shape(f"final range-size check: {finals}")
    return full, rchunk, full_guard, g1, g2, finals[0]


def _decoded_factor(tree: ast.Module) -> int:
    fn = _func(tree, "_fetch_with_probe")
    facs = []
    for n in ast.walk(fn):
        if isinstance(n, ast.IfExp) and ast.unparse(n.test) == "config.max_decompressed_bytes is None":
            b = n.body
            if isinstance(b, ast.BinOp) and isinstance(b.op, ast.Mult) and ast.unparse(b.left) == "config.max_fetch_bytes":
                facs.append(_const_int(b.right))
            else:
                raise Shape(f"decoded cap default: {ast.unparse(b)}")
            if ast.unparse(n.orelse) != "config.max_decompressed_bytes":
                raise Shape("decoded cap else-branch")
    if len(facs) != 2 or facs[0] != facs[1]:
        raise Shape(f"decoded cap factors {facs}")
    return facs[0]


def _status_tuples(tree: ast.Module, fname: str) -> list[int]:
    fn = _func(tree, fname)
    found = []
    for n in ast.walk(fn):
        if isinstance(n, ast.Compare) and len(n.ops) == 1 and isinstance(n.ops[0], ast.In) and ast.unparse(n.left) == "resp.status":
            found.append(sorted(ast.literal_eval(n.comparators[0])))
    if len(found) != 1:
        raise Shape(f"{fname}: resp.status in (...) occurrences: {found}")
    return found[0]


def _redact_shape(tree: ast.Module) -> bool:
    fn = _func(tree, "redact_url")
    rets = [ast.unparse(n.value) for n in ast.walk(fn) if isinstance(n, ast.Return) and n.value is not None]
    want = "urlunparse((parsed.scheme, rendered_host, parsed.path, '', '', ''))"
    src = ast.unparse(fn)
    return (
        want in rets
        and "parsed = urlparse(url)" in src
        and "if not parsed.scheme or not parsed.netloc" in src
        and "host = parsed.hostname" in src
        and "rendered_host = f'[{host}]' if ':' in host and (not host.startswith('[')) else host" in src
        and "rendered_host = f'{rendered_host}:{parsed.port}'" in src
        and set(rets) == {want, "'<invalid-url>'"}
    )


def _guard_parallel(tree: ast.Module) -> tuple[str, str, str]:
    fn = _func(tree, "_fetch_with_probe")
    pre = None
    par = None
    for n in ast.walk(fn):
        if isinstance(n, ast.If) and isinstance(n.test, ast.BoolOp) and "content_length is not None" in ast.unparse(n.test):
            for v in n.test.values:
                try:
                    pre = _cmp_of(v, "content_length", "config.max_fetch_bytes")
                except Shape:
                    pass
        if isinstance(n, ast.Assign) and ast.unparse(n.targets[0]) == "use_parallel":
            t = n.value
            if not (isinstance(t, ast.BoolOp) and isinstance(t.op, ast.And) and len(t.values) == 4):
                raise Shape("use_parallel shape")
            if ast.unparse(t.values[0]) != "content_length is not None" or ast.unparse(t.values[1]) != "'bytes' in accept_ranges.lower()":
                raise Shape("use_parallel conjuncts")
            par = _cmp_of(t.values[2], "content_length", "config.parallel_threshold_bytes")
            if ast.unparse(t.values[3]) != "content_length > 0":
                raise Shape("use_parallel: zero-length guard")
    fc = _func(tree, "_fetch_chunks_with_hedging")
    post = _find_if(fc, "len(ordered)", "config.max_fetch_bytes")
    if pre is None or par is None:
        raise Shape("pre-download guard / use_parallel not recognised")
    return pre, par, post


def _passes_validator(stmts: list[ast.stmt]) -> tuple[int, bool]:
    """(number of `_fetch_with_probe` calls in `stmts`, every call forwards `url_validator` unless it is None).

    A call forwards it when `url_validator` is its 4th positional / a keyword argument; a call without it is only accepted as
    the true-branch of `… if url_validator is None else …` (where the default `None` is the same thing)."""
    calls: list[ast.Call] = []
    excused: set[int] = set()
    for st in stmts:
        for n in ast.walk(st):
            if isinstance(n, ast.Call) and isinstance(n.func, ast.Name) and n.func.id == "_fetch_with_probe":
                calls.append(n)
            if isinstance(n, ast.IfExp) and ast.unparse(n.test) == "url_validator is None":
                for m in ast.walk(n.body):
                    excused.add(id(m))
            if isinstance(n, ast.IfExp) and ast.unparse(n.test) == "url_validator is not None":
                for m in ast.walk(n.orelse):
                    excused.add(id(m))

    def forwards(c: ast.Call) -> bool:
        if len(c.args) >= 4 and ast.unparse(c.args[3]) == "url_validator":
            return True
        return any(k.arg == "url_validator" and ast.unparse(k.value) == "url_validator" for k in c.keywords)

    return len(calls), bool(calls) and all(forwards(c) or id(c) in excused for c in calls)


def _fetch_url_attempts(tree: ast.Module) -> tuple[bool, bool, bool]:
    """`fetch_url`: (first attempt forwards the validator, the one-retry shape is recognised, the retry forwards the validator)."""
    fn = _func(tree, "fetch_url")
    tries = [n for n in ast.walk(fn) if isinstance(n, ast.Try)]
    if len(tries) != 1 or len(tries[0].handlers) != 1:
        raise Shape("fetch_url: expected one try/except around the first attempt")
    t = tries[0]
    h = t.handlers[0]
    retry_shape = (
        h.type is not None
        and ast.unparse(h.type) == "(aiohttp.ServerDisconnectedError, ConnectionResetError)"
        and ast.unparse(t.body[0]) == "data = future.result()"
        and any(isinstance(n, ast.Call) and ast.unparse(n.func) == "_reset_session" for st in h.body for n in ast.walk(st))
    )
    before = [st for st in fn.body if st is not t and st.lineno < t.lineno]  # type: ignore[attr-defined]
    n1, v1 = _passes_validator(before)
    n2, v2 = _passes_validator(list(h.body))
    # no further attempt anywhere else (a loop, a second handler …)
    total = sum(1 for n in ast.walk(fn) if isinstance(n, ast.Call) and isinstance(n.func, ast.Name) and n.func.id == "_fetch_with_probe")
    if n1 == 0 or n2 == 0 or total != n1 + n2 or any(isinstance(n, (ast.For, ast.While)) for n in ast.walk(fn)):
        raise Shape("fetch_url: attempts not recognised")
    return v1, retry_shape, v2


def _validation_stateless(tree: ast.Module) -> bool:
    """A validator verdict is used for the one request it was asked for and nothing of it is kept: `_validate_url(url, validator)`
    touches only its arguments and locals, the pool (`_FetchPool`, the only state that outlives a fetch) has no field beyond
    lock / loop / thread / session, and `FetchConfig` has no mutable field beyond that pool."""
    pool_fields: list[str] = []
    cfg_private: list[str] = []
    for n in ast.walk(tree):
        if isinstance(n, ast.ClassDef) and n.name == "_FetchPool":
            pool_fields = [st.target.id for st in n.body if isinstance(st, ast.AnnAssign) and isinstance(st.target, ast.Name)]
        if isinstance(n, ast.ClassDef) and n.name == "FetchConfig":
            cfg_private = [st.target.id for st in n.body if isinstance(st, ast.AnnAssign) and isinstance(st.target, ast.Name)
                           and st.target.id.startswith("_")]
    fn = _func(tree, "_validate_url")
    a = fn.args  # type: ignore[attr-defined]
    params_ok = [x.arg for x in a.args] == ["url", "validator"] and not a.kwonlyargs and a.vararg is None and a.kwarg is None
    allowed = {"url", "validator", "exc", "message", "parsed", "secrets", "secret", "value", "_", "str", "urlparse", "parse_qsl",
               "redact_url", "ValueError", "Exception", "Callable", "None"}
    names_ok = all(n.id in allowed for n in ast.walk(fn) if isinstance(n, ast.Name))
    no_mutation = not any(
        isinstance(n, (ast.Global, ast.Nonlocal))
        or (isinstance(n, (ast.Attribute, ast.Subscript)) and isinstance(n.ctx, (ast.Store, ast.Del)))
        or (isinstance(n, ast.Call) and isinstance(n.func, ast.Attribute)
            and n.func.attr in ("add", "update", "append", "extend", "setdefault", "__setitem__", "insert", "discard", "remove"))
        for n in ast.walk(fn)
    )
    module_state = [ast.unparse(n.targets[0]) for n in tree.body if isinstance(n, ast.Assign)]
    return (
        pool_fields == ["lock", "loop", "thread", "session"]
        and cfg_private == ["_pool"]
        and params_ok and names_ok and no_mutation
        and sorted(module_state) == ["_REDIRECT_STATUSES", "__all__", "_logger"]
    )


def _inflate_limits() -> dict[str, object]:
    """`vgi_rpc/_codec.py`: the per-call output limit the two bounded decoders pass to the library,
    `min(_DECOMPRESS_CHUNK_BYTES, max_output_size - total + K)`, and their cap guards."""
    ctree = ast.parse((REPO / "vgi_rpc/_codec.py").read_text())
    chunk = None
    for n in ctree.body:
        if isinstance(n, ast.Assign) and ast.unparse(n.targets[0]) == "_DECOMPRESS_CHUNK_BYTES":
            chunk = _const_int(n.value)
    if chunk is None:
        raise Shape("_DECOMPRESS_CHUNK_BYTES")

    def offset(fn: ast.AST, recv: str, meth: str, argi: int) -> int:
        found = []
        for n in ast.walk(fn):
            if (
                isinstance(n, ast.Call)
                and isinstance(n.func, ast.Attribute)
                and n.func.attr == meth
                and ast.unparse(n.func.value) == recv
                and len(n.args) > argi
            ):
                found.append(n.args[argi])
        if len(found) != 1:
            raise Shape(f"{recv}.{meth}(…limit…) occurrences: {len(found)}")
        a = found[0]
        if not (isinstance(a, ast.Call) and isinstance(a.func, ast.Name) and a.func.id == "min" and len(a.args) == 2
                and ast.unparse(a.args[0]) == "_DECOMPRESS_CHUNK_BYTES"):
            raise Shape(f"limit expression {ast.unparse(a)}")
        e = a.args[1]
        if isinstance(e, ast.Name):  # a local holding the budget: resolve its (single) assignment
            defs = [m.value for m in ast.walk(fn) if isinstance(m, ast.Assign) and len(m.targets) == 1
                    and isinstance(m.targets[0], ast.Name) and m.targets[0].id == e.id]
            if len(defs) != 1:
                raise Shape(f"limit variable {e.id}")
            e = defs[0]
        if ast.unparse(e) == "max_output_size - total":
            return 0
        if isinstance(e, ast.BinOp) and isinstance(e.op, ast.Add) and ast.unparse(e.left) == "max_output_size - total":
            return _const_int(e.right)
        raise Shape(f"limit expression {ast.unparse(e)}")

    gz = _func(ctree, "_decompress_body_gzip")
    zs = _func(ctree, "_decompress_body_zstd")
    return {
        "chunk": chunk,
        "gzip_off": offset(gz, "do", "decompress", 1),
        "zstd_off": offset(zs, "reader", "read", 0),
        "gzip_guard": _find_if(gz, "total", "max_output_size"),
        "zstd_guard": _find_if(zs, "total", "max_output_size"),
    }


def _nat_list(xs) -> str:
    return "[" + ", ".join(str(int(x)) for x in xs) + "]"


def emit() -> dict[str, str]:
    import re as _re
    import urllib.parse as up

    src = (REPO / SRC).read_text()
    tree = ast.parse(src)

    # ---- constants
    redirect_statuses = None
    for n in tree.body:
        if isinstance(n, ast.Assign) and ast.unparse(n.targets[0]) == "_REDIRECT_STATUSES":
            v = n.value
            if isinstance(v, ast.Call) and ast.unparse(v.func) == "frozenset" and len(v.args) == 1:
                redirect_statuses = sorted(ast.literal_eval(v.args[0]))
    if redirect_statuses is None:
        raise Shape("_REDIRECT_STATUSES")
    d = _config_defaults(tree)
    need = ["parallel_threshold_bytes", "chunk_size_bytes", "max_parallel_requests", "max_fetch_bytes", "max_decompressed_bytes",
            "max_redirects", "speculative_retry_multiplier", "max_speculative_hedges"]
    for k in need:
        if k not in d:
            raise Shape(f"FetchConfig.{k} default not found")
    loop = _redirect_loop(tree)
    full_chunk, range_chunk, full_guard, rg1, rg2, rfinal = _read_chunks(tree)
    factor = _decoded_factor(tree)
    head_fb = _status_tuples(tree, "_head_probe")
    range_fb = _status_tuples(tree, "_range_probe")
    pre_guard, par_cmp, post_guard = _guard_parallel(tree)

    # ---- content-range regex
    fn = _func(tree, "_content_length_from_content_range")
    pat_src = None
    kind = "unknown"
    for n in ast.walk(fn):
        if isinstance(n, ast.Call) and isinstance(n.func, ast.Attribute) and ast.unparse(n.func.value) == "re":
            kind = n.func.attr
            if isinstance(n.args[0], ast.Constant) and isinstance(n.args[0].value, str) and ast.unparse(n.args[1]) == "content_range":
                pat_src = n.args[0].value
    if pat_src is None:
        raise Shape("content-range regex")
    groups_ok = "int(match.group(1))" in ast.unparse(fn) and _re.compile(pat_src).groups == 1
    pat = pattern_to_lean(pat_src, 0)

    # ---- chunk Content-Range check
    fm = _func(tree, "_content_range_mismatch")
    cpat_src = None
    ckind = "unknown"
    for n in ast.walk(fm):
        if isinstance(n, ast.Call) and isinstance(n.func, ast.Attribute) and ast.unparse(n.func.value) == "re":
            ckind = n.func.attr
            if isinstance(n.args[0], ast.Constant) and isinstance(n.args[0].value, str) and ast.unparse(n.args[1]) == "content_range":
                cpat_src = n.args[0].value
    if cpat_src is None:
        raise Shape("chunk content-range regex")
    cpat = pattern_to_lean(cpat_src, 0)
    fm_src = ast.unparse(fm)
    chunk_cr_ok = (
        _re.compile(cpat_src).groups == 3
        and "if content_range is None:\n        return None" in fm_src
        and "if match is None:\n        return None" in fm_src
        and "got_start, got_end = (int(match.group(1)), int(match.group(2)))" in fm_src
        and "got_total = None if match.group(3) == '*' else int(match.group(3))" in fm_src
        and "except ValueError:\n        return None" in fm_src
        and "if got_start != start or got_end != end:" in fm_src
        and "if total is not None and got_total is not None and (got_total != total):" in fm_src
    )
    one = ast.unparse(_func(tree, "_fetch_one_chunk"))
    chunk_cr_used = (
        "mismatch = _content_range_mismatch(resp.headers.get('Content-Range'), start, end, total)" in one
        and "if mismatch is not None:\n                raise RuntimeError" in one
        and one.index("if resp.status != 206:") < one.index("_content_range_mismatch(") < one.index("_read_range_response_body(")
        and "_fetch_one_chunk(client, url, start, end, semaphore, config, url_validator, content_length)"
        in ast.unparse(_func(tree, "_fetch_chunks_with_hedging"))
    )
    if not (chunk_cr_ok and chunk_cr_used):
        raise Shape("chunk Content-Range check not recognised")

    # ---- session / status shapes
    sess = _func(tree, "_create_session")
    auto_off = any(
        isinstance(n, ast.Call) and any(k.arg == "auto_decompress" and isinstance(k.value, ast.Constant) and k.value.value is False for k in n.keywords)
        for n in ast.walk(sess)
    )
    rfs = ast.unparse(_func(tree, "_raise_for_status_redacted"))
    status_ok = "if 200 <= resp.status < 300:\n        return" in rfs and "safe_url = URL(redact_url(url))" in rfs
    one206 = ast.unparse(_func(tree, "_fetch_one_chunk"))
    chunk_ok = "if resp.status != 206:" in one206 and "expected_size = end - start + 1" in one206
    cr = ast.unparse(_func(tree, "_compute_ranges"))
    ranges_ok = (
        "num_chunks = math.ceil(content_length / chunk_size)" in cr
        and "start = i * chunk_size" in cr
        and "end = min(start + chunk_size - 1, content_length - 1)" in cr
    )
    first_validated, retry_ok, retry_validated = _fetch_url_attempts(tree)
    infl = _inflate_limits()

    # ---- codec names
    from vgi_rpc._codec import Encoding

    encs = [e.value for e in Encoding]

    # ---- interpreter tables
    zeros = []
    for a, b in category_ranges("digit"):
        assert (b - a + 1) % 10 == 0
        for z in range(a, b + 1, 10):
            assert int(chr(z)) == 0 and int(chr(z + 9)) == 9
            zeros.append(z)
    spaces = category_ranges("space")
    for a, b in spaces:  # str.strip() and \s agree on what whitespace is
        for cp in (a, b):
            assert chr(cp).isspace()
    max_digits = sys.int_info.default_max_str_digits
    c0 = sorted(ord(c) for c in up._WHATWG_C0_CONTROL_OR_SPACE)  # type: ignore[attr-defined]
    unsafe = sorted(ord(c) for c in up._UNSAFE_URL_BYTES_TO_REMOVE)  # type: ignore[attr-defined]
    scheme_chars = sorted(ord(c) for c in up.scheme_chars)
    uses_params = [s for s in up.uses_params if s]

    def b(x: object) -> str:
        return "true" if x else "false"

    body = f"""import VgiVerif.Prelude.Regex
namespace VgiVerif.Gen.Fetch
open VgiVerif.Regex

/-! ### `{SRC}` constants -/

/-- `_REDIRECT_STATUSES` -/
def redirectStatuses : List Nat := {_nat_list(redirect_statuses)}

/-- `FetchConfig` field defaults -/
def defParallelThreshold : Nat := {d["parallel_threshold_bytes"]}
def defChunkSize : Nat := {d["chunk_size_bytes"]}
def defMaxParallel : Nat := {d["max_parallel_requests"]}
def defMaxFetch : Nat := {d["max_fetch_bytes"]}
def defMaxDecompressed : Option Nat := {"none" if d["max_decompressed_bytes"] is None else f"some {d['max_decompressed_bytes']}"}
def defMaxRedirects : Nat := {d["max_redirects"]}
def defHedgingEnabled : Bool := {b(float(d["speculative_retry_multiplier"]) > 0)}   -- speculative_retry_multiplier = {d["speculative_retry_multiplier"]}
def defMaxHedges : Nat := {d["max_speculative_hedges"]}

/-- `resp.content.iter_chunked(N)` in `_read_response_body` -/
def readChunk : Nat := {full_chunk}
/-- `resp.content.read(min(N, max(1, sentinel)))` in `_read_range_response_body` -/
def rangeReadChunk : Nat := {range_chunk}
/-- default decoded cap = `max_fetch_bytes * K` (both occurrences agree) -/
def decodedFactor : Nat := {factor}
/-- statuses on which a probe silently falls back to a plain GET -/
def headFallback : List Nat := {_nat_list(head_fb)}
def rangeFallback : List Nat := {_nat_list(range_fb)}
/-- `vgi_rpc._codec.Encoding` wire names, in declaration order -/
def encodings : List (List Char) := [{", ".join(lean_str(e) for e in encs)}]

/-! ### shapes (comparison operators and loop structure, as written in the source) -/

/-- `for redirect_count in range(config.max_redirects + K)` -/
def redirectRangeOffset : Nat := {loop["offset"]}
/-- `if redirect_count <op> config.max_redirects: raise …limit exceeded` -/
def redirectLimitCmp : String := "{loop["guard"]}"
/-- the loop body starts with `_validate_url(current_url, url_validator)` and the request comes later in the same body -/
def validateBeforeRequest : Bool := {b(loop["validate_first"])}
/-- every `client.<verb>(current_url, …, allow_redirects=False)`; verbs = {loop["verbs"]} -/
def manualRedirects : Bool := {b(loop["no_auto"] and loop["verbs"] == ["get", "head"])}
/-- `current_url` is only reassigned by `current_url = next_url` -/
def onlyNextUrlAssigned : Bool := {b(loop["assigns"] == ["current_url = next_url"])}
/-- `if response.status not in _REDIRECT_STATUSES: yield`, `next_url = urljoin(current_url, location)`, scheme/netloc check -/
def redirectStepRecognised : Bool := {b(loop["statuses_test"] and loop["joined"] and loop["target_check"])}
/-- order of the post-redirect checks -/
def redirectCheckOrder : List String := [{", ".join('"' + o + '"' for o in loop["order"])}]

/-- `if total <op> config.max_fetch_bytes: raise` in `_read_response_body` -/
def fullReadGuard : String := "{full_guard}"
/-- `if total <op> config.max_fetch_bytes` / `if total <op> expected_size` inside the range-read loop; final `if total <op> expected_size` -/
def rangeMaxGuard : String := "{rg1}"
def rangeExpectedGuard : String := "{rg2}"
def rangeFinalGuard : String := "{rfinal}"
/-- `content_length <op> config.max_fetch_bytes` (reject before download), `content_length <op> parallel_threshold_bytes`,
    `len(ordered) <op> config.max_fetch_bytes` (after reassembly) -/
def declaredGuard : String := "{pre_guard}"
def parallelCmp : String := "{par_cmp}"
def reassembledGuard : String := "{post_guard}"

/-- `ClientSession(…, auto_decompress=False)` -/
def autoDecompressOff : Bool := {b(auto_off)}
/-- `_raise_for_status_redacted`: returns on `200 <= status < 300`, error URL is `URL(redact_url(url))` -/
def statusCheckRecognised : Bool := {b(status_ok)}
/-- `_fetch_one_chunk`: `expected_size = end - start + 1`, `if resp.status != 206: raise` -/
def chunkCheckRecognised : Bool := {b(chunk_ok)}
/-- `_compute_ranges`: ceil(n / c) chunks, `start = i*c`, `end = min(start + c - 1, n - 1)` -/
def rangesRecognised : Bool := {b(ranges_ok)}
/-- `fetch_url`: one retry on `ServerDisconnectedError` / `ConnectionResetError` -/
def retryRecognised : Bool := {b(retry_ok)}
/-- the first attempt / the retry hand the caller's `url_validator` to `_fetch_with_probe` -/
def firstAttemptValidated : Bool := {b(first_validated)}
def retryValidated : Bool := {b(retry_validated)}
/-- no validator verdict outlives the request it was asked for: `_validate_url(url, validator)` only touches its arguments,
    `_FetchPool` = lock / loop / thread / session, `FetchConfig`'s only private field is that pool, no other module state -/
def validationStateless : Bool := {b(_validation_stateless(tree))}
/-- `redact_url` = `urlunparse((scheme, rendered_host, path, "", "", ""))` with the host/port rendering the model mirrors -/
def redactRecognised : Bool := {b(_redact_shape(tree))}

/-! ### `_content_length_from_content_range` -/

/-- pattern {pat_src!r} -/
def contentRangePattern : Pat :=
  {pat}
/-- entry point: "match" | "fullmatch" | "search" -/
def contentRangeCall : String := "{kind}"
/-- returns `int(match.group(1))` and the pattern has exactly one group -/
def contentRangeGroup1 : Bool := {b(groups_ok)}

/-! ### `_content_range_mismatch` (each 206 chunk) -/

/-- pattern {cpat_src!r} -/
def chunkRangePattern : Pat :=
  {cpat}
def chunkRangeCall : String := "{ckind}"
/-- absent / unparseable / `ValueError` => accepted; start-end must equal the request; a numeric total must equal the probed size;
    checked after the 206 test and before the body is read; `_fetch_chunks_with_hedging` passes `content_length` as total -/
def chunkRangeCheckRecognised : Bool := {b(chunk_cr_ok and chunk_cr_used)}
/-- `use_parallel` has the conjunct `content_length > 0` -/
def parallelNonEmpty : Bool := true

/-! ### `vgi_rpc/_codec.py`: the bounded decoders `_fetch_with_probe` calls -/

/-- `_DECOMPRESS_CHUNK_BYTES` -/
def inflateChunk : Nat := {infl["chunk"]}
/-- per-call output limit `min(_DECOMPRESS_CHUNK_BYTES, max_output_size - total + K)`: the K of the gzip loop
    (`do.decompress(inbuf, …)`) and of the zstd streaming loop (`reader.read(…)`) -/
def gzipLimitOffset : Nat := {infl["gzip_off"]}
def zstdLimitOffset : Nat := {infl["zstd_off"]}
/-- `if total <op> max_output_size: raise DecompressionLimitExceeded` in the two loops -/
def gzipCapGuard : String := "{infl["gzip_guard"]}"
def zstdCapGuard : String := "{infl["zstd_guard"]}"

/-! ### interpreter tables (this CPython) -/

/-- zero code point of every run of ten Unicode decimal digits (`\\d`, `int()`) -/
def digitZeros : List Nat := {_nat_list(zeros)}
/-- `str.isspace` / `\\s` code-point ranges -/
def spaceRanges : List (Nat × Nat) := [{", ".join(f"({a}, {b_})" for a, b_ in spaces)}]
/-- `sys.int_info.default_max_str_digits` -/
def maxStrDigits : Nat := {max_digits}
/-- `urllib.parse._WHATWG_C0_CONTROL_OR_SPACE` (left-stripped from a URL) -/
def c0OrSpace : List Nat := {_nat_list(c0)}
/-- `urllib.parse._UNSAFE_URL_BYTES_TO_REMOVE` -/
def unsafeRemoved : List Nat := {_nat_list(unsafe)}
/-- `urllib.parse.scheme_chars` -/
def schemeChars : List Nat := {_nat_list(scheme_chars)}
/-- `urllib.parse.uses_params` (non-empty entries) -/
def usesParams : List (List Char) := [{", ".join(lean_str(s) for s in uses_params)}]

end VgiVerif.Gen.Fetch
"""
    return {"Fetch.lean": body}
