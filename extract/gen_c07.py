"""C07 / C08: constants and shapes of the log / error codec.

Emits ``LogWire.lean``:
  * metadata key names (vgi_rpc/metadata.py), the ``Level`` values (vgi_rpc/log.py);
  * the shape of ``Message.from_exception`` (summary f-string, the extra keys and what they hold, the
    ``isinstance(kind, str)`` guard) and of ``Message.add_to_metadata`` (the error_kind hoist and its guard);
  * the parameters of ``Message.__init__`` an extra key can collide with;
  * the HTTP marker logic (``_set_http_status``: which status is translated, to what, with which header) and the
    status each dispatch site reports when the implementation raises (``_app_unary.py``, ``_app_stream.py``).
"""

from __future__ import annotations

import ast
import os
from pathlib import Path

from .regex_to_lean import lean_str

REPO = Path(os.environ.get("VERIF_REPO", "/repo"))
PROPS = ["C07", "C08"]


def _func(tree: ast.AST, name: str, cls: str | None = None) -> ast.FunctionDef | None:
    for node in ast.walk(tree):
        if cls is not None:
            if isinstance(node, ast.ClassDef) and node.name == cls:
                for n in node.body:
                    if isinstance(n, ast.FunctionDef) and n.name == name:
                        return n
        elif isinstance(node, ast.FunctionDef) and node.name == name:
            return node
    return None


def q(s: object) -> str:
    import json

    return json.dumps(str(s))


def _b(x: bool) -> str:
    return "true" if x else "false"


def _isinstance_str_guard(fn: ast.FunctionDef, source_expr: str, target_sub: str) -> bool:
    """`kind = <source_expr>` … `if isinstance(kind, str): <target_sub> = kind` (nothing else assigns target_sub)."""
    assigned = None
    for n in ast.walk(fn):
        if isinstance(n, ast.Assign) and len(n.targets) == 1 and ast.unparse(n.value) == source_expr and isinstance(n.targets[0], ast.Name):
            assigned = n.targets[0].id
    if assigned is None:
        return False
    guarded = 0
    total = 0
    for n in ast.walk(fn):
        if isinstance(n, ast.Assign) and len(n.targets) == 1 and ast.unparse(n.targets[0]) == target_sub:
            total += 1
    for n in ast.walk(fn):
        if isinstance(n, ast.If) and ast.unparse(n.test) == f"isinstance({assigned}, str)" and not n.orelse:
            for s in n.body:
                if isinstance(s, ast.Assign) and ast.unparse(s.targets[0]) == target_sub and ast.unparse(s.value) == assigned:
                    guarded += 1
    return total == 1 and guarded == 1


def _from_exception(tree: ast.AST) -> dict[str, object]:
    fn = _func(tree, "from_exception", "Message")
    out: dict[str, object] = {"summary_sep": None, "keys": [], "kind_guard": False, "ret_ok": False, "opt_keys": [], "frames": False}
    if fn is None:
        return out
    for n in ast.walk(fn):
        if isinstance(n, ast.Assign) and ast.unparse(n.targets[0]) == "summary" and isinstance(n.value, ast.JoinedStr):
            v = n.value.values
            if (len(v) == 3 and isinstance(v[0], ast.FormattedValue) and ast.unparse(v[0].value) == "type(exc).__name__"
                    and isinstance(v[1], ast.Constant) and isinstance(v[2], ast.FormattedValue) and ast.unparse(v[2].value) == "exc"
                    and v[0].conversion == -1 and v[2].conversion == -1 and v[0].format_spec is None and v[2].format_spec is None):
                out["summary_sep"] = v[1].value
        if isinstance(n, ast.AnnAssign) and ast.unparse(n.target) == "extra" and isinstance(n.value, ast.Dict):
            out["keys"] = [(k.value, ast.unparse(v)) for k, v in zip(n.value.keys, n.value.values) if isinstance(k, ast.Constant)]
        if isinstance(n, ast.Return) and n.value is not None and ast.unparse(n.value) == "cls(Level.EXCEPTION, summary, **extra)":
            out["ret_ok"] = True
        if isinstance(n, ast.If) and ast.unparse(n.test) in ("tb_exc.__cause__", "tb_exc.__context__ and (not tb_exc.__suppress_context__)"):
            for s in ast.walk(n):
                if isinstance(s, ast.Assign) and isinstance(s.targets[0], ast.Subscript) and ast.unparse(s.targets[0].value) == "extra":
                    out["opt_keys"].append(s.targets[0].slice.value)  # type: ignore[attr-defined]
        if isinstance(n, ast.Assign) and ast.unparse(n.targets[0]) == "extra['frames']":
            out["frames"] = True
    out["kind_guard"] = _isinstance_str_guard(fn, "getattr(exc, 'error_kind', None)", "extra['error_kind']")
    return out


def _add_to_metadata(tree: ast.AST) -> dict[str, bool]:
    fn = _func(tree, "add_to_metadata", "Message")
    out = {"level": False, "message": False, "extra_if": False, "hoist_guard": False}
    if fn is None:
        return out
    names = {}
    for n in ast.walk(fn):
        if isinstance(n, ast.AnnAssign) and isinstance(n.target, ast.Name) and n.value is not None:
            names[n.target.id] = ast.unparse(n.value)
    for n in fn.body:
        if isinstance(n, ast.Assign) and isinstance(n.targets[0], ast.Subscript) and ast.unparse(n.targets[0].value) == "result":
            key = names.get(ast.unparse(n.targets[0].slice), "")
            if key == "LOG_LEVEL_KEY.decode()" and ast.unparse(n.value) == "self.level.value":
                out["level"] = True
            if key == "LOG_MESSAGE_KEY.decode()" and ast.unparse(n.value) == "self.message":
                out["message"] = True
        if isinstance(n, ast.If) and ast.unparse(n.test) == "self.extra" and not n.orelse:
            for s in n.body:
                if (isinstance(s, ast.Assign) and isinstance(s.targets[0], ast.Subscript)
                        and names.get(ast.unparse(s.targets[0].slice)) == "LOG_EXTRA_KEY.decode()"
                        and ast.unparse(s.value) == "json.dumps(self.extra)"):
                    out["extra_if"] = True
            # the hoist lives inside `if self.extra:`
            mod = ast.Module(body=n.body, type_ignores=[])
            fake = ast.FunctionDef(name="x", args=fn.args, body=n.body, decorator_list=[], type_params=[])
            del mod
            out["hoist_guard"] = _isinstance_str_guard(fake, "self.extra.get('error_kind')", "result[ERROR_KIND_KEY.decode()]")
    return out


def _set_http_status(tree: ast.AST) -> dict[str, object]:
    fn = _func(tree, "_set_http_status")
    out: dict[str, object] = {"ok": False, "status": "", "header": "", "value": "", "else_ok": False}
    if fn is None:
        return out
    ifs = [n for n in fn.body if isinstance(n, ast.If)]
    if len(ifs) != 1:
        return out
    i = ifs[0]
    if ast.unparse(i.test) != "status_code == HTTPStatus.INTERNAL_SERVER_ERROR":
        return out
    for s in i.body:
        if isinstance(s, ast.Assign) and ast.unparse(s.targets[0]) == "resp.status" and isinstance(s.value, ast.Constant):
            out["status"] = str(s.value.value)
        if isinstance(s, ast.Expr) and isinstance(s.value, ast.Call) and ast.unparse(s.value.func) == "resp.set_header":
            a = s.value.args
            if len(a) == 2 and ast.unparse(a[0]) == "RPC_ERROR_HEADER" and isinstance(a[1], ast.Constant):
                out["header"] = "RPC_ERROR_HEADER"
                out["value"] = a[1].value
    out["else_ok"] = len(i.orelse) == 1 and ast.unparse(i.orelse[0]) == "resp.status = str(status_code.value)"
    # nothing else in the function sets the marker header
    n_hdr = sum(1 for n in ast.walk(fn) if isinstance(n, ast.Call) and ast.unparse(n.func) == "resp.set_header")
    out["ok"] = bool(out["status"] and out["header"] and out["else_ok"] and n_hdr == 1)
    return out


def _handler_for_call(fn: ast.FunctionDef, call_pred) -> ast.ExceptHandler | None:
    """The `except Exception` handler of the innermost try whose body contains a call matching call_pred."""
    best = None
    for n in ast.walk(fn):
        if isinstance(n, ast.Try):
            body = ast.Module(body=n.body, type_ignores=[])
            if any(isinstance(c, ast.Call) and call_pred(c) for c in ast.walk(body)):
                for h in n.handlers:
                    if h.type is not None and ast.unparse(h.type) == "Exception":
                        # innermost = the smallest try
                        size = sum(1 for _ in ast.walk(body))
                        if best is None or size < best[0]:
                            best = (size, h)
    return best[1] if best else None


def _site_statuses() -> dict[str, str]:
    """How each dispatch site reports an exception raised by the implementation.

    unary          : `http_status = HTTPStatus.X` in the handler around `getattr(impl, method)(**kwargs)`
    init           : `raise _RpcHttpError(exc, status_code=outcome.http_status …)` after `outcome.http_status = HTTPStatus.X`
    exchange       : same, around `state.process(...)` in `_run_http_exchange_turn`
    producer       : `_current_response_status.set(HTTPStatus.X)` around `state.process(...)` in `_run_http_producer_turn`
    """
    res = {"unary": "", "init": "", "exchange": "", "producer": ""}
    impl_call = lambda c: isinstance(c.func, ast.Call) and ast.unparse(c.func.func) == "getattr" and any(k.arg is None for k in c.keywords)  # noqa: E731
    proc_call = lambda c: ast.unparse(c.func) == "state.process"  # noqa: E731

    def status_assign(h: ast.ExceptHandler, target: str) -> str:
        for s in ast.walk(h):
            if isinstance(s, ast.Assign) and ast.unparse(s.targets[0]) == target and ast.unparse(s.value).startswith("HTTPStatus."):
                return ast.unparse(s.value).split(".", 1)[1]
        return ""

    def raises_rpc_http_error(h: ast.ExceptHandler) -> bool:
        for s in ast.walk(h):
            if isinstance(s, ast.Raise) and isinstance(s.exc, ast.Call) and ast.unparse(s.exc.func) == "_RpcHttpError":
                kw = {k.arg: ast.unparse(k.value) for k in s.exc.keywords}
                return kw.get("status_code") == "outcome.http_status" and ast.unparse(s.exc.args[0]) == "exc"
        return False

    ut = ast.parse((REPO / "vgi_rpc/http/server/_app_unary.py").read_text())
    for fn in [n for n in ast.walk(ut) if isinstance(n, ast.FunctionDef)]:
        h = _handler_for_call(fn, impl_call)
        if h is not None:
            res["unary"] = status_assign(h, "http_status")
    st = ast.parse((REPO / "vgi_rpc/http/server/_app_stream.py").read_text())
    fn = _func(st, "_run_stream_init_sync")
    if fn is not None:
        h = _handler_for_call(fn, impl_call)
        if h is not None and raises_rpc_http_error(h):
            res["init"] = status_assign(h, "outcome.http_status")
    fn = _func(st, "_run_http_exchange_turn")
    if fn is not None:
        h = _handler_for_call(fn, proc_call)
        if h is not None and raises_rpc_http_error(h):
            res["exchange"] = status_assign(h, "outcome.http_status")
    fn = _func(st, "_run_http_producer_turn")
    if fn is not None:
        h = _handler_for_call(fn, proc_call)
        if h is not None:
            for s in ast.walk(h):
                if isinstance(s, ast.Call) and ast.unparse(s.func) == "_current_response_status.set" and len(s.args) == 1:
                    res["producer"] = ast.unparse(s.args[0]).split(".", 1)[-1]
    return res


def _unary_budget_guard() -> dict[str, bool]:
    """`_app_unary.py`: every `_enforce_response_budgets(...)` call that can REPLACE the response body sits under
    `if status == "ok":` (so the EXCEPTION batch of an implementation error is never measured against a cap and swapped
    for a cap error), and the external-cap pre-flight that writes its own error batch sits in the try body after the
    implementation call returned (an exception skips it)."""
    t = ast.parse((REPO / "vgi_rpc/http/server/_app_unary.py").read_text())
    calls = 0
    guarded = 0

    def walk(node: ast.AST, under_ok: bool) -> None:
        nonlocal calls, guarded
        for child in ast.iter_child_nodes(node):
            u = under_ok
            if isinstance(node, ast.If) and child in node.body and ast.unparse(node.test) in ("status == 'ok'",):
                u = True
            if isinstance(child, ast.Call) and ast.unparse(child.func) == "_enforce_response_budgets":
                calls += 1
                guarded += 1 if u else 0
            walk(child, u)

    walk(t, False)
    return {"only_on_success": calls >= 1 and calls == guarded}


def _socket_handlers() -> dict[str, bool]:
    """rpc/_server.py: around each implementation call of the socket-family server (`getattr(self._impl, info.name)(**kwargs)`
    in `_serve_unary` and `_serve_stream`, `state.process(...)` in `_serve_stream`) the innermost `try` that has handlers
    has `except Exception` as its FIRST handler (no narrower class is intercepted ahead of it — an implementation may raise
    any class, BrokenPipeError / ConnectionResetError / StopIteration included) and that handler writes the error batch."""
    t = ast.parse((REPO / "vgi_rpc/rpc/_server.py").read_text())
    out = {"unary": False, "init": False, "step": False}

    def innermost(fn: ast.FunctionDef, pred) -> ast.Try | None:
        best = None
        for n in ast.walk(fn):
            if isinstance(n, ast.Try) and n.handlers:
                body = ast.Module(body=n.body, type_ignores=[])
                if any(isinstance(c, ast.Call) and pred(c) for c in ast.walk(body)):
                    size = sum(1 for _ in ast.walk(body))
                    if best is None or size < best[0]:
                        best = (size, n)
        return best[1] if best else None

    def ok(tr: ast.Try | None, writer: str) -> bool:
        if tr is None:
            return False
        h = tr.handlers[0]
        return h.type is not None and ast.unparse(h.type) == "Exception" and writer in ast.unparse(h)

    impl = lambda c: ast.unparse(c.func) == "getattr(self._impl, info.name)"  # noqa: E731
    proc = lambda c: ast.unparse(c.func) == "state.process"  # noqa: E731
    for fn in ast.walk(t):
        if isinstance(fn, ast.FunctionDef) and fn.name == "_serve_unary":
            out["unary"] = ok(innermost(fn, impl), "_write_error_batch(")
        if isinstance(fn, ast.FunctionDef) and fn.name == "_serve_stream":
            out["init"] = ok(innermost(fn, impl), "_write_error_stream(")
            out["step"] = ok(innermost(fn, proc), "_write_error_batch(")
    return out


def _resource_layer() -> dict[str, bool]:
    """`_resources.py`: every path of the three RPC resources ends in `_set_http_status` / `_set_error_response`,
    the stream resources reset the context variable to OK before dispatch and read it afterwards."""
    t = ast.parse((REPO / "vgi_rpc/http/server/_resources.py").read_text())
    out = {"unary": False, "init": False, "exchange": False}
    for cname, key in (("_RpcResource", "unary"), ("_StreamInitResource", "init"), ("_ExchangeResource", "exchange")):
        fn = _func(t, "on_post", cname)
        if fn is None:
            continue
        src = ast.unparse(fn)
        err = "_set_error_response(resp, e.cause, status_code=e.status_code" in src
        if key == "unary":
            out[key] = err and "_set_http_status(resp, http_status)" in src and "result_stream, http_status = self._app._unary_sync(" in src
        else:
            out[key] = (err and "_current_response_status.set(HTTPStatus.OK)" in src
                        and "_set_http_status(resp, _current_response_status.get())" in src)
    t2 = ast.parse((REPO / "vgi_rpc/http/server/_responses.py").read_text())
    fn = _func(t2, "_set_error_response")
    out["error_response_sets_status"] = fn is not None and "_set_http_status(resp, status_code)" in ast.unparse(fn)
    return out


def emit() -> dict[str, str]:
    from http import HTTPStatus

    import vgi_rpc.metadata as md
    from vgi_rpc.http._common import RPC_ERROR_HEADER
    from vgi_rpc.log import Level, Message

    log_tree = ast.parse((REPO / "vgi_rpc/log.py").read_text())
    fe = _from_exception(log_tree)
    am = _add_to_metadata(log_tree)
    keys = dict(fe["keys"])  # type: ignore[arg-type]
    keys_ok = (list(keys) == ["exception_type", "exception_message", "traceback"] and keys["exception_type"] == "type(exc).__name__"
               and keys["exception_message"] == "str(exc)" and keys["traceback"] == "formatted_tb"
               and fe["opt_keys"] == ["cause", "context"] and fe["frames"] and fe["ret_ok"])
    init = _func(log_tree, "__init__", "Message")
    params = [a.arg for a in init.args.args] if init is not None else []
    has_kwargs = init is not None and init.args.kwarg is not None
    sh = _set_http_status(ast.parse((REPO / "vgi_rpc/http/server/_responses.py").read_text()))
    sites = _site_statuses()
    rl = _resource_layer()
    bg = _unary_budget_guard()
    sh2 = _socket_handlers()

    def code(name: str) -> int:
        return int(getattr(HTTPStatus, name).value) if name and hasattr(HTTPStatus, name) else 0

    levels = [lv.value for lv in Level]
    body = f"""namespace VgiVerif.Gen.LogWire

/-! metadata keys (vgi_rpc/metadata.py) -/
def logLevelKey : String := {q(md.LOG_LEVEL_KEY.decode())}
def logMessageKey : String := {q(md.LOG_MESSAGE_KEY.decode())}
def logExtraKey : String := {q(md.LOG_EXTRA_KEY.decode())}
def errorKindKey : String := {q(md.ERROR_KIND_KEY.decode())}
def serverIdKey : String := {q(md.SERVER_ID_KEY.decode())}
def requestIdKey : String := {q(md.REQUEST_ID_KEY.decode())}

/-- `Level` values, in declaration order -/
@[reducible] def levels : List (List Char) := [{", ".join(lean_str(x) for x in levels)}]
/-- `Level.EXCEPTION.value` -/
@[reducible] def exceptionLevel : List Char := {lean_str(Level.EXCEPTION.value)}

/-! `Message.from_exception` -/
/-- `summary = f"{{type(exc).__name__}}<sep>{{exc}}"`; empty list = shape not recognised -/
@[reducible] def summarySep : List Char := {lean_str(fe["summary_sep"] or "")}
def summaryRecognised : Bool := {_b(fe["summary_sep"] is not None)}
/-- extra = {{"exception_type": type(exc).__name__, "exception_message": str(exc), "traceback": formatted_tb}},
then optional "cause" / "context", then "frames"; returns `cls(Level.EXCEPTION, summary, **extra)` -/
def extraShapeRecognised : Bool := {_b(bool(keys_ok))}
@[reducible] def excTypeKey : List Char := {lean_str("exception_type")}
@[reducible] def excMessageKey : List Char := {lean_str("exception_message")}
@[reducible] def tracebackKey : List Char := {lean_str("traceback")}
@[reducible] def causeKey : List Char := {lean_str("cause")}
@[reducible] def contextKey : List Char := {lean_str("context")}
@[reducible] def framesKey : List Char := {lean_str("frames")}
@[reducible] def kindExtraKey : List Char := {lean_str("error_kind")}
/-- `kind = getattr(exc, "error_kind", None); if isinstance(kind, str): extra["error_kind"] = kind` (the only assignment) -/
@[reducible] def fromExcKindStrGuard : Bool := {_b(bool(fe["kind_guard"]))}

/-! `Message.add_to_metadata` -/
/-- level ← self.level.value, message ← self.message, and inside `if self.extra:` log_extra ← json.dumps(self.extra) -/
def addToMetadataRecognised : Bool := {_b(am["level"] and am["message"] and am["extra_if"])}
/-- `kind = self.extra.get("error_kind"); if isinstance(kind, str): result[ERROR_KIND_KEY] = kind` (inside `if self.extra:`) -/
@[reducible] def hoistKindStrGuard : Bool := {_b(am["hoist_guard"])}

/-- positional parameters of `Message.__init__` (an extra passed as `**kwargs` with one of these names is a TypeError) -/
@[reducible] def messageParams : List (List Char) := [{", ".join(lean_str(x) for x in params)}]
def messageTakesKwargs : Bool := {_b(bool(has_kwargs))}
/-- client-side names under which the top-level server id / request id are added to a delivered message's extras -/
@[reducible] def serverIdExtraKey : List Char := {lean_str("server_id")}
@[reducible] def requestIdExtraKey : List Char := {lean_str("request_id")}

/-! HTTP marker logic (vgi_rpc/http/server/_responses.py, _resources.py, _app_unary.py, _app_stream.py) -/
/-- `_set_http_status`: `if status_code == HTTPStatus.INTERNAL_SERVER_ERROR: resp.status = "<translated>"; set_header(RPC_ERROR_HEADER, "<value>")
else: resp.status = str(status_code.value)` and no other header write -/
def setHttpStatusRecognised : Bool := {_b(bool(sh["ok"]))}
@[reducible] def internalServerError : Nat := {int(HTTPStatus.INTERNAL_SERVER_ERROR.value)}
@[reducible] def okStatus : Nat := {int(HTTPStatus.OK.value)}
@[reducible] def translatedStatus : Nat := {int(sh["status"] or 0)}
def markerHeader : String := {q(RPC_ERROR_HEADER)}
def markerValue : String := {q(str(sh["value"]))}
/-- status reported when the implementation raises, per dispatch site (0 = handler shape not recognised) -/
@[reducible] def unaryRaiseStatus : Nat := {code(sites["unary"])}
@[reducible] def initRaiseStatus : Nat := {code(sites["init"])}
@[reducible] def exchangeRaiseStatus : Nat := {code(sites["exchange"])}
@[reducible] def producerRaiseStatus : Nat := {code(sites["producer"])}
/-- `_run_unary_sync`: the post-flush `_enforce_response_budgets` check (which discards the body and answers a cap error
instead) runs only under `if status == "ok":` — the EXCEPTION batch of an implementation error is exempt from the caps -/
@[reducible] def unaryBudgetOnlyOnSuccess : Bool := {_b(bg["only_on_success"])}
/-- socket-family server (rpc/_server.py): around each implementation call the first handler is `except Exception` and it
writes the error batch — no exception class is intercepted ahead of it (unary, stream init, stream step) -/
@[reducible] def socketUnaryCatchesAll : Bool := {_b(sh2["unary"])}
@[reducible] def socketInitCatchesAll : Bool := {_b(sh2["init"])}
@[reducible] def socketStepCatchesAll : Bool := {_b(sh2["step"])}
/-- the three Falcon resources route every outcome through `_set_http_status` / `_set_error_response`; the stream
resources reset `_current_response_status` to OK before dispatch and read it after -/
def resourceLayerRecognised : Bool := {_b(all(rl.values()))}

end VgiVerif.Gen.LogWire
"""
    assert Message is not None
    return {"LogWire.lean": body}
