"""C08 / C07: shape of the client's ``_dispatch_log_or_error`` and of the server's failing-step log flush.

Emits ``LogDispatch.lean``:
  * ``shape`` — one flag per guard of ``_dispatch_log_or_error`` (vgi_rpc/rpc/_wire.py): how each metadata value is
    decoded, which exceptions the ``json.loads`` block suppresses, whether a non-dict ``log_extra`` is discarded, whether
    an unknown level is handled, whether extras are passed to ``Message`` as ``**kwargs``;
  * ``exceptionBranchRecognised`` — the EXCEPTION branch builds ``RpcError(type, message, traceback, request_id=…,
    error_kind=…)`` from the top-level key first and the ``log_extra`` fallback second;
  * ``failLogsKept`` — at the three stream sites the collector's log batches are written before the error batch, and the
    sink is flushed into the init error stream (pipe + HTTP).
"""

from __future__ import annotations

import ast
import os
from pathlib import Path

REPO = Path(os.environ.get("VERIF_REPO", "/repo"))
PROPS = ["C08", "C07"]


def _b(x: object) -> str:
    return "true" if x else "false"


def _func(tree: ast.AST, name: str) -> ast.FunctionDef | None:
    for node in ast.walk(tree):
        if isinstance(node, ast.FunctionDef) and node.name == name:
            return node
    return None


def _decode_sites(fn: ast.FunctionDef) -> dict[str, bool]:
    """receiver variable -> the call is `.decode("utf-8", "replace")` (every call on that receiver)"""
    sites: dict[str, bool] = {}
    for n in ast.walk(fn):
        if isinstance(n, ast.Call) and isinstance(n.func, ast.Attribute) and n.func.attr == "decode" and isinstance(n.func.value, ast.Name):
            args = [a.value for a in n.args if isinstance(a, ast.Constant)]
            kw = {k.arg: getattr(k.value, "value", None) for k in n.keywords}
            errors = args[1] if len(args) > 1 else kw.get("errors")
            enc = args[0] if args else kw.get("encoding", "utf-8")
            ok = errors == "replace" and str(enc).lower().replace("_", "-") in ("utf-8", "utf8")
            r = n.func.value.id
            sites[r] = sites.get(r, True) and ok
    return sites


def _json_block(fn: ast.FunctionDef) -> tuple[bool, bool]:
    """(suppresses ValueError and RecursionError, result used only under isinstance(parsed, dict))"""
    for n in ast.walk(fn):
        if isinstance(n, ast.With):
            src = ast.unparse(ast.Module(body=n.body, type_ignores=[]))
            if "json.loads" not in src:
                continue
            names: set[str] = set()
            for item in n.items:
                c = item.context_expr
                if isinstance(c, ast.Call) and ast.unparse(c.func) == "contextlib.suppress":
                    names |= {ast.unparse(a) for a in c.args}
            catch_all = {"ValueError", "RecursionError"} <= names or "Exception" in names
            # dict guard: json.loads result assigned to a name; raw_extra_data assigned only inside `if isinstance(name, dict)`
            parsed_name = None
            for s in n.body:
                if isinstance(s, ast.Assign) and isinstance(s.value, ast.Call) and ast.unparse(s.value.func) == "json.loads" and isinstance(s.targets[0], ast.Name):
                    parsed_name = s.targets[0].id
            dict_only = False
            if parsed_name is not None and parsed_name != "raw_extra_data":
                assigns = [s for s in ast.walk(ast.Module(body=n.body, type_ignores=[])) if isinstance(s, ast.Assign) and ast.unparse(s.targets[0]) == "raw_extra_data"]
                guarded = [
                    s for i in n.body if isinstance(i, ast.If) and ast.unparse(i.test) == f"isinstance({parsed_name}, dict)" and not i.orelse
                    for s in i.body if isinstance(s, ast.Assign) and ast.unparse(s.targets[0]) == "raw_extra_data" and ast.unparse(s.value) == parsed_name
                ]
                dict_only = len(assigns) == 1 and len(guarded) == 1
            return catch_all, dict_only
    return False, False


def _level_guard(fn: ast.FunctionDef) -> bool:
    """every `Level(level_str)` call sits in a try whose `except ValueError` handler returns True"""
    calls = [n for n in ast.walk(fn) if isinstance(n, ast.Call) and ast.unparse(n.func) == "Level"]
    if not calls:
        return False
    guarded = 0
    for t in ast.walk(fn):
        if isinstance(t, ast.Try):
            body_calls = [c for c in ast.walk(ast.Module(body=t.body, type_ignores=[])) if isinstance(c, ast.Call) and ast.unparse(c.func) == "Level"]
            if not body_calls:
                continue
            for h in t.handlers:
                if h.type is not None and ast.unparse(h.type) in ("ValueError", "(ValueError, KeyError)", "Exception"):
                    rets = [s for s in h.body if isinstance(s, ast.Return)]
                    if rets and ast.unparse(rets[-1].value) == "True":
                        guarded += len(body_calls)
    return guarded == len(calls)


def _no_kwargs(fn: ast.FunctionDef) -> bool:
    """`Message(...)` is called without `**` unpacking"""
    calls = [n for n in ast.walk(fn) if isinstance(n, ast.Call) and ast.unparse(n.func) == "Message"]
    return bool(calls) and all(all(k.arg is not None for k in c.keywords) for c in calls)


def _exception_branch(fn: ast.FunctionDef) -> bool:
    for n in ast.walk(fn):
        if isinstance(n, ast.If) and ast.unparse(n.test) == "level_str == Level.EXCEPTION.value":
            src = ast.unparse(ast.Module(body=n.body, type_ignores=[]))
            want = [
                "error_type = str(raw_extra_data.get('exception_type', level_str))",
                "traceback_str = str(raw_extra_data.get('traceback', ''))",
                "kind_bytes = custom_metadata.get(ERROR_KIND_KEY)",
                "if kind_bytes is not None:\n    error_kind = kind_bytes.decode(",
                "else:\n    extra_kind = raw_extra_data.get('error_kind')\n    if isinstance(extra_kind, str):\n        error_kind = extra_kind",
                "raise RpcError(error_type, message_str, traceback_str, request_id=request_id, error_kind=error_kind)",
            ]
            return all(w in src for w in want)
    return False


def _prologue(fn: ast.FunctionDef) -> bool:
    src = ast.unparse(fn)
    want = [
        "if custom_metadata is None:",
        "if batch.num_rows != 0:",
        "level_bytes = custom_metadata.get(LOG_LEVEL_KEY)",
        "message_bytes = custom_metadata.get(LOG_MESSAGE_KEY)",
        "if level_bytes is None or message_bytes is None:",
    ]
    return all(w in src for w in want)


def _fail_logs_kept() -> dict[str, bool]:
    """The failing-step flush at the three stream sites and the init-error sink flush."""
    out = {"pipe_step": False, "pipe_init": False, "http_producer": False, "http_exchange": False, "http_init": False,
           "helper": False, "error_stream": False}
    wire = ast.parse((REPO / "vgi_rpc/rpc/_wire.py").read_text())
    fn = _func(wire, "_flush_collector_logs")
    if fn is not None:
        src = ast.unparse(fn)
        out["helper"] = "for ab in out.log_batches:" in src and "writer.write_batch(ab.batch, custom_metadata=ab.custom_metadata)" in src
    types_src = (REPO / "vgi_rpc/rpc/_types.py").read_text()
    out["helper"] = out["helper"] and "[ab for i, ab in enumerate(self._batches) if i != self._data_batch_idx]" in types_src
    fn = _func(wire, "_write_error_stream")
    if fn is not None:
        src = ast.unparse(fn)
        i = src.find("sink.flush_contents(writer, schema)")
        j = src.find("_write_error_batch(writer, schema, exc")
        out["error_stream"] = 0 <= i < j

    def handler_writes_logs_first(fn: ast.FunctionDef | None) -> bool:
        """in the handler that writes the error batch for a failed process(): `_flush_collector_logs(w, in_flight)` precedes it,
        and `in_flight` is set right before `state.process` and cleared before `_flush_collector`"""
        if fn is None:
            return False
        src = ast.unparse(fn)
        a = src.find("in_flight = out")
        b = src.find("state.process(", max(a, 0))
        c = src.find("in_flight = None", b)
        d = src.find("_flush_collector(", b)
        order_ok = 0 <= a < b < c and (d < 0 or c < d)
        for h in ast.walk(fn):
            if isinstance(h, ast.ExceptHandler):
                hs = ast.unparse(h)
                i = hs.find("_flush_collector_logs(")
                j = hs.find("_write_error_batch(")
                if 0 <= i < j and "if in_flight is not None" in hs:
                    return order_ok
        return False

    srv = ast.parse((REPO / "vgi_rpc/rpc/_server.py").read_text())
    ss = _func(srv, "_serve_stream")
    out["pipe_step"] = handler_writes_logs_first(ss)
    out["pipe_init"] = ss is not None and "_write_error_stream(transport.writer, _EMPTY_SCHEMA, exc, server_id=self._server_id, sink=sink)" in ast.unparse(ss)
    st = ast.parse((REPO / "vgi_rpc/http/server/_app_stream.py").read_text())
    out["http_producer"] = handler_writes_logs_first(_func(st, "_run_http_producer_turn"))
    ex = _func(st, "_run_http_exchange_turn")
    if ex is not None:
        src = ast.unparse(ex)
        a = src.find("in_flight = out")
        b = src.find("state.process(", max(a, 0))
        c = src.find("in_flight = None", b)
        out["http_exchange"] = (0 <= a < b < c and "failed = in_flight" in src
                                and "write_logs=(lambda w, _s: _flush_collector_logs(w, failed)) if failed is not None else None" in src)
    ini = _func(st, "_run_stream_init_sync")
    out["http_init"] = ini is not None and "write_logs=sink.flush_contents" in ast.unparse(ini)
    resp = (REPO / "vgi_rpc/http/server/_responses.py").read_text()
    res = (REPO / "vgi_rpc/http/server/_resources.py").read_text()
    i = resp.find("write_logs(writer, schema)")
    j = resp.find("_write_error_batch(writer, schema, exc, server_id=server_id)")
    carried = 0 <= i < j and res.count("write_logs=e.write_logs") >= 2
    out["http_exchange"] = out["http_exchange"] and carried
    out["http_init"] = out["http_init"] and carried
    return out


def _sink_shape() -> dict[str, bool]:
    """`_ClientLogSink` (rpc/_wire.py): `__call__` writes through exactly when `self._writer is not None and
    self._schema is not None` (identity tests — an empty `pa.Schema` is falsy, so truthiness tests would buffer for ever),
    else appends to the buffer; `flush_contents` sets writer + schema, writes the buffer in order and clears it;
    `reset` clears writer and schema."""
    out = {"call_is_not_none": False, "call_shape": False, "flush_shape": False, "reset_shape": False}
    t = ast.parse((REPO / "vgi_rpc/rpc/_wire.py").read_text())
    cls = next((n for n in ast.walk(t) if isinstance(n, ast.ClassDef) and n.name == "_ClientLogSink"), None)
    if cls is None:
        return out
    fns = {n.name: n for n in cls.body if isinstance(n, ast.FunctionDef)}
    c = fns.get("__call__")
    if c is not None:
        ifs = [n for n in c.body if isinstance(n, ast.If)]
        if len(ifs) == 1:
            i = ifs[0]
            out["call_is_not_none"] = ast.unparse(i.test) == "self._writer is not None and self._schema is not None"
            out["call_shape"] = (len(i.body) == 1 and ast.unparse(i.body[0]) == "_write_message_batch(self._writer, self._schema, msg, server_id=self._server_id)"
                                 and len(i.orelse) == 1 and ast.unparse(i.orelse[0]) == "self._buffer.append(msg)")
    f = fns.get("flush_contents")
    if f is not None:
        body = [ast.unparse(n) for n in f.body if not (isinstance(n, ast.Expr) and isinstance(n.value, ast.Constant))]
        out["flush_shape"] = body == ["self._writer = writer", "self._schema = schema",
                                      "for msg in self._buffer:\n    _write_message_batch(writer, schema, msg, server_id=self._server_id)",
                                      "self._buffer.clear()"]
    r = fns.get("reset")
    if r is not None:
        body = [ast.unparse(n) for n in r.body if not (isinstance(n, ast.Expr) and isinstance(n.value, ast.Constant))]
        out["reset_shape"] = body == ["self._writer = None", "self._schema = None"]
    return out


def emit() -> dict[str, str]:
    wire = ast.parse((REPO / "vgi_rpc/rpc/_wire.py").read_text())
    fn = _func(wire, "_dispatch_log_or_error")
    if fn is None:
        dec: dict[str, bool] = {}
        catch_all = dict_only = guard = nokw = exc_ok = pro = False
    else:
        dec = _decode_sites(fn)
        catch_all, dict_only = _json_block(fn)
        guard = _level_guard(fn)
        nokw = _no_kwargs(fn)
        exc_ok = _exception_branch(fn)
        pro = _prologue(fn)
    known = {"level_bytes", "message_bytes", "raw_extra", "request_id_bytes", "server_id_bytes", "kind_bytes"}
    fl = _fail_logs_kept()
    sk = _sink_shape()
    body = f"""namespace VgiVerif.Gen.LogDispatch

/-- guards of `_dispatch_log_or_error` (vgi_rpc/rpc/_wire.py), read off its AST -/
structure Shape where
  levelReplace : Bool        -- `level_bytes.decode("utf-8", "replace")`
  messageReplace : Bool      -- `message_bytes.decode("utf-8", "replace")`
  extraReplace : Bool        -- `raw_extra.decode("utf-8", "replace")`
  requestIdReplace : Bool
  serverIdReplace : Bool
  kindReplace : Bool
  jsonCatchAll : Bool        -- the `json.loads` block suppresses ValueError and RecursionError (not only JSONDecodeError)
  extraDictOnly : Bool       -- the parsed value becomes `raw_extra_data` only under `isinstance(parsed, dict)`
  levelGuarded : Bool        -- `Level(level_str)` inside `try … except ValueError: return True`
  extraNoKwargs : Bool       -- `Message(...)` is built without `**extra`
deriving Repr, DecidableEq

@[reducible] def shape : Shape :=
  {{ levelReplace := {_b(dec.get("level_bytes"))}, messageReplace := {_b(dec.get("message_bytes"))}, extraReplace := {_b(dec.get("raw_extra"))},
    requestIdReplace := {_b(dec.get("request_id_bytes"))}, serverIdReplace := {_b(dec.get("server_id_bytes"))}, kindReplace := {_b(dec.get("kind_bytes"))},
    jsonCatchAll := {_b(catch_all)}, extraDictOnly := {_b(dict_only)}, levelGuarded := {_b(guard)}, extraNoKwargs := {_b(nokw)} }}

/-- the function decodes nothing else (receivers of `.decode(` calls: {sorted(dec)}) -/
def decodeSitesRecognised : Bool := {_b(set(dec) == known)}
/-- `custom_metadata is None` → data; `num_rows != 0` → data; level or message key missing → data -/
def prologueRecognised : Bool := {_b(pro)}
/-- EXCEPTION branch: type = str(extra.get("exception_type", level)), traceback = str(extra.get("traceback", "")),
kind = top-level key if present else extra["error_kind"] when a str; raise RpcError(type, message, tb, request_id=, error_kind=) -/
def exceptionBranchRecognised : Bool := {_b(exc_ok)}

/-- the shape of the pinned tree (before "fix: a malformed log batch from a peer failed the client's call") -/
def pinned : Shape :=
  {{ levelReplace := false, messageReplace := false, extraReplace := false, requestIdReplace := false, serverIdReplace := false,
    kindReplace := true, jsonCatchAll := false, extraDictOnly := false, levelGuarded := false, extraNoKwargs := false }}

/-! failing-step log flush (rpc/_server.py `_serve_stream`, http/server/_app_stream.py, rpc/_wire.py `_write_error_stream`) -/
/-- `_flush_collector_logs` writes `out.log_batches` (= every batch except the data batch, in order) -/
def flushLogsHelperRecognised : Bool := {_b(fl["helper"])}
/-- per site: the logs of the failed call / init are written BEFORE the error batch -/
@[reducible] def pipeStepKeepsLogs : Bool := {_b(fl["pipe_step"] and fl["helper"])}
@[reducible] def pipeInitKeepsLogs : Bool := {_b(fl["pipe_init"] and fl["error_stream"])}
@[reducible] def httpProducerKeepsLogs : Bool := {_b(fl["http_producer"] and fl["helper"])}
@[reducible] def httpExchangeKeepsLogs : Bool := {_b(fl["http_exchange"] and fl["helper"])}
@[reducible] def httpInitKeepsLogs : Bool := {_b(fl["http_init"])}

/-! `_ClientLogSink` (rpc/_wire.py) -/
/-- `__call__` decides "a writer is available" by `is not None` on writer and schema (NOT by truthiness: an empty
`pa.Schema` is falsy) -/
@[reducible] def sinkTestsIsNotNone : Bool := {_b(sk["call_is_not_none"])}
/-- `__call__`: write through / else buffer; `flush_contents`: set writer + schema, write the buffer in order, clear it;
`reset`: forget writer + schema -/
def sinkShapeRecognised : Bool := {_b(sk["call_shape"] and sk["flush_shape"] and sk["reset_shape"])}

end VgiVerif.Gen.LogDispatch
"""
    return {"LogDispatch.lean": body}
