"""C32: comparison operators, branch shapes and the abandoned-stream rule of vgi_rpc/pool.py (+ the stream bookkeeping
of vgi_rpc/rpc/_client.py).

Emits `Gen/Pool.lean`.  The model (`Model/C32.lean`) evaluates the *extracted* comparison operators and rule flags
(`Cfg.ofGen`), the theorems need them to be what the proofs assume (`Aux.good_ofGen` is `rfl` on them) and `C32_shape`
demands the structural facts the model relies on: which end of the deque is popped / appended, where the lock is held,
the order health-check -> hand-out, the unlocked `_closed` write before `close()` takes the lock, ...
"""

from __future__ import annotations

import ast
import hashlib
import os
from pathlib import Path

REPO = Path(os.environ.get("VERIF_REPO", "/repo"))
PROPS = ["C32"]
SRC_POOL = "vgi_rpc/pool.py"
SRC_CLIENT = "vgi_rpc/rpc/_client.py"
SRC_WIRE = "vgi_rpc/rpc/_wire.py"

CMP = {ast.Lt: "lt", ast.LtE: "le", ast.Gt: "gt", ast.GtE: "ge", ast.Eq: "eq", ast.NotEq: "ne"}

RULE_FIXED = ("self._stream_opened and (self._stream_leaked or last is None or (not last._drained))",
              "self._stream_opened and (self._stream_leaked or last is None or not last._drained)")
RULE_LEGACY = ("self._stream_opened and (self._last_stream_session is None or (not self._last_stream_session._closed))",
               "self._stream_opened and (self._last_stream_session is None or not self._last_stream_session._closed)")


def u(n: ast.AST | None) -> str:
    return "" if n is None else ast.unparse(n)


def _cmp(node: ast.AST, left: str, right: str, what: str) -> str:
    if (
        isinstance(node, ast.Compare)
        and len(node.ops) == 1
        and type(node.ops[0]) in CMP
        and u(node.left) == left
        and u(node.comparators[0]) == right
    ):
        return CMP[type(node.ops[0])]
    raise ValueError(f"{what}: expected `{left} <cmp> {right}`, found `{u(node)}`")


def _body(fn: ast.FunctionDef) -> list[ast.stmt]:
    b = list(fn.body)
    if b and isinstance(b[0], ast.Expr) and isinstance(b[0].value, ast.Constant) and isinstance(b[0].value.value, str):
        b = b[1:]
    return b


def _strip_logs(stmts: list[ast.stmt]) -> list[ast.stmt]:
    """Drop logging statements (`_logger.…(…)`, `if … isEnabledFor …`) — they are not modelled."""
    out = []
    for s in stmts:
        if isinstance(s, ast.Expr) and isinstance(s.value, ast.Call) and u(s.value.func).startswith(("_logger.", "wire_")):
            continue
        if isinstance(s, ast.If) and "isEnabledFor" in u(s.test):
            continue
        out.append(s)
    return out


def _is_with_lock(s: ast.stmt) -> bool:
    return isinstance(s, ast.With) and len(s.items) == 1 and u(s.items[0].context_expr) == "self._lock" and s.items[0].optional_vars is None


def _fingerprint(*nodes: ast.AST) -> str:
    h = hashlib.sha256()
    for n in nodes:
        h.update(ast.dump(n, annotate_fields=False, include_attributes=False).encode())
    return h.hexdigest()[:16]


def _cls(tree: ast.Module, name: str) -> ast.ClassDef:
    c = next((n for n in tree.body if isinstance(n, ast.ClassDef) and n.name == name), None)
    if c is None:
        raise ValueError(f"class {name} not found")
    return c


def _fns(c: ast.ClassDef) -> dict[str, ast.FunctionDef]:
    return {n.name: n for n in c.body if isinstance(n, ast.FunctionDef)}


def _closes_suppressed(s: ast.stmt, what: str) -> bool:
    return isinstance(s, ast.With) and "suppress" in u(s.items[0].context_expr) and [u(x) for x in s.body] == [f"{what}.close()"]


def analyse_pool(text: str) -> dict:
    tree = ast.parse(text)
    out: dict = {}
    wp = _cls(tree, "WorkerPool")
    f = _fns(wp)
    for need in ("__init__", "connect", "close", "_borrow", "_return_worker", "_evict_oldest_locked", "_reap_expired"):
        if need not in f:
            raise ValueError(f"WorkerPool.{need} not found")

    # ---------------------------------------------------------------- _borrow
    b = _strip_logs(_body(f["_borrow"]))
    ok = len(b) == 4 and _is_with_lock(b[0]) and isinstance(b[1], ast.Try) and _is_with_lock(b[2]) and u(b[3]) == "return transport"
    if ok:
        w0 = _strip_logs(b[0].body)  # type: ignore[attr-defined]
        ok = (
            len(w0) == 4
            and u(w0[0]) == "self._borrows += 1"
            and u(w0[1]) == "self._active += 1"
            and u(w0[2]) == "dq = self._idle.get(key)"
            and isinstance(w0[3], ast.If)
            and u(w0[3].test) == "dq"
            and not w0[3].orelse
        )
    if ok:
        hit = _strip_logs(w0[3].body)
        ok = (
            len(hit) == 5
            and u(hit[0]) == "entry = dq.pop()"  # LIFO: the right end
            and isinstance(hit[1], ast.If)
            and u(hit[1].test) == "not dq"
            and [u(x) for x in hit[1].body] == ["del self._idle[key]"]
            and u(hit[2]) == "self._reuses += 1"
            and u(hit[3]) == "transport = entry.transport"
            and isinstance(hit[4], ast.If)
            and u(hit[4].test) == "transport.proc.poll() is not None"  # health check
            and [u(x) for x in hit[4].orelse] == ["return transport"]  # handed out only on the alive branch
        )
    if ok:
        dead = _strip_logs(hit[4].body)
        ok = (
            len(dead) == 3
            and u(dead[0]) == "self._discards += 1"
            and u(dead[1]) == "self._reuses -= 1"
            and _closes_suppressed(dead[2], "transport")
            and not any(isinstance(x, ast.Return) for n in dead for x in ast.walk(n))  # falls through to spawn
        )
    if ok:
        t = b[1]
        assert isinstance(t, ast.Try)
        ok = (
            len(t.body) == 1
            and u(t.body[0]).startswith("transport = SubprocessTransport(list(key)")
            and len(t.handlers) == 1
            and u(t.handlers[0].type) == "OSError"
            and len(t.handlers[0].body) == 2
            and _is_with_lock(t.handlers[0].body[0])
            and [u(x) for x in t.handlers[0].body[0].body] == ["self._active -= 1"]  # type: ignore[attr-defined]
            and u(t.handlers[0].body[1]) == "raise"
            and [u(x) for x in b[2].body] == ["self._spawns += 1"]  # type: ignore[attr-defined]
        )
    out["shapeBorrow"] = bool(ok)

    # ---------------------------------------------------------------- _return_worker
    r = _strip_logs(_body(f["_return_worker"]))
    evict_cmp = None
    zero = False
    ok = (
        len(r) == 5
        and isinstance(r[0], ast.If)
        and u(r[0].test) == "transport.proc.poll() is not None"  # the poll comes first, outside the lock
        and isinstance(r[1], ast.If)
        and u(r[1].test) == "stream_opened"
        and u(r[2]).startswith("evicted")
        and _is_with_lock(r[3])
        and isinstance(r[4], ast.If)
        and u(r[4].test) == "evicted is not None"
    )
    if ok:
        d0 = _strip_logs(r[0].body)  # type: ignore[attr-defined]
        d1 = _strip_logs(r[1].body)  # type: ignore[attr-defined]
        ok = (
            len(d0) == 3
            and _is_with_lock(d0[0])
            and [u(x) for x in d0[0].body] == ["self._active -= 1", "self._discards += 1"]  # type: ignore[attr-defined]
            and _closes_suppressed(d0[1], "transport")
            and u(d0[2]) == "return"
            and len(d1) == 3
            and _is_with_lock(d1[0])
            and [u(x) for x in d1[0].body] == ["self._active -= 1", "self._discards += 1"]  # type: ignore[attr-defined]
            and u(d1[1]) == "transport.close()"
            and u(d1[2]) == "return"
            and any(_closes_suppressed(x, "evicted") for x in _strip_logs(r[4].body))  # type: ignore[attr-defined]
        )
    if ok:
        cs = _strip_logs(r[3].body)  # type: ignore[attr-defined]
        ok = (
            len(cs) == 5
            and u(cs[0]) == "self._active -= 1"
            and isinstance(cs[1], ast.If)
            and u(cs[1].test) == "self._closed"  # read under the lock
            and [u(x) for x in cs[1].body] == ["self._discards += 1", "transport.close()", "return"]
            and u(cs[2]).startswith("key = ")
            and u(cs[3]) == "total_idle = sum((len(d) for d in self._idle.values()))"
        )
    tail: list[ast.stmt] = []
    if ok:
        last = cs[4]
        if isinstance(last, ast.If) and u(last.test) == "self._max_idle == 0":
            zb = _strip_logs(last.body)
            zero = [u(x) for x in zb] == ["self._evictions_max += 1", "evicted = transport"]
            tail = _strip_logs(last.orelse)
            ok = zero
        else:
            ok = False
    if not ok:
        # legacy layout (no `max_idle == 0` branch): the capacity test sits directly in the `with` body
        r3 = [s for s in r if _is_with_lock(s)]
        if r3:
            cs2 = _strip_logs(r3[-1].body)  # type: ignore[attr-defined]
            tail = cs2[-3:] if len(cs2) >= 3 else []
            zero = False
    if len(tail) == 4 and u(tail[3]) == "self._returns += 1":
        tail = tail[:3]
    tail_ok = (
        len(tail) == 3
        and isinstance(tail[0], ast.If)
        and [u(x) for x in tail[0].body] == ["evicted = self._evict_oldest_locked()"]
        and not tail[0].orelse
        and u(tail[1]) == "dq = self._idle.setdefault(key, deque())"
        and u(tail[2]) == "dq.append(_IdleEntry(key=key, transport=transport, returned_at=time.monotonic()))"  # the right end
    )
    if tail and isinstance(tail[0], ast.If):
        evict_cmp = _cmp(tail[0].test, "total_idle", "self._max_idle", "_return_worker capacity test")
    if evict_cmp is None:
        for n in ast.walk(f["_return_worker"]):
            if isinstance(n, ast.If) and u(n.test).startswith("total_idle"):
                evict_cmp = _cmp(n.test, "total_idle", "self._max_idle", "_return_worker capacity test")
    if evict_cmp is None:
        raise ValueError("_return_worker: `if total_idle <cmp> self._max_idle` not found")
    out["evictCmp"] = evict_cmp
    out["zeroDiscards"] = bool(zero)
    out["shapeReturn"] = bool(ok and tail_ok)

    # ---------------------------------------------------------------- _evict_oldest_locked
    e = _strip_logs(_body(f["_evict_oldest_locked"]))
    older = None
    for n in ast.walk(f["_evict_oldest_locked"]):
        if isinstance(n, ast.If) and isinstance(n.test, ast.BoolOp) and isinstance(n.test.op, ast.And) and len(n.test.values) == 2:
            if u(n.test.values[0]) == "dq" and "returned_at" in u(n.test.values[1]):
                older = _cmp(n.test.values[1], "dq[0].returned_at", "oldest_time", "_evict_oldest_locked comparison")  # the left end
    if older is None:
        raise ValueError("_evict_oldest_locked: `if dq and dq[0].returned_at <cmp> oldest_time` not found")
    out["olderCmp"] = older
    ok = (
        len(e) == 5
        and u(e[0]).startswith("oldest_key")
        and u(e[1]) == "oldest_time = float('inf')"
        and isinstance(e[2], ast.For)
        and u(e[2].target) == "(key, dq)"
        and u(e[2].iter) == "self._idle.items()"  # dict order
        and len(e[2].body) == 1
        and isinstance(e[2].body[0], ast.If)
        and [u(x) for x in e[2].body[0].body] == ["oldest_time = dq[0].returned_at", "oldest_key = key"]
        and isinstance(e[3], ast.If)
        and u(e[3].test) == "oldest_key is not None"
        and u(e[4]) == "return None"
    )
    if ok:
        hb = _strip_logs(e[3].body)  # type: ignore[attr-defined]
        ok = (
            [u(x) for x in hb[:2]] == ["dq = self._idle[oldest_key]", "entry = dq.popleft()"]
            and isinstance(hb[2], ast.If)
            and u(hb[2].test) == "not dq"
            and [u(x) for x in hb[2].body] == ["del self._idle[oldest_key]"]
            and u(hb[-1]) == "return entry.transport"
        )
    out["shapeEvict"] = bool(ok)

    # ---------------------------------------------------------------- _reap_expired
    p = _strip_logs(_body(f["_reap_expired"]))
    reap_cmp = None
    for n in ast.walk(f["_reap_expired"]):
        if isinstance(n, ast.While) and isinstance(n.test, ast.BoolOp) and len(n.test.values) == 2 and u(n.test.values[0]) == "dq":
            reap_cmp = _cmp(n.test.values[1], "now - dq[0].returned_at", "self._idle_timeout", "_reap_expired expiry test")
    if reap_cmp is None:
        raise ValueError("_reap_expired: `while dq and (now - dq[0].returned_at) <cmp> self._idle_timeout` not found")
    out["reapCmp"] = reap_cmp
    ok = (
        len(p) == 4
        and u(p[0]) == "now = time.monotonic()"  # the clock is read before the lock is taken
        and u(p[1]).startswith("expired")
        and _is_with_lock(p[2])
        and isinstance(p[3], ast.For)
        and u(p[3].iter) == "expired"
        and any(_closes_suppressed(x, "transport") for x in _strip_logs(p[3].body))
    )
    if ok:
        lp = p[2].body  # type: ignore[attr-defined]
        ok = len(lp) == 1 and isinstance(lp[0], ast.For) and u(lp[0].iter) == "list(self._idle.keys())"
    if ok:
        fb = lp[0].body
        ok = (
            len(fb) == 3
            and u(fb[0]) == "dq = self._idle[key]"
            and isinstance(fb[1], ast.While)
            and [u(x) for x in fb[1].body] == ["entry = dq.popleft()", "expired.append(entry.transport)", "self._evictions_idle += 1"]
            and isinstance(fb[2], ast.If)
            and u(fb[2].test) == "not dq"
            and [u(x) for x in fb[2].body] == ["del self._idle[key]"]
        )
    out["shapeReap"] = bool(ok)

    # ---------------------------------------------------------------- close / connect
    c = _strip_logs(_body(f["close"]))
    idx = {u(s): i for i, s in enumerate(c)}
    wl = [i for i, s in enumerate(c) if _is_with_lock(s)]
    ok = (
        len(c) >= 6
        and isinstance(c[0], ast.If)
        and u(c[0].test) == "self._closed"
        and [u(x) for x in c[0].body] == ["return"]
        and u(c[1]) == "self._closed = True"  # written without the lock, before it is taken
        and len(wl) == 1
        and wl[0] > 1
        and "self._stop_event.set()" in idx
        and idx["self._stop_event.set()"] < wl[0]
    )
    if ok:
        wb = c[wl[0]].body  # type: ignore[attr-defined]
        ok = (
            u(wb[-1]) == "self._idle.clear()"
            and any(isinstance(x, ast.For) and u(x.iter) == "self._idle.values()" for x in wb)
            and isinstance(c[-1], ast.For)
            and u(c[-1].iter) == "all_idle"
            and any(_closes_suppressed(x, "transport") for x in c[-1].body)
        )
    cn = _strip_logs(_body(f["connect"]))
    ok = ok and isinstance(cn[0], ast.If) and u(cn[0].test) == "self._closed" and isinstance(cn[0].body[0], ast.Raise)
    out["shapeClose"] = bool(ok)

    # ---------------------------------------------------------------- locking discipline
    locks = [n for n in ast.walk(f["__init__"]) if isinstance(n, ast.Assign) and u(n.value) in ("threading.Lock()", "threading.RLock()")]
    one_lock = len(locks) == 1 and u(locks[0].targets[0]) == "self._lock" and u(locks[0].value) == "threading.Lock()"

    def unlocked_idle(fn: ast.FunctionDef) -> bool:
        """Is there an access to `self._idle` outside every `with self._lock:` of this function?"""
        found = False

        def walk(node: ast.AST, locked: bool) -> None:
            nonlocal found
            if isinstance(node, ast.Attribute) and u(node) == "self._idle" and not locked:
                found = True
            for ch in ast.iter_child_nodes(node):
                walk(ch, locked or (isinstance(node, ast.With) and _is_with_lock(node) and ch in node.body))

        walk(fn, False)
        return found

    def evict_calls_locked(fn: ast.FunctionDef) -> bool:
        bad = False

        def walk(node: ast.AST, locked: bool) -> None:
            nonlocal bad
            if isinstance(node, ast.Call) and u(node.func) == "self._evict_oldest_locked" and not locked:
                bad = True
            for ch in ast.iter_child_nodes(node):
                walk(ch, locked or (isinstance(node, ast.With) and _is_with_lock(node) and ch in node.body))

        walk(fn, False)
        return not bad

    discipline = all(
        not unlocked_idle(fn) for name, fn in f.items() if name not in ("__init__", "_evict_oldest_locked")
    ) and all(evict_calls_locked(fn) for fn in f.values())
    out["shapeLocking"] = bool(one_lock and discipline)

    # ---------------------------------------------------------------- _PooledTransport
    pt = _cls(tree, "_PooledTransport")
    pf = _fns(pt)
    cl = _strip_logs(_body(pf["close"]))
    rule = None
    for s in cl:
        if isinstance(s, ast.Assign) and u(s.targets[0]) == "stream_abandoned":
            rule = u(s.value)
    if rule is None:
        raise ValueError("_PooledTransport.close: `stream_abandoned = …` not found")
    last_alias = any(u(s) == "last = self._last_stream_session" for s in cl)
    rule_intr = False
    for pre in ("self._interrupted or ",):
        if rule.startswith(pre):
            rule_intr = True
            rule = rule[len(pre):]
            if rule.startswith("(") and rule.endswith(")"):
                rule = rule[1:-1]
    if rule in RULE_FIXED and last_alias:
        rule_drained, rule_leak = True, True
    elif rule in RULE_LEGACY:
        rule_drained, rule_leak = False, False
    else:
        raise ValueError(f"_PooledTransport.close: unknown abandoned-stream rule `{rule}`")
    # the leak flag is set by the `writer` property (fetched once per call, to send the request): a request sent while
    # the last session is not drained
    wprop = next(
        (n for n in pt.body if isinstance(n, ast.FunctionDef) and n.name == "writer"
         and any(u(d) == "property" for d in n.decorator_list)),
        None,
    )
    setter_ok = False
    if wprop is not None:
        sb = _strip_logs(_body(wprop))
        setter_ok = (
            len(sb) == 3
            and u(sb[0]) == "last = self._last_stream_session"
            and isinstance(sb[1], ast.If)
            and u(sb[1].test) in ("last is not None and (not last._drained)", "last is not None and not last._drained")
            and [u(x) for x in sb[1].body] == ["self._stream_leaked = True"]
            and not sb[1].orelse
            and u(sb[2]) == "return self._inner.writer"
        )
        leaks = [n for n in ast.walk(pt) if isinstance(n, ast.Assign) and u(n.targets[0]) == "self._stream_leaked"]
        setter_ok = setter_ok and sorted(u(n.value) for n in leaks) == ["False", "True"]  # never reset after __init__
    out["ruleDrained"] = rule_drained
    out["trackLeak"] = bool(rule_leak and setter_ok)
    # `_interrupted`: in the rule, set (only) by connect() when the block is left by a non-Exception BaseException
    intr_writes = [(fn.name, u(n.value)) for cls_ in (pt, wp) for fn in _fns(cls_).values() for n in ast.walk(fn)
                   if isinstance(n, ast.Assign) and u(n.targets[0]).endswith("._interrupted")]
    conn_ok = False
    for n in ast.walk(f["connect"]):
        if isinstance(n, ast.Try) and [u(x) for x in n.body] == ["yield proxy"] and len(n.handlers) == 1:
            h = n.handlers[0]
            hb = _strip_logs(h.body)
            conn_ok = (
                u(h.type) == "BaseException"
                and len(hb) == 2
                and isinstance(hb[0], ast.If)
                and u(hb[0].test) == "not isinstance(exc, Exception)"
                and [u(x) for x in hb[0].body] == ["pooled._interrupted = True"]
                and u(hb[1]) == "raise"
            )
    out["trackInterrupt"] = bool(rule_intr and conn_ok and sorted(intr_writes) == [("__init__", "False"), ("connect", "True")])
    ok = (
        len(cl) >= 4
        and isinstance(cl[0], ast.If)
        and u(cl[0].test) == "self._returned"
        and [u(x) for x in cl[0].body] == ["return"]
        and u(cl[1]) == "self._returned = True"
        and isinstance(cl[-1], ast.Try)
        and [u(x) for x in cl[-1].body] == ["self._pool._return_worker(self._inner, stream_abandoned)"]
    )
    out["shapePooled"] = bool(ok)
    out["fp_pool"] = _fingerprint(f["_borrow"], f["_return_worker"], f["_evict_oldest_locked"], f["_reap_expired"], f["close"], pt)
    return out


def analyse_client(text: str) -> dict:
    tree = ast.parse(text)
    ss = _cls(tree, "StreamSession")
    sf = _fns(ss)
    # `_drained` becomes True only when the drain reached the EOS marker.  Two accepted layouts of the same semantics:
    #  (A) `_drain_output` returns a literal `True` from its `except StopIteration` handler only; `_drained` is assigned
    #      `False` (constructor) and `self._drain_output()` (close / cancel), nowhere else;
    #  (B) `_drain_output` keeps a local `reached_eos` (`False`, set `True` only in the `except StopIteration` handler),
    #      returns `False` (no reader) or `reached_eos`, and — when on_log raised during the drain and the drain went on
    #      without it — stores `self._drained = reached_eos` itself before re-raising the callback's exception.
    def _targets(n: ast.AST) -> list[str]:
        if isinstance(n, ast.Assign):
            return [u(t) for t in n.targets]
        if isinstance(n, (ast.AugAssign, ast.AnnAssign)):
            return [u(n.target)]
        return []

    writes = sorted((fn.name, u(getattr(n, "value", None)), type(n).__name__) for fn in sf.values() for n in ast.walk(fn)
                    if "self._drained" in _targets(n))
    base_writes = [("__init__", "False", "Assign"), ("cancel", "self._drain_output()", "Assign"),
                   ("close", "self._drain_output()", "Assign")]
    dr = sf.get("_drain_output")
    drained_ok = False
    if dr is not None:
        rets = [u(x.value) for x in ast.walk(dr) if isinstance(x, ast.Return)]
        handler_of: dict[int, str] = {}
        for n in ast.walk(dr):
            if isinstance(n, ast.ExceptHandler):
                for x in ast.walk(n):
                    handler_of[id(x)] = u(n.type)
        true_rets = [handler_of.get(id(x)) for x in ast.walk(dr) if isinstance(x, ast.Return) and u(x.value) == "True"]
        eos = [(u(getattr(n, "value", None)), type(n).__name__, handler_of.get(id(n)))
               for n in ast.walk(dr) if "reached_eos" in _targets(n)]
        layout_a = writes == base_writes and true_rets == ["StopIteration"] and set(rets) <= {"True", "False"}
        layout_b = (
            writes == sorted(base_writes + [("_drain_output", "reached_eos", "Assign")])
            and not true_rets
            and set(rets) == {"False", "reached_eos"}
            and sorted(eos, key=str) == sorted([("False", "Assign", None), ("True", "Assign", "StopIteration")], key=str)
        )
        drained_ok = bool(layout_a or layout_b)
    # the stream caller: request sent -> `_stream_opened = True` immediately; `_last_stream_session` after the session exists
    px = _cls(tree, "_RpcProxy")
    mk = _fns(px).get("_make_stream_caller")
    order_ok = False
    if mk is not None:
        caller = next((n for n in mk.body if isinstance(n, ast.FunctionDef) and n.name == "caller"), None)
        if caller is not None:
            tr = next((n for n in caller.body if isinstance(n, ast.Try)), None)
            if tr is not None:
                tb = _strip_logs(tr.body)
                srcs = [u(x) for x in tb]
                i_send = next((i for i, x in enumerate(srcs) if x.startswith("_send_request(transport.writer")), None)
                if i_send is not None and i_send + 1 < len(tb):
                    nxt = tb[i_send + 1]
                    opened = (
                        isinstance(nxt, ast.If)
                        and u(nxt.test) == "hasattr(transport, '_stream_opened')"
                        and [u(x) for x in nxt.body] == ["object.__setattr__(transport, '_stream_opened', True)"]
                    )
                    i_sess = next((i for i, x in enumerate(srcs) if x.startswith("session = StreamSession(")), None)
                    tracked = (
                        i_sess is not None
                        and i_sess + 1 < len(tb)
                        and isinstance(tb[i_sess + 1], ast.If)
                        and u(tb[i_sess + 1].test) == "hasattr(transport, '_last_stream_session')"  # type: ignore[attr-defined]
                        and [u(x) for x in tb[i_sess + 1].body]  # type: ignore[attr-defined]
                        == ["object.__setattr__(transport, '_last_stream_session', session)"]
                    )
                    order_ok = bool(opened and tracked and i_sess is not None and i_send < i_sess)
    # every call fetches `transport.writer` / `.reader` when it is MADE (the pool's leak detection hangs on the `writer`
    # property): both caller factories keep the transport object, the inner `caller` sends with `transport.writer`, and no
    # reader/writer is captured when the (cached) caller is built
    def per_call_fetch(factory: ast.FunctionDef | None, reads: bool) -> bool:
        if factory is None:
            return False
        inner = next((n for n in factory.body if isinstance(n, ast.FunctionDef) and n.name == "caller"), None)
        if inner is None or not any(u(x) == "transport = self._transport" for x in factory.body):
            return False
        outside = [x for x in factory.body if x is not inner]
        captured = any(isinstance(n, ast.Attribute) and n.attr in ("writer", "reader") for x in outside for n in ast.walk(x))
        sends = [n for n in ast.walk(inner) if isinstance(n, ast.Call) and u(n.func) == "_send_request"]
        sends_ok = len(sends) == 1 and bool(sends[0].args) and u(sends[0].args[0]) == "transport.writer"
        streams = {u(n) for n in ast.walk(inner) if isinstance(n, ast.Attribute) and n.attr in ("writer", "reader")}
        reads_ok = (not reads) or any(
            isinstance(n, ast.Call) and u(n.func) == "ipc.open_stream" and [u(a) for a in n.args] == ["transport.reader"]
            for n in ast.walk(inner)
        )
        return bool(not captured and sends_ok and reads_ok and streams <= {"transport.writer", "transport.reader"})

    fetch_ok = per_call_fetch(_fns(px).get("_make_unary_caller"), True) and per_call_fetch(mk, False)
    # RpcConnection.__exit__ closes the transport (that is what returns the worker)
    rc = _cls(tree, "RpcConnection")
    ex = _fns(rc).get("__exit__")
    exit_ok = ex is not None and u(_strip_logs(_body(ex))[-1]) == "self._transport.close()"
    nodes = [sf[k] for k in ("close", "cancel", "_drain_output", "exchange", "tick") if k in sf]
    return {"shapeClient": bool(drained_ok and order_ok and exit_ok and fetch_ok), "fp_client": _fingerprint(*nodes, *( [mk] if mk is not None else []))}


def analyse_wire(text: str) -> dict:
    """`_read_unary_response`: whatever the client does with a reply, the reply is read to its EOS marker first.

    * reading the result batch: `except RpcError` drains then re-raises; `except Exception` (on_log raised, an external
      fetch failed …) drains (suppressed) then re-raises;
    * once the batch is there, `_drain_stream(reader)` is the FIRST statement of what follows — before the value is
      extracted, validated or deserialised, all of which can raise on the client."""
    tree = ast.parse(text)
    fn = next((n for n in tree.body if isinstance(n, ast.FunctionDef) and n.name == "_read_unary_response"), None)
    if fn is None:
        raise ValueError("_read_unary_response not found")
    b = _strip_logs(_body(fn))
    ok = len(b) == 2 and isinstance(b[0], ast.Try) and isinstance(b[1], ast.Try)
    if ok:
        t1, t2 = b
        assert isinstance(t1, ast.Try) and isinstance(t2, ast.Try)
        hs = {u(h.type): h for h in t1.handlers}
        ok = (
            len(t1.body) == 1
            and u(t1.body[0]).startswith("batch = _read_batch_with_log_check(reader")
            and set(hs) == {"RpcError", "Exception"}
            and [u(x) for x in hs["RpcError"].body] == ["_drain_stream(reader)", "raise"]
            and len(hs["Exception"].body) == 2
            and isinstance(hs["Exception"].body[0], ast.With)
            and "suppress" in u(hs["Exception"].body[0].items[0].context_expr)
            and [u(x) for x in hs["Exception"].body[0].body] == ["_drain_stream(reader)"]
            and u(hs["Exception"].body[1]) == "raise"
            and not t1.orelse
            and not t1.finalbody
        )
        body2 = _strip_logs(t2.body)
        drains = [n for n in ast.walk(t2) if isinstance(n, ast.Call) and u(n.func) == "_drain_stream"]
        ok = ok and bool(body2) and u(body2[0]) == "_drain_stream(reader)" and len(drains) == 1 and not t2.handlers
    dfn = next((n for n in tree.body if isinstance(n, ast.FunctionDef) and n.name == "_drain_stream"), None)
    ok = ok and dfn is not None and any(
        isinstance(n, ast.ExceptHandler) and u(n.type) == "StopIteration" and any(isinstance(x, ast.Return) for x in n.body)
        for n in ast.walk(dfn)
    )
    return {"shapeWire": bool(ok), "fp_wire": _fingerprint(fn)}


def _b(x: bool) -> str:
    return "true" if x else "false"


def emit() -> dict[str, str]:
    a = analyse_pool((REPO / SRC_POOL).read_text())
    c = analyse_client((REPO / SRC_CLIENT).read_text())
    w = analyse_wire((REPO / SRC_WIRE).read_text())
    c["shapeClient"] = bool(c["shapeClient"] and w["shapeWire"])
    fp = hashlib.sha256((a["fp_pool"] + c["fp_client"] + w["fp_wire"]).encode()).hexdigest()[:16]
    body = f"""/-
Extracted from {SRC_POOL} (WorkerPool, _PooledTransport) and {SRC_CLIENT} (StreamSession, the stream caller).
-/
namespace VgiVerif.Gen.Pool

/-- a Python comparison operator as it appears in the source -/
inductive Cmp where
  | lt | le | gt | ge | eq | ne
deriving Repr, DecidableEq

/-- `_return_worker`: `if total_idle <cmp> self._max_idle: evicted = self._evict_oldest_locked()` -/
def evictCmp : Cmp := .{a["evictCmp"]}

/-- `_reap_expired`: `while dq and (now - dq[0].returned_at) <cmp> self._idle_timeout: dq.popleft()` -/
def reapCmp : Cmp := .{a["reapCmp"]}

/-- `_evict_oldest_locked`: `if dq and dq[0].returned_at <cmp> oldest_time` -/
def olderCmp : Cmp := .{a["olderCmp"]}

/-- `_return_worker` has the branch `if self._max_idle == 0: self._evictions_max += 1; evicted = transport` in front of the
capacity test (nothing is appended on it) -/
def zeroDiscards : Bool := {_b(a["zeroDiscards"])}

/-- the abandoned-stream rule of `_PooledTransport.close` is
`[self._interrupted or] self._stream_opened and (self._stream_leaked or last is None or not last._drained)` (and not the
rule over `_closed`) -/
def ruleDrained : Bool := {_b(a["ruleDrained"])}

/-- … it includes `_stream_leaked`, which the `writer` property (fetched by the client proxy once per call, to send the
request) sets — and nothing resets — when the last session is not drained -/
def trackLeak : Bool := {_b(a["trackLeak"])}

/-- the rule starts with `self._interrupted or …`, and `connect()` sets `_interrupted` (only) when the `with` block is left
by a `BaseException` that is not an `Exception` -/
def trackInterrupt : Bool := {_b(a["trackInterrupt"])}

/-- `_borrow`: one `with self._lock:` doing `_borrows += 1; _active += 1; dq = self._idle.get(key); if dq: entry = dq.pop();
if not dq: del …; health check `proc.poll() is not None` → discard and fall through | else `return transport``; then the
spawn outside the lock (`OSError` → `_active -= 1` under the lock, re-raise), `_spawns += 1` under the lock -/
def shapeBorrow : Bool := {_b(a["shapeBorrow"])}

/-- `_return_worker`: poll first (outside the lock) → discard; `stream_opened` → discard; then ONE `with self._lock:`
doing `_active -= 1; if self._closed: …close, return`; the capacity handling; `setdefault(key, deque()).append(…
returned_at=time.monotonic())`; the evicted transport is closed after the lock is released -/
def shapeReturn : Bool := {_b(a["shapeReturn"])}

/-- `_evict_oldest_locked`: scan `self._idle.items()` in dict order from `oldest_time = float('inf')`, then
`popleft()` of the chosen deque and `del` of an emptied key -/
def shapeEvict : Bool := {_b(a["shapeEvict"])}

/-- `_reap_expired`: `now = time.monotonic()` before the lock; under it, per key in dict order, `popleft()` while expired,
`del` of an emptied key; the expired transports are closed after the lock is released -/
def shapeReap : Bool := {_b(a["shapeReap"])}

/-- `close`: `if self._closed: return; self._closed = True` without the lock, the reaper is stopped, then ONE
`with self._lock:` that takes every idle transport and clears the dict; they are closed outside; `connect` tests
`self._closed` (unlocked) first -/
def shapeClose : Bool := {_b(a["shapeClose"])}

/-- exactly one `threading.Lock()`; every access to `self._idle` outside `__init__` is inside a `with self._lock:` block,
and `_evict_oldest_locked` is only called from inside one -/
def shapeLocking : Bool := {_b(a["shapeLocking"])}

/-- `_PooledTransport.close` is idempotent through `_returned` and ends with
`self._pool._return_worker(self._inner, stream_abandoned)` -/
def shapePooled : Bool := {_b(a["shapePooled"])}

/-- client side: both (cached) caller factories keep the transport and send each request with `transport.writer` fetched
at call time — nothing is captured when the caller is built; the stream caller sets `_stream_opened` right after `_send_request` and `_last_stream_session` once the
session exists; `StreamSession._drained` becomes `True` only when a drain reached the EOS marker: it is assigned `False`
(constructor), the result of `_drain_output()` (in `close` / `cancel`) and, inside `_drain_output`, its local `reached_eos`
before the exception of an `on_log` callback is re-raised; `_drain_output` yields `True` only through its
`except StopIteration` handler; `RpcConnection.__exit__` closes the transport; and (`rpc/_wire.py`)
`_read_unary_response` reads every unary reply to its EOS marker before anything client-side can fail on it: both handlers
around the read of the result batch drain, and `_drain_stream(reader)` is the first statement once the batch is there —
before the value is extracted, validated or deserialised -/
def shapeClient : Bool := {_b(c["shapeClient"])}

/-- normalised-AST fingerprint of the modelled functions (drift indicator only) -/
def fingerprint : String := "{fp}"

end VgiVerif.Gen.Pool
"""
    return {"Pool.lean": body}
