"""C35: the claim-redaction regex, the placeholder, and the *shape* of redact_claims / apply_claim_redaction /
the claims branch of _emit_access_log.

Emits ``Gen/C35.lean``:
  * ``alts``          every alternative of ``_DEFAULT_CLAIM_REDACT_RE`` as (start-anchored, per-character classes, ``$``-anchored);
                      the per-character class is the *exact* set of code points the running ``re`` engine treats as equal to the
                      literal under the pattern's flags (full scan of all code points, so ``K``/``ſ`` are found, not assumed);
  * ``keyTest``       the regex entry point applied to a key (``search``);
  * ``placeholder``   ``REDACTED``;
  * ``recurseMap`` / ``recurseSeq``   whether a non-sensitive value that is a Mapping / a list-or-tuple is walked;
  * ``failClosed``    ``apply_claim_redaction`` returns ``{}`` from an ``except Exception`` around the redactor call;
  * ``emitGuarded``   ``_emit_access_log`` only stores ``apply_claim_redaction(auth.claims)`` and only when truthy.
Anything outside the recognised shapes raises (extraction fails loudly).
"""

from __future__ import annotations

import ast
import functools
import os
import re
import sys
from pathlib import Path

from .regex_to_lean import Unsupported, anchored_literal_alternatives, lean_str

REPO = Path(os.environ.get("VERIF_REPO", "/repo"))
PROPS = ["C35"]


@functools.lru_cache(maxsize=None)
def _all_chars() -> str:
    return "".join(chr(cp) for cp in range(sys.maxunicode + 1) if not 0xD800 <= cp <= 0xDFFF)


@functools.lru_cache(maxsize=None)
def engine_equiv(ch: str, flags: int) -> tuple[int, ...]:
    """Every code point the engine matches against the literal ``ch`` under ``flags`` (one C-level scan)."""
    rx = re.compile(re.escape(ch), flags)
    return tuple(sorted({ord(m) for m in rx.findall(_all_chars())}))


def _find_func(tree: ast.Module, name: str) -> ast.FunctionDef:
    for n in tree.body:
        if isinstance(n, ast.FunctionDef) and n.name == name:
            return n
    raise Unsupported(f"function {name} not found")


def _strip_doc(body: list[ast.stmt]) -> list[ast.stmt]:
    if body and isinstance(body[0], ast.Expr) and isinstance(body[0].value, ast.Constant) and isinstance(body[0].value.value, str):
        return body[1:]
    return body


def _dictcomp_shape(node: ast.expr, regex_name: str, placeholder_name: str) -> tuple[str, str | None]:
    """``{k: (REDACTED if RE.<kind>(k) else <else>) for k, v in X.items()}`` -> (kind, callee of else or None when it is ``v``)."""
    if not isinstance(node, ast.DictComp) or len(node.generators) != 1:
        raise Unsupported("redaction is not a single dict comprehension")
    g = node.generators[0]
    if g.ifs or not (isinstance(g.target, ast.Tuple) and [type(e) for e in g.target.elts] == [ast.Name, ast.Name]):
        raise Unsupported("comprehension target")
    kname, vname = (e.id for e in g.target.elts)  # type: ignore[attr-defined]
    it = g.iter
    if not (isinstance(it, ast.Call) and isinstance(it.func, ast.Attribute) and it.func.attr == "items" and not it.args):
        raise Unsupported("comprehension does not iterate .items()")
    if not (isinstance(node.key, ast.Name) and node.key.id == kname):
        raise Unsupported("keys are not kept verbatim")
    val = node.value
    if not isinstance(val, ast.IfExp):
        raise Unsupported("value is not a conditional")
    if not (isinstance(val.body, ast.Name) and val.body.id == placeholder_name):
        raise Unsupported("sensitive branch is not the placeholder")
    t = val.test
    if not (
        isinstance(t, ast.Call)
        and isinstance(t.func, ast.Attribute)
        and isinstance(t.func.value, ast.Name)
        and t.func.value.id == regex_name
        and len(t.args) == 1
        and isinstance(t.args[0], ast.Name)
        and t.args[0].id == kname
    ):
        raise Unsupported("sensitivity test is not RE.<fn>(key)")
    kind = t.func.attr
    e = val.orelse
    if isinstance(e, ast.Name) and e.id == vname:
        return kind, None
    if isinstance(e, ast.Call) and isinstance(e.func, ast.Name) and len(e.args) == 1 and isinstance(e.args[0], ast.Name) and e.args[0].id == vname:
        return kind, e.func.id
    raise Unsupported("non-sensitive branch is neither the value nor f(value)")


def _isinstance_of(test: ast.expr, var: str) -> set[str] | None:
    if isinstance(test, ast.Call) and isinstance(test.func, ast.Name) and test.func.id == "isinstance" and len(test.args) == 2:
        if isinstance(test.args[0], ast.Name) and test.args[0].id == var:
            c = test.args[1]
            if isinstance(c, ast.Name):
                return {c.id}
            if isinstance(c, ast.Tuple) and all(isinstance(x, ast.Name) for x in c.elts):
                return {x.id for x in c.elts}  # type: ignore[attr-defined]
    return None


def _value_walker_shape(fn: ast.FunctionDef, mapping_fn: str) -> tuple[bool, bool]:
    """Recognise ``if isinstance(v, Mapping): return M(v)`` / ``if isinstance(v, (list, tuple)): return [F(i) for i in v]`` / ``return v``."""
    var = fn.args.args[0].arg
    rec_map = rec_seq = False
    body = _strip_doc(fn.body)
    if not body or not (isinstance(body[-1], ast.Return) and isinstance(body[-1].value, ast.Name) and body[-1].value.id == var):
        raise Unsupported("value walker does not end with `return value`")
    for st in body[:-1]:
        if not (isinstance(st, ast.If) and not st.orelse and len(st.body) == 1 and isinstance(st.body[0], ast.Return)):
            raise Unsupported("value walker statement")
        classes = _isinstance_of(st.test, var)
        ret = st.body[0].value
        if classes is not None and classes and classes <= {"Mapping", "dict"}:
            if not (isinstance(ret, ast.Call) and isinstance(ret.func, ast.Name) and ret.func.id == mapping_fn
                    and len(ret.args) == 1 and isinstance(ret.args[0], ast.Name) and ret.args[0].id == var):
                raise Unsupported("mapping branch")
            rec_map = True
        elif classes == {"list", "tuple"}:
            ok = (
                isinstance(ret, ast.ListComp)
                and len(ret.generators) == 1
                and not ret.generators[0].ifs
                and isinstance(ret.generators[0].iter, ast.Name)
                and ret.generators[0].iter.id == var
                and isinstance(ret.elt, ast.Call)
                and isinstance(ret.elt.func, ast.Name)
                and ret.elt.func.id == fn.name
                and len(ret.elt.args) == 1
                and isinstance(ret.elt.args[0], ast.Name)
                and isinstance(ret.generators[0].target, ast.Name)
                and ret.elt.args[0].id == ret.generators[0].target.id
            )
            if not ok:
                raise Unsupported("sequence branch")
            rec_seq = True
        else:
            raise Unsupported(f"value walker isinstance classes {classes}")
    return rec_map, rec_seq


def _redact_shape(tree: ast.Module) -> tuple[str, bool, bool]:
    fn = _find_func(tree, "redact_claims")
    body = _strip_doc(fn.body)
    if len(body) != 1 or not isinstance(body[0], ast.Return) or body[0].value is None:
        raise Unsupported("redact_claims body")
    ret = body[0].value
    arg = fn.args.args[0].arg
    mapping_fn_name = "redact_claims"
    comp: ast.expr = ret
    if isinstance(ret, ast.Call) and isinstance(ret.func, ast.Name) and len(ret.args) == 1 and isinstance(ret.args[0], ast.Name) and ret.args[0].id == arg:
        mapping_fn_name = ret.func.id
        mfn = _find_func(tree, mapping_fn_name)
        mbody = _strip_doc(mfn.body)
        if len(mbody) != 1 or not isinstance(mbody[0], ast.Return) or mbody[0].value is None:
            raise Unsupported("mapping redactor body")
        comp = mbody[0].value
    kind, callee = _dictcomp_shape(comp, "_DEFAULT_CLAIM_REDACT_RE", "REDACTED")
    if callee is None:
        return kind, False, False
    rec_map, rec_seq = _value_walker_shape(_find_func(tree, callee), mapping_fn_name)
    return kind, rec_map, rec_seq


def _fail_closed(tree: ast.Module) -> bool:
    """``try: return _claim_redactor(claims)`` / ``except Exception: …; return {}``."""
    fn = _find_func(tree, "apply_claim_redaction")
    body = _strip_doc(fn.body)
    if len(body) != 1 or not isinstance(body[0], ast.Try):
        return False
    tr = body[0]
    if tr.orelse or tr.finalbody or len(tr.handlers) != 1:
        return False
    h = tr.handlers[0]
    if not (isinstance(h.type, ast.Name) and h.type.id in ("Exception", "BaseException")):
        return False
    ok_try = (
        len(tr.body) == 1
        and isinstance(tr.body[0], ast.Return)
        and isinstance(tr.body[0].value, ast.Call)
        and isinstance(tr.body[0].value.func, ast.Name)
        and tr.body[0].value.func.id == "_claim_redactor"
        and [ast.unparse(a) for a in tr.body[0].value.args] == [fn.args.args[0].arg]
    )
    last = h.body[-1]
    ok_exc = isinstance(last, ast.Return) and isinstance(last.value, ast.Dict) and not last.value.keys
    # nothing in the handler may mention the claims (they must not be logged on the failure path)
    mentions = any(isinstance(n, ast.Name) and n.id == fn.args.args[0].arg for st in h.body for n in ast.walk(st))
    return bool(ok_try and ok_exc and not mentions)


def _emit_guarded(tree: ast.Module) -> bool:
    """In _emit_access_log: the only store to extra["claims"] is ``redacted`` = apply_claim_redaction(auth.claims), under ``if redacted``."""
    fn = _find_func(tree, "_emit_access_log")
    stores = []
    for n in ast.walk(fn):
        if isinstance(n, ast.Assign) and len(n.targets) == 1:
            t = n.targets[0]
            if isinstance(t, ast.Subscript) and isinstance(t.slice, ast.Constant) and t.slice.value == "claims":
                stores.append(n)
    if len(stores) != 1 or not isinstance(stores[0].value, ast.Name):
        return False
    var = stores[0].value.id
    for n in ast.walk(fn):
        if isinstance(n, ast.If) and ast.unparse(n.test) == "auth.claims":
            src = [ast.unparse(s) for s in n.body if not isinstance(s, (ast.ImportFrom, ast.Import))]
            want = [f"{var} = apply_claim_redaction(auth.claims)", f"if {var}:\n    extra['claims'] = {var}"]
            if src == want:
                # and no other use of auth.claims anywhere else in the function
                uses = [m for m in ast.walk(fn) if isinstance(m, ast.Attribute) and m.attr == "claims"]
                return len(uses) == 2
    return False


def emit() -> dict[str, str]:
    sys.path.insert(0, str(REPO))
    import vgi_rpc.logging_utils as lu

    rx = lu._DEFAULT_CLAIM_REDACT_RE
    allowed = re.IGNORECASE | re.UNICODE
    if rx.flags & ~allowed:
        raise Unsupported(f"flags {rx.flags!r}")
    alts = anchored_literal_alternatives(rx.pattern, rx.flags)
    rows = []
    for s, lit, e in alts:
        classes = "[" + ", ".join("[" + ", ".join(str(c) for c in engine_equiv(ch, rx.flags)) + "]" for ch in lit) + "]"
        rows.append(
            f"  {{ startAnchored := {str(s).lower()}, text := {lean_str(lit)},\n    lit := {classes},\n    endAnchored := {str(e).lower()} }}"
        )
    ltree = ast.parse((REPO / "vgi_rpc/logging_utils.py").read_text())
    kind, rec_map, rec_seq = _redact_shape(ltree)
    fail_closed = _fail_closed(ltree)
    emit_guarded = _emit_guarded(ast.parse((REPO / "vgi_rpc/rpc/_server.py").read_text()))
    body = f"""namespace VgiVerif.Gen.C35

/-- one alternative of `vgi_rpc.logging_utils._DEFAULT_CLAIM_REDACT_RE` (flags {int(rx.flags)}): a literal, optionally `^`/`$` anchored.
`lit` = for each character of the literal, every code point the `re` engine of this interpreter treats as equal to it. -/
structure Alt where
  startAnchored : Bool
  text : List Char
  lit : List (List Nat)
  endAnchored : Bool
deriving Repr, DecidableEq

def alts : List Alt := [
{",\n".join(rows)}
]

/-- regex entry point applied to a claim name: `_DEFAULT_CLAIM_REDACT_RE.<keyTest>(k)` -/
def keyTest : String := "{kind}"

/-- `vgi_rpc.logging_utils.REDACTED` -/
def placeholder : List Char := {lean_str(lu.REDACTED)}

/-- a non-sensitive value that is a `Mapping` is walked with the same rule -/
def recurseMap : Bool := {str(rec_map).lower()}

/-- a non-sensitive value that is a `list`/`tuple` is walked element by element -/
def recurseSeq : Bool := {str(rec_seq).lower()}

/-- `apply_claim_redaction`: `try: return _claim_redactor(claims)  except Exception: (log without the claims); return {{}}` -/
def failClosed : Bool := {str(fail_closed).lower()}

/-- `_emit_access_log`: `if auth.claims: r = apply_claim_redaction(auth.claims); if r: extra["claims"] = r` is the only use of the claims -/
def emitGuarded : Bool := {str(emit_guarded).lower()}

end VgiVerif.Gen.C35
"""
    return {"C35.lean": body}
