"""C36: the token-introspection endpoint — constants, the JWS-shape regex, and the *order and content of the guards*
of ``_TokenIntrospectionResource.on_post`` / ``_read_token`` / ``_refuse`` / ``_usable_ttl``, the disabled resource and
the factory wiring.  Emits ``Gen/C36.lean``.  The model interprets ``guards`` in order, so moving / removing / changing a
guard in the source changes the model (and re-checks the proofs).  Unrecognised statements fail loudly.
"""

from __future__ import annotations

import ast
import hashlib
import os
import sys
from http import HTTPStatus
from pathlib import Path

from .regex_to_lean import Unsupported, pattern_to_lean

REPO = Path(os.environ.get("VERIF_REPO", "/repo"))
PROPS = ["C36"]


def _cls(tree: ast.Module, name: str) -> ast.ClassDef:
    for n in tree.body:
        if isinstance(n, ast.ClassDef) and n.name == name:
            return n
    raise Unsupported(f"class {name} not found")


def _meth(c: ast.ClassDef | ast.Module, name: str) -> ast.FunctionDef:
    for n in c.body:
        if isinstance(n, ast.FunctionDef) and n.name == name:
            return n
    raise Unsupported(f"function {name} not found")


def _body(fn: ast.FunctionDef) -> list[ast.stmt]:
    b = fn.body
    if b and isinstance(b[0], ast.Expr) and isinstance(b[0].value, ast.Constant) and isinstance(b[0].value.value, str):
        b = b[1:]
    return b


def _u(n: ast.AST) -> str:
    return ast.unparse(n)


def _lean_string(s: str) -> str:
    return '"' + s.replace("\\", "\\\\").replace('"', '\\"') + '"'


def _refuse_call(stmts: list[ast.stmt]) -> tuple[int, str]:
    """The single ``self._refuse(resp, HTTPStatus.X, "err")`` among ``stmts`` (which must end in ``return``)."""
    if not stmts or not isinstance(stmts[-1], ast.Return) or stmts[-1].value is not None:
        raise Unsupported("refusal branch does not end with a bare return")
    found = []
    for st in stmts:
        for n in ast.walk(st):
            if isinstance(n, ast.Call) and _u(n.func) == "self._refuse":
                found.append(n)
    if len(found) != 1:
        raise Unsupported("refusal branch without exactly one self._refuse")
    c = found[0]
    if len(c.args) != 3 or _u(c.args[0]) != "resp":
        raise Unsupported("self._refuse args")
    st_node = c.args[1]
    if not (isinstance(st_node, ast.Attribute) and _u(st_node.value) == "HTTPStatus"):
        raise Unsupported("refusal status is not HTTPStatus.X")
    if not (isinstance(c.args[2], ast.Constant) and isinstance(c.args[2].value, str)):
        raise Unsupported("refusal error is not a string literal")
    return HTTPStatus[st_node.attr].value, c.args[2].value


def _is_log(st: ast.stmt) -> bool:
    return isinstance(st, ast.Expr) and isinstance(st.value, ast.Call) and _u(st.value.func).startswith("_logger.")


def _falcon_status(raise_node: ast.Raise) -> tuple[int, str]:
    import falcon

    exc = raise_node.exc
    if not (isinstance(exc, ast.Call) and isinstance(exc.func, ast.Attribute) and _u(exc.func.value) == "falcon"):
        raise Unsupported("raise is not falcon.HTTPxxx(...)")
    klass = getattr(falcon, exc.func.attr)
    status = int(str(klass().status).split()[0])
    return status, ", ".join(f"{k.arg}={_u(k.value)}" for k in exc.keywords)


def _guards(on_post: ast.FunctionDef) -> tuple[list[str], str, list[str], bool]:
    """-> (Lean guard terms, regex entry point of the JWS test, keys of the success body, token used only by guards)."""
    out: list[str] = []
    jws_kind = ""
    keys: list[str] = []
    stmts = _body(on_post)
    i = 0
    seen_respond = False
    while i < len(stmts):
        st = stmts[i]
        src = _u(st)
        nxt = stmts[i + 1] if i + 1 < len(stmts) else None
        if src == "auth, _metadata = _get_auth_and_metadata()" or src == "caller = auth.principal or ''" or _is_log(st):
            pass
        elif isinstance(st, ast.If) and _u(st.test) == "not auth.authenticated or caller not in self._principals" and not st.orelse:
            s, e = _refuse_call([x for x in st.body if not _is_log(x)])
            out.append(f".authz {s} {_lean_string(e)}")
        elif isinstance(st, ast.If) and _u(st.test) == "not self._limiter.allow(caller)" and not st.orelse:
            inner = [x for x in st.body if not _is_log(x)]
            hdr = [x for x in inner if _u(x).startswith("resp.set_header('Retry-After'")]
            if len(hdr) != 1:
                raise Unsupported("rate-limit branch without Retry-After")
            ra = hdr[0].value.args[1]  # type: ignore[attr-defined]
            if not (isinstance(ra, ast.Constant) and isinstance(ra.value, str)):
                raise Unsupported("Retry-After literal")
            s, e = _refuse_call([x for x in inner if x is not hdr[0]])
            out.append(f".rateLimit {s} {_lean_string(e)} {_lean_string(ra.value)}")
        elif src == "token = self._read_token(req)":
            if not (isinstance(nxt, ast.If) and _u(nxt.test) == "token is None" and not nxt.orelse):
                raise Unsupported("_read_token result is not checked for None immediately")
            s, e = _refuse_call([x for x in nxt.body if not _is_log(x)])
            out.append(f".readToken {s} {_lean_string(e)}")
            i += 1
        elif src == "digest = token_digest(token)":
            out.append(".digest")
        elif isinstance(st, ast.If) and not st.orelse and isinstance(st.test, ast.Call) and isinstance(st.test.func, ast.Attribute) \
                and _u(st.test.func.value) == "_JWS_SHAPED" and [_u(a) for a in st.test.args] == ["token"]:
            jws_kind = st.test.func.attr
            s, e = _refuse_call([x for x in st.body if not _is_log(x)])
            out.append(f".jwsShape {s} {_lean_string(e)}")
        elif isinstance(st, ast.Try):
            if [_u(x) for x in st.body] != ["identity = self._resolver(token)"] or st.orelse or st.finalbody or len(st.handlers) != 1:
                raise Unsupported("resolver try-block shape")
            h = st.handlers[0]
            if not (h.type is not None and _u(h.type) == "AuthUnavailableError" and h.name):
                raise Unsupported("resolver handler is not `except AuthUnavailableError as …`")
            rest = [x for x in h.body if not _is_log(x)]
            if len(rest) != 1 or not isinstance(rest[0], ast.Raise):
                raise Unsupported("resolver handler body")
            status, kw = _falcon_status(rest[0])
            if kw != f"description=str({h.name}), retry_after={h.name}.retry_after":
                raise Unsupported(f"503 arguments: {kw}")
            out.append(f".resolve {status}")
        elif isinstance(st, ast.If) and _u(st.test) == "identity is None" and not st.orelse:
            s, e = _refuse_call([x for x in st.body if not _is_log(x)])
            out.append(f".unresolved {s} {_lean_string(e)}")
        elif isinstance(st, ast.If) and _u(st.test) == "not _usable_ttl(identity.ttl_seconds)" and not st.orelse:
            rest = [x for x in st.body if not _is_log(x)]
            if len(rest) != 1 or not isinstance(rest[0], ast.Raise):
                raise Unsupported("ttl branch body")
            status, kw = _falcon_status(rest[0])
            # the description must be a constant (it must not carry the token or the identity)
            kws = {k.arg: k.value for k in rest[0].exc.keywords}  # type: ignore[union-attr]
            if set(kws) != {"description"} or not (isinstance(kws["description"], ast.Constant) and isinstance(kws["description"].value, str)):
                raise Unsupported("ttl failure description is not a constant")
            out.append(f".ttlCheck {status} {_lean_string(kws['description'].value)}")
        elif src == "resp.content_type = falcon.MEDIA_JSON" or src == "resp.set_header('Cache-Control', 'no-store')":
            seen_respond = True
        elif isinstance(st, ast.Assign) and _u(st.targets[0]) == "resp.data":
            seen_respond = True
            v = st.value
            ok = (isinstance(v, ast.Call) and _u(v.func).endswith(".encode") and isinstance(v.func, ast.Attribute)
                  and isinstance(v.func.value, ast.Call) and _u(v.func.value.func) == "json.dumps")
            if not ok:
                raise Unsupported("success body is not json.dumps(...).encode()")
            d = v.func.value.args[0]  # type: ignore[union-attr]
            seps = [k for k in v.func.value.keywords if k.arg == "separators"]  # type: ignore[union-attr]
            if not isinstance(d, ast.Dict) or len(seps) != 1 or _u(seps[0].value) != "(',', ':')":
                raise Unsupported("success body dict / separators")
            for k, val in zip(d.keys, d.values):
                if not (isinstance(k, ast.Constant) and isinstance(k.value, str) and _u(val) == f"identity.{k.value}"):
                    raise Unsupported(f"success body entry {_u(k) if k else '**'}: {_u(val)}")
                keys.append(k.value)
        else:
            raise Unsupported(f"unrecognised statement in on_post: {src[:80]}")
        i += 1
    if not seen_respond or not keys:
        raise Unsupported("success response not found")
    # every use of the local `token` is one of the guard uses (never formatted into a response or a log call)
    allowed = {"token = self._read_token(req)", "token is None", "token_digest(token)", "self._resolver(token)",
               f"_JWS_SHAPED.{jws_kind}(token)"}
    parents: dict[ast.AST, ast.AST] = {}
    for p in ast.walk(on_post):
        for c in ast.iter_child_nodes(p):
            parents[c] = p
    only = True
    for n in ast.walk(on_post):
        if isinstance(n, ast.Name) and n.id == "token":
            p = parents[n]
            if _u(p) not in allowed:
                only = False
    return out, jws_kind, keys, only


READ_EXPECT = [
    ("length", "length = req.content_length"),
    ("declared_length", "if length is not None and length > _MAX_BODY_BYTES:\n    return None"),
    ("read_bounded", "raw = req.bounded_stream.read(_MAX_BODY_BYTES + 1)"),
    ("read_length", "if len(raw) > _MAX_BODY_BYTES:\n    return None"),
    ("json", "try:\n    body = json.loads(raw)\nexcept (ValueError, UnicodeDecodeError):\n    return None"),
    ("dict", "if not isinstance(body, dict):\n    return None"),
    ("get_token", "token = body.get('token')"),
    ("str_nonempty_maxlen", "if not isinstance(token, str) or not token or len(token) > _MAX_TOKEN_CHARS:\n    return None"),
    ("encodable", "try:\n    token.encode('utf-8')\nexcept UnicodeEncodeError:\n    return None"),
    ("return", "return token"),
]


def _read_steps(fn: ast.FunctionDef) -> list[str]:
    known = {src: name for name, src in READ_EXPECT}
    out = []
    for st in _body(fn):
        src = _u(st)
        if src not in known:
            raise Unsupported(f"unrecognised statement in _read_token: {src[:80]}")
        out.append(known[src])
    return out


def _ttl_rules(tree: ast.Module) -> dict[str, str]:
    """``_usable_ttl``: per Python type, the rule applied.  Absent function -> everything accepted (pinned tree)."""
    try:
        fn = _meth(tree, "_usable_ttl")
    except Unsupported:
        return {"bool": "accept", "int": "accept", "float": "accept", "other": "accept"}
    var = fn.args.args[0].arg
    rules: dict[str, str] = {}
    for st in _body(fn):
        src = _u(st)
        if src == f"if isinstance({var}, bool):\n    return False":
            rules.setdefault("bool", "reject")
        elif src == f"if isinstance({var}, int):\n    return {var} > 0":
            rules.setdefault("int", "gt0")
            rules.setdefault("bool", "gt0")  # bool is an int: only reached first if the bool test is missing
        elif src == f"if isinstance({var}, float):\n    return math.isfinite({var}) and {var} > 0":
            rules.setdefault("float", "finite_gt0")
        elif src == "return False":
            for k in ("bool", "int", "float", "other"):
                rules.setdefault(k, "reject")
        else:
            raise Unsupported(f"unrecognised statement in _usable_ttl: {src[:80]}")
    if set(rules) != {"bool", "int", "float", "other"}:
        raise Unsupported("_usable_ttl does not decide every type")
    return rules


LIMITER_INIT = [
    "self._per_window = per_window",
    "self._window = window_seconds",
    "self._counts: dict[str, int] = {}",
    "self._window_start = 0.0",
    "self._lock = threading.Lock()",
]
LIMITER_ALLOW = [
    "current = time.monotonic() if now is None else now",
    "with self._lock:\n"
    "    if current - self._window_start >= self._window:\n"
    "        self._counts.clear()\n"
    "        self._window_start = current\n"
    "    count = self._counts.get(key, 0)\n"
    "    if count >= self._per_window:\n"
    "        return False\n"
    "    self._counts[key] = count + 1\n"
    "    return True",
]


def _limiter(tree: ast.Module, res: ast.ClassDef) -> tuple[bool, float]:
    """``_RateLimiter``: fixed window, whole-map reset when ``now - start >= window``, refuse at ``count >= per_window``;
    the resource builds it as ``_RateLimiter(rate_limit_per_second)`` (so the window is the default)."""
    lim = _cls(tree, "_RateLimiter")
    init = _meth(lim, "__init__")
    allow = _meth(lim, "allow")
    ok = [_u(s) for s in _body(init)] == LIMITER_INIT and [_u(s) for s in _body(allow)] == LIMITER_ALLOW
    args = init.args
    names = [a.arg for a in args.args]
    window = None
    if names == ["self", "per_window", "window_seconds"] and len(args.defaults) == 1 and isinstance(args.defaults[0], ast.Constant):
        window = float(args.defaults[0].value)
    built = any(_u(s) == "self._limiter = _RateLimiter(rate_limit_per_second)" for s in _body(_meth(res, "__init__")))
    if window is None:
        raise Unsupported("_RateLimiter.__init__ signature")
    return bool(ok and built), window


def _allowlist_shape(tree: ast.Module, ftree: ast.Module) -> tuple[str, str, bool, bool]:
    """``_normalise_principals``: ``allowed = frozenset(<elem> for p in principals or () [if <cond>])``, ``if not allowed: raise ValueError``,
    ``return allowed``  ->  (element transform, filter, raises-when-empty, the factory passes the result to the resource unchanged)."""
    fn = _meth(tree, "_normalise_principals")
    body = _body(fn)
    if len(body) != 3:
        raise Unsupported("_normalise_principals: statement count")
    a, chk, ret = body
    if not (isinstance(a, ast.Assign) and _u(a.targets[0]) == "allowed" and isinstance(a.value, ast.Call) and _u(a.value.func) == "frozenset"
            and len(a.value.args) == 1 and isinstance(a.value.args[0], ast.GeneratorExp)):
        raise Unsupported("_normalise_principals: allowed = frozenset(<generator>)")
    g = a.value.args[0]
    if len(g.generators) != 1 or _u(g.generators[0].iter) != "principals or ()" or not isinstance(g.generators[0].target, ast.Name):
        raise Unsupported("_normalise_principals: generator source")
    v = g.generators[0].target.id
    forms = {v: "identity", f"{v}.strip()": "strip"}
    if _u(g.elt) not in forms:
        raise Unsupported(f"_normalise_principals: element {_u(g.elt)}")
    elem = forms[_u(g.elt)]
    ifs = g.generators[0].ifs
    if not ifs:
        flt = "none"
    elif len(ifs) == 1 and _u(ifs[0]) in forms:
        flt = {"identity": "raw", "strip": "stripped"}[forms[_u(ifs[0])]]
    else:
        raise Unsupported("_normalise_principals: filter")
    raises = isinstance(chk, ast.If) and _u(chk.test) == "not allowed" and not chk.orelse and len(chk.body) == 1 \
        and isinstance(chk.body[0], ast.Raise) and _u(chk.body[0].exc).startswith("ValueError(")
    if _u(ret) != "return allowed":
        raise Unsupported("_normalise_principals: return")
    wired = False
    for n in ast.walk(ftree):
        if isinstance(n, ast.Assign) and _u(n.targets[0]) == "_introspect_principals" and _u(n.value) == "_normalise_principals(introspect_principals)":
            wired = True
    return elem, flt, bool(raises), wired


def _space_ranges() -> list[tuple[int, int]]:
    out: list[list[int]] = []
    for cp in range(sys.maxunicode + 1):
        if 0xD800 <= cp <= 0xDFFF:
            continue
        if chr(cp).isspace():
            if out and out[-1][1] == cp - 1:
                out[-1][1] = cp
            else:
                out.append([cp, cp])
    return [(a, b) for a, b in out]


def _fingerprint(*nodes: ast.AST) -> str:
    return hashlib.sha256("\n".join(ast.dump(n, annotate_fields=False) for n in nodes).encode()).hexdigest()[:16]


def emit() -> dict[str, str]:
    sys.path.insert(0, str(REPO))
    import vgi_rpc.http.server._introspect as mod

    tree = ast.parse((REPO / "vgi_rpc/http/server/_introspect.py").read_text())
    res = _cls(tree, "_TokenIntrospectionResource")
    on_post = _meth(res, "on_post")
    guards, jws_kind, keys, token_only = _guards(on_post)
    read_steps = _read_steps(_meth(res, "_read_token"))
    ttl = _ttl_rules(tree)

    refuse = [_u(s) for s in _body(_meth(res, "_refuse"))]
    refuse_ok = refuse == [
        "resp.status = status",
        "resp.content_type = falcon.MEDIA_JSON",
        "resp.data = json.dumps({'error': error}, separators=(',', ':')).encode()",
        "resp.set_header('Cache-Control', 'no-store')",
    ]

    dis = _meth(_cls(tree, "_IntrospectionDisabledResource"), "on_post")
    dis_src = [_u(s) for s in _body(dis)]
    import re as _re

    dis_ok = False
    dis_status, dis_error = 0, ""
    if len(dis_src) == 4:
        m1 = _re.fullmatch(r"resp\.status = HTTPStatus\.([A-Z_]+)", dis_src[0])
        m3 = _re.fullmatch(r"resp\.data = json\.dumps\(\{'error': '([a-z_]+)'\}, separators=\(',', ':'\)\)\.encode\(\)", dis_src[2])
        if m1 and m3 and dis_src[1] == "resp.content_type = falcon.MEDIA_JSON" and dis_src[3] == "resp.set_header('Cache-Control', 'no-store')":
            dis_ok = True
            dis_status, dis_error = HTTPStatus[m1.group(1)].value, m3.group(1)
    dis_uses_req = any(isinstance(n, ast.Name) and n.id == "req" for s in _body(dis) for n in ast.walk(s))

    ftree = ast.parse((REPO / "vgi_rpc/http/server/_factory.py").read_text())
    wiring = False
    for n in ast.walk(ftree):
        if isinstance(n, ast.Call) and _u(n.func) == "app.add_route" and n.args and "INTROSPECT_ENDPOINT" in _u(n.args[0]):
            wiring = (
                _u(n.args[0]) == "f'{prefix}{INTROSPECT_ENDPOINT}'"
                and _u(n.args[1]) == "_TokenIntrospectionResource(introspect_resolver, _introspect_principals, introspect_rate_limit) "
                                     "if introspect_resolver is not None else _IntrospectionDisabledResource()"
            )

    al_elem, al_filter, al_raises, al_wired = _allowlist_shape(tree, ftree)
    spaces = ", ".join(f"({a}, {b})" for a, b in _space_ranges())
    limiter_ok, window = _limiter(tree, res)
    ticks = window * 1024
    if ticks != int(ticks):
        raise Unsupported("limiter window is not a multiple of 1/1024 s")
    rx = mod._JWS_SHAPED
    pat = pattern_to_lean(rx.pattern, rx.flags)
    fp = _fingerprint(on_post, _meth(res, "_read_token"), _meth(res, "_refuse"), dis, _cls(tree, "_RateLimiter"), _meth(tree, "_normalise_principals"))
    nl = ",\n  "
    body = f"""import VgiVerif.Prelude.Regex
namespace VgiVerif.Gen.C36
open VgiVerif.Regex

/-- `_JWS_SHAPED` = {rx.pattern!r} (flags {int(rx.flags)}) -/
def jwsPattern : Pat :=
  {pat}

/-- entry point used by `on_post`: `_JWS_SHAPED.<jwsKind>(token)` -/
def jwsKind : String := "{jws_kind}"

def maxBodyBytes : Nat := {int(mod._MAX_BODY_BYTES)}
def maxTokenChars : Nat := {int(mod._MAX_TOKEN_CHARS)}

/-- one statement group of `_TokenIntrospectionResource.on_post`, in source order -/
inductive Guard where
  | authz (status : Nat) (error : String)          -- `if not auth.authenticated or caller not in self._principals: _refuse; return`
  | rateLimit (status : Nat) (error : String) (retryAfter : String)
  | readToken (status : Nat) (error : String)      -- `token = self._read_token(req)`; `if token is None: _refuse; return`
  | digest                                         -- `digest = token_digest(token)` (raises on an un-encodable str)
  | jwsShape (status : Nat) (error : String)       -- `if _JWS_SHAPED.<kind>(token): _refuse; return`
  | resolve (unavailableStatus : Nat)              -- `identity = self._resolver(token)`; AuthUnavailableError -> falcon error with description=str(exc), retry_after=exc.retry_after
  | unresolved (status : Nat) (error : String)     -- `if identity is None: _refuse; return`
  | ttlCheck (status : Nat) (description : String) -- `if not _usable_ttl(identity.ttl_seconds): raise falcon.HTTP…(description=<constant>)`
deriving Repr, DecidableEq

def guards : List Guard := [
  {nl.join(guards)}
]

/-- keys of the success body, each bound to `identity.<key>` -/
def successKeys : List String := [{", ".join(_lean_string(k) for k in keys)}]

/-- the local `token` is used by the guards only (never passed to a response, a header or a log call) -/
def tokenOnlyUsedByGuards : Bool := {str(token_only).lower()}

/-- `_refuse`: status as given, `{{"error": error}}` compact JSON, `Cache-Control: no-store` -/
def refuseShapeOk : Bool := {str(refuse_ok).lower()}

/-- statements of `_read_token`, in order -/
def readSteps : List String := [{", ".join(_lean_string(s) for s in read_steps)}]

/-- `_usable_ttl` per Python type of `ttl_seconds`: "accept" | "reject" | "gt0" | "finite_gt0" -/
def ttlRuleBool : String := "{ttl['bool']}"
def ttlRuleInt : String := "{ttl['int']}"
def ttlRuleFloat : String := "{ttl['float']}"
def ttlRuleOther : String := "{ttl['other']}"

/-- `_IntrospectionDisabledResource.on_post`: `resp.status = HTTPStatus.<S>`, `{{"error": "<e>"}}` compact JSON, no-store — and nothing else -/
def disabledShapeOk : Bool := {str(dis_ok).lower()}
def disabledStatus : Nat := {dis_status}
def disabledError : String := {_lean_string(dis_error)}
def disabledReadsRequest : Bool := {str(dis_uses_req).lower()}

/-- `make_wsgi_app`: the route holds the live resource iff `introspect_resolver is not None`, else the disabled one -/
def wiringOk : Bool := {str(wiring).lower()}

/-- `_RateLimiter` has the fixed-window shape the model transliterates (`now - start >= window` → clear all counts and restart the
window; `count >= per_window` → refuse; else count and allow), keyed by `caller`, built as `_RateLimiter(rate_limit_per_second)` -/
def limiterShapeOk : Bool := {str(limiter_ok).lower()}

/-- the limiter window in ticks of 1/1024 s (`window_seconds` default) -/
def limiterWindowTicks : Int := {int(ticks)}

/-- `_normalise_principals`: `frozenset(<allowElem>(p) for p in principals or () if <allowFilter>(p))`:
allowElem "identity" | "strip";  allowFilter "raw" (`if p`) | "stripped" (`if p.strip()`) | "none" -/
def allowElem : String := "{al_elem}"
def allowFilter : String := "{al_filter}"
/-- an allow-list that normalises to nothing raises `ValueError` at construction (no permissive default) -/
def allowEmptyRaises : Bool := {str(al_raises).lower()}
/-- `make_wsgi_app` hands `_normalise_principals(introspect_principals)` to the resource -/
def allowWired : Bool := {str(al_wired).lower()}
/-- code points for which `str.isspace()` holds in this interpreter (what `str.strip()` removes) -/
def spaceRanges : List (Nat × Nat) := [{spaces}]

/-- fingerprint of the modelled functions (a change shows up as drift and raises the search budget) -/
def sourceFingerprint : String := "{fp}"

end VgiVerif.Gen.C36
"""
    return {"C36.lean": body}
