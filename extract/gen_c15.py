"""C15: the (exception class -> HTTP status) tables of the HTTP dispatch shells, the 500 -> 200 + marker translation,
the content-type / method / route-kind checks, the middleware registration order and how each middleware refuses
a request (status + whether the body is written as an Arrow error stream or left to Falcon's error serializer).

Everything is read from the AST of the working tree; handler *types* are evaluated in the namespace of the module
they appear in and matched against probe exception classes with ``issubclass`` in handler order, exactly as Python
does, so any spelling of an ``except`` clause (tuple literal, module constant, star-unpacking) is followed.
"""

from __future__ import annotations

import ast
import importlib
import os
from http import HTTPStatus
from pathlib import Path
from typing import Any

REPO = Path(os.environ.get("VERIF_REPO", "/repo"))
PROPS = ["C15"]

SRV = "vgi_rpc/http/server"


class Shape(Exception):
    """The source no longer has the shape this extractor understands (fails loudly)."""


# --------------------------------------------------------------------------------------------- probes


def _probes() -> tuple[list[tuple[str, type]], list[tuple[str, type]]]:
    import pyarrow as pa

    from vgi_rpc.rpc import RpcError, VersionError
    from vgi_rpc.rpc._common import ProtocolVersionError
    from vgi_rpc.utils import IPCError

    parse = [
        ("arrowInvalid", pa.ArrowInvalid),
        ("osError", OSError),
        ("arrowNotImplemented", pa.ArrowNotImplementedError),
        ("arrowKeyError", pa.ArrowKeyError),
        ("arrowTypeError", pa.ArrowTypeError),
        ("arrowOther", pa.ArrowException),
        ("ipcError", IPCError),
        ("ipcErrorLate", IPCError),
        ("unicodeDecode", UnicodeDecodeError),
        ("stopIteration", StopIteration),
    ]
    val = [
        ("typeError", TypeError),
        ("rpcError", RpcError),
        ("versionError", VersionError),
        ("protocolVersionError", ProtocolVersionError),
    ]
    return parse, val


# --------------------------------------------------------------------------------------------- AST helpers


def _tree(rel: str) -> ast.Module:
    return ast.parse((REPO / rel).read_text())


def _func(tree: ast.AST, name: str) -> ast.FunctionDef:
    for n in ast.walk(tree):
        if isinstance(n, ast.FunctionDef) and n.name == name:
            return n
    raise Shape(f"function {name} not found")


def _class(tree: ast.AST, name: str) -> ast.ClassDef:
    for n in ast.walk(tree):
        if isinstance(n, ast.ClassDef) and n.name == name:
            return n
    raise Shape(f"class {name} not found")


def _calls(node: ast.AST, pred: Any) -> list[ast.Call]:
    return [n for n in ast.walk(node) if isinstance(n, ast.Call) and pred(n)]


def _callee(c: ast.Call) -> str:
    f = c.func
    if isinstance(f, ast.Name):
        return f.id
    if isinstance(f, ast.Attribute):
        return f.attr
    return ""


def _direct_contains(stmts: list[ast.stmt], pred: Any) -> bool:
    """A call satisfying pred occurs in stmts but not inside a nested Try *body* that has handlers."""
    for s in stmts:
        if isinstance(s, ast.Try) and s.handlers:
            continue  # guarded by its own handlers first
        for n in _walk_no_nested_try(s):
            if isinstance(n, ast.Call) and pred(n):
                return True
    return False


def _walk_no_nested_try(node: ast.AST) -> Any:
    yield node
    for ch in ast.iter_child_nodes(node):
        if isinstance(ch, ast.Try) and ch.handlers:
            # the nested try's own body is guarded by *its* handlers first; do not look inside
            continue
        yield from _walk_no_nested_try(ch)


def _innermost_try(fn: ast.AST, pred: Any) -> ast.Try:
    found = [t for t in ast.walk(fn) if isinstance(t, ast.Try) and t.handlers and _direct_contains(t.body, pred)]
    if len(found) != 1:
        raise Shape(f"expected exactly one guarded try around the call, found {len(found)}")
    return found[0]


def _status_names(node: ast.AST) -> list[str]:
    return [n.attr for n in ast.walk(node) if isinstance(n, ast.Attribute) and isinstance(n.value, ast.Name) and n.value.id == "HTTPStatus"]


def _one_status(node: ast.AST, what: str) -> int:
    names = sorted(set(_status_names(node)))
    if len(names) != 1:
        raise Shape(f"{what}: expected one HTTPStatus literal, found {names}")
    return int(HTTPStatus[names[0]].value)


def _raised_http_error_status(handler: ast.ExceptHandler, what: str) -> int:
    """`raise _RpcHttpError(exc, status_code=HTTPStatus.X)` (or `status_code=outcome.http_status` set just before)."""
    raises = [n for n in ast.walk(handler) if isinstance(n, ast.Raise) and isinstance(n.exc, ast.Call) and _callee(n.exc) == "_RpcHttpError"]
    if len(raises) != 1:
        raise Shape(f"{what}: handler does not raise exactly one _RpcHttpError")
    return _one_status(handler, what)


def _handler_table(mod: Any, t: ast.Try, probes: list[tuple[str, type]], what: str) -> dict[str, int | None]:
    """First matching handler per probe class -> status of the _RpcHttpError it raises; None = not caught."""
    hs: list[tuple[tuple[type, ...] | None, int]] = []
    for h in t.handlers:
        if h.type is None:
            classes = None
        else:
            v = eval(compile(ast.Expression(h.type), f"<{what}>", "eval"), vars(mod))  # noqa: S307 - source under test
            classes = tuple(v) if isinstance(v, tuple) else (v,)
        hs.append((classes, _raised_http_error_status(h, what)))
    out: dict[str, int | None] = {}
    for name, cls in probes:
        out[name] = None
        for classes, st in hs:
            if classes is None or issubclass(cls, classes):
                out[name] = st
                break
    return out


# --------------------------------------------------------------------------------------------- pieces


def _module(name: str) -> Any:
    """Import a module of the tree under test (the handler types are evaluated in its namespace)."""
    import sys

    if str(REPO) not in sys.path:
        sys.path.insert(0, str(REPO))
    mod = importlib.import_module(name)
    src = Path(mod.__file__ or "").resolve()
    if REPO.resolve() not in src.parents:
        raise Shape(f"{name} was imported from {src}, not from {REPO}: run with PYTHONPATH=$VERIF_REPO")
    return mod


def _read_tables() -> dict[str, dict[str, int | None]]:
    parse, val = _probes()
    un = _module("vgi_rpc.http.server._app_unary")
    st = _module("vgi_rpc.http.server._app_stream")
    tu = _tree(f"{SRV}/_app_unary.py")
    ts = _tree(f"{SRV}/_app_stream.py")
    is_read = lambda c: _callee(c) == "_read_request"  # noqa: E731
    is_open = lambda c: _callee(c) == "open_stream"  # noqa: E731
    t_un = _innermost_try(_func(tu, "_run_unary_sync"), is_read)
    t_in = _innermost_try(_func(ts, "_run_stream_init_sync"), is_read)
    t_ex = _innermost_try(_func(ts, "_run_stream_exchange_sync"), is_open)
    # validation calls must be guarded by the same try as the read (unary / init)
    for t, nm in ((t_un, "unary"), (t_in, "init")):
        for callee in ("_validate_call_signature", "_validate_params", "_check_protocol_version"):
            if not _direct_contains(t.body, lambda c, callee=callee: _callee(c) == callee):
                raise Shape(f"{nm}: {callee} is not guarded by the request-reading try")
    return {
        "unaryParse": _handler_table(un, t_un, parse, "unary"),
        "unaryVal": _handler_table(un, t_un, val, "unary"),
        "initParse": _handler_table(st, t_in, parse, "init"),
        "initVal": _handler_table(st, t_in, val, "init"),
        "exchangeParse": _handler_table(st, t_ex, parse, "exchange"),
    }


def _describe_shape() -> tuple[bool, bool]:
    """(`__describe__` answered before the request is read?, protocol-version gate exempts `__describe__`?)."""
    fn = _func(_tree(f"{SRV}/_app_unary.py"), "_run_unary_sync")
    read_try = _innermost_try(fn, lambda c: _callee(c) == "_read_request")
    branches = [n for n in ast.walk(fn) if isinstance(n, ast.If) and "describe_batch is not None" in ast.unparse(n.test)
                and "method_name == '__describe__'" in ast.unparse(n.test)]
    if len(branches) != 1:
        raise Shape(f"_run_unary_sync: expected one pre-built __describe__ branch, found {len(branches)}")
    br = branches[0]
    if not any(isinstance(n, ast.Return) for n in ast.walk(br)):
        raise Shape("_run_unary_sync: the __describe__ branch does not return")
    before = br.lineno < read_try.lineno
    inside = any(n is br for n in ast.walk(read_try))
    if inside:
        raise Shape("_run_unary_sync: the __describe__ branch sits inside the request-reading try")
    gates = [n for n in ast.walk(fn) if isinstance(n, ast.If) and any(isinstance(c, ast.Call) and _callee(c) == "_check_protocol_version" for c in ast.walk(n))
             and "_protocol_version_parts" in ast.unparse(n.test)]
    if len(gates) != 1:
        raise Shape("_run_unary_sync: protocol-version gate not found")
    exempt = "method_name != '__describe__'" in ast.unparse(gates[0].test)
    return before, exempt


def _upload_shape() -> tuple[bool, dict[str, int | None], dict[str, int | None], int]:
    parse, val = _probes()
    mod = _module("vgi_rpc.http.server._resources")
    fn = _func(_class(_tree(f"{SRV}/_resources.py"), "_UploadUrlResource"), "on_post")
    t = _innermost_try(fn, lambda c: _callee(c) == "_read_request")
    ct_calls = [n for n in ast.walk(fn) if isinstance(n, ast.Call) and _callee(n) == "_check_content_type"]
    checks_ct = len(ct_calls) == 1 and ct_calls[0].lineno < t.lineno
    if "ipc_method != _UPLOAD_URL_METHOD" not in ast.unparse(t):
        raise Shape("_UploadUrlResource: method check not inside the request-reading try")
    prov = _innermost_try(fn, lambda c: _callee(c) == "generate_upload_url")
    hs = [h for h in prov.handlers if h.type is not None and ast.unparse(h.type) == "Exception"]
    if len(hs) != 1:
        raise Shape("_UploadUrlResource: provider failure handler")
    return checks_ct, _handler_table(mod, t, parse, "upload"), _handler_table(mod, t, val, "upload"), _one_status(hs[0], "upload failure")


def _size_op(node: ast.AST, left: str, right: str, what: str) -> str:
    """Operator of the comparison(s) `<left> <op> <right>` in `node` (guards that refuse): gt | ge."""
    found = [c for c in ast.walk(node) if isinstance(c, ast.Compare) and len(c.ops) == 1
             and ast.unparse(c.left) == left and ast.unparse(c.comparators[0]) == right]
    if not found:
        raise Shape(f"{what}: no comparison `{left} <op> {right}`")
    ops = {{ast.Gt: "gt", ast.GtE: "ge"}.get(type(c.ops[0])) for c in found}
    if None in ops:
        raise Shape(f"{what}: unexpected operator in {[ast.unparse(c) for c in found]}")
    return "ge" if "ge" in ops else "gt"   # several guards on the same quantity: one `>=` is enough to refuse at the cap


def _size_ops() -> dict[str, str]:
    """The refusing comparisons of the request-size guards (wire size, decoded size per coding)."""
    mw = _func(_class(_tree(f"{SRV}/_middleware.py"), "_MaxRequestBytesMiddleware"), "process_request")
    codec = _tree("vgi_rpc/_codec.py")
    z = _func(codec, "_decompress_body_zstd")
    g = _func(codec, "_decompress_body_gzip")
    out = {
        "wire": _size_op(mw, "cl", "self._max_bytes", "size cap (Content-Length)"),
        "chunked": _size_op(mw, "len(body)", "self._max_bytes", "size cap (chunked)"),
        "zstdSized": _size_op(z, "declared", "max_output_size", "zstd declared size"),
        "zstdStream": _size_op(z, "total", "max_output_size", "zstd streaming"),
        "gzip": _size_op(g, "total", "max_output_size", "gzip streaming"),
    }
    # the refusals raise DecompressionLimitExceeded, which the middleware maps to the `encBomb` refusal
    for fn in (z, g):
        for c in [c for c in ast.walk(fn) if isinstance(c, ast.If) and "max_output_size" in ast.unparse(c.test) and any(isinstance(x, ast.Raise) for x in c.body)]:
            if "DecompressionLimitExceeded" not in ast.unparse(c.body[0]):
                raise Shape(f"{fn.name}: a size guard does not raise DecompressionLimitExceeded")
    # the compression middleware hands max_request_bytes down as the output cap
    comp = _func(_class(_tree(f"{SRV}/_middleware.py"), "_CompressionMiddleware"), "process_request")
    if "max_output_size=self._max_decompressed_bytes" not in ast.unparse(comp):
        raise Shape("compression middleware does not pass max_decompressed_bytes as the output cap")
    return out


def _deser_probes() -> list[tuple[str, type]]:
    import pyarrow as pa

    from vgi_rpc.utils import IPCError

    class _Other(Exception):
        pass

    return [("keyError", KeyError), ("valueError", ValueError), ("overflowError", OverflowError), ("typeError", TypeError),
            ("arrowInvalid", pa.ArrowInvalid), ("ipcError", IPCError), ("osError", OSError), ("stopIteration", StopIteration),
            ("other", _Other)]


def _deser_tables() -> dict[str, dict[str, int | None]]:
    """Effective status of an exception raised by `_deserialize_params` on the unary / init routes: the handler around
    that call re-raises what it catches as `TypeError` (looked up in the request-reading try); what it does not catch
    reaches the request-reading try as it is."""
    import builtins

    out: dict[str, dict[str, int | None]] = {}
    is_read = lambda c: _callee(c) == "_read_request"  # noqa: E731
    is_deser = lambda c: _callee(c) == "_deserialize_params"  # noqa: E731
    for key, modname, rel, fname in (("unaryDeser", "vgi_rpc.http.server._app_unary", f"{SRV}/_app_unary.py", "_run_unary_sync"),
                                     ("initDeser", "vgi_rpc.http.server._app_stream", f"{SRV}/_app_stream.py", "_run_stream_init_sync")):
        mod = _module(modname)
        fn = _func(_tree(rel), fname)
        outer = _innermost_try(fn, is_read)
        inner = _innermost_try(fn, is_deser)
        if inner is outer:
            inner_handlers: list[tuple[tuple[type, ...] | None, str]] = []
        else:
            if not any(n is inner for n in ast.walk(outer)):
                raise Shape(f"{fname}: the try around _deserialize_params is not inside the request-reading try")
            inner_handlers = []
            for h in inner.handlers:
                if h.type is None:
                    classes = None
                else:
                    v = eval(compile(ast.Expression(h.type), f"<{fname}>", "eval"), vars(mod))  # noqa: S307 - source under test
                    classes = tuple(v) if isinstance(v, tuple) else (v,)
                raises = [n for n in ast.walk(h) if isinstance(n, ast.Raise) and isinstance(n.exc, ast.Call)]
                if len(raises) != 1 or _callee(raises[0].exc) != "TypeError":
                    raise Shape(f"{fname}: handler around _deserialize_params does not re-raise as TypeError")
                inner_handlers.append((classes, "TypeError"))
        tbl: dict[str, int | None] = {}
        for name, cls in _deser_probes():
            eff: type = cls
            for classes, _to in inner_handlers:
                if classes is None or issubclass(cls, classes):
                    eff = builtins.TypeError
                    break
            tbl[name] = _handler_table(mod, outer, [("x", eff)], fname)["x"]
        out[key] = tbl
    return out


def _read_request_wraps() -> tuple[bool, bool, bool]:
    """Does `_read_request` re-raise (a) an IPCError of the first batch read, (b) any failure of the kwargs
    materialisation (`f.name`, `.as_py()`) as `RpcError`?  (Both are then caught as RpcError by the HTTP shells.)"""
    fn = _func(_tree("vgi_rpc/rpc/_wire.py"), "_read_request")

    def raises_rpc_error(h: ast.ExceptHandler) -> bool:
        return any(isinstance(n, ast.Raise) and isinstance(n.exc, ast.Call) and _callee(n.exc) == "RpcError" for n in ast.walk(h))

    batch = False
    kwargs = False
    empty = False
    for t in [t for t in ast.walk(fn) if isinstance(t, ast.Try) and t.handlers]:
        body_src = " ".join(ast.unparse(x) for x in t.body)
        for h in t.handlers:
            ty = ast.unparse(h.type) if h.type is not None else ""
            if "read_next_batch_with_custom_metadata" in body_src and ty == "IPCError" and raises_rpc_error(h):
                batch = True
            if "read_next_batch_with_custom_metadata" in body_src and ty == "StopIteration" and raises_rpc_error(h):
                empty = True
            if ".as_py()" in body_src and "f.name" in body_src and ty == "Exception" and raises_rpc_error(h):
                kwargs = True
    return batch, kwargs, empty


def _set_http_status() -> tuple[int, int, bool]:
    fn = _func(_tree(f"{SRV}/_responses.py"), "_set_http_status")
    ifs = [n for n in fn.body if isinstance(n, ast.If)]
    if len(ifs) != 1:
        raise Shape("_set_http_status: expected a single if")
    i = ifs[0]
    t = i.test
    if not (isinstance(t, ast.Compare) and len(t.ops) == 1 and isinstance(t.ops[0], ast.Eq) and ast.unparse(t.left) == "status_code"):
        raise Shape("_set_http_status: test is not `status_code == HTTPStatus.X`")
    translated = _one_status(t, "_set_http_status test")
    to = None
    marker = False
    for n in i.body:
        if isinstance(n, ast.Assign) and ast.unparse(n.targets[0]) == "resp.status" and isinstance(n.value, ast.Constant):
            to = int(n.value.value)
        if isinstance(n, ast.Expr) and isinstance(n.value, ast.Call) and _callee(n.value) == "set_header":
            a = n.value.args
            if ast.unparse(a[0]) == "RPC_ERROR_HEADER" and isinstance(a[1], ast.Constant) and a[1].value == "true":
                marker = True
    # else branch must pass the status through
    passthrough = len(i.orelse) == 1 and ast.unparse(i.orelse[0]) == "resp.status = str(status_code.value)"
    if to is None or not passthrough:
        raise Shape("_set_http_status: unexpected branches")
    return translated, to, marker


def _resolve_method() -> tuple[list[str], int, int, str]:
    fn = _func(_tree(f"{SRV}/_app.py"), "_resolve_method")
    order: list[str] = []
    nf = None
    for s in fn.body:
        if isinstance(s, ast.Expr) and isinstance(s.value, ast.Call) and _callee(s.value) == "_check_content_type":
            order.append("content_type")
        if isinstance(s, ast.If) and ast.unparse(s.test) == "info is None":
            order.append("method_lookup")
            nf = _one_status(s, "_resolve_method not-found")
    ct = _func(_tree(f"{SRV}/_responses.py"), "_check_content_type")
    ifs = [n for n in ct.body if isinstance(n, ast.If)]
    if len(ifs) != 1:
        raise Shape("_check_content_type: expected one guard")
    t = ifs[0].test
    op = None
    if isinstance(t, ast.Compare) and len(t.ops) == 1:
        if ast.unparse(t.comparators[0]) != "_ARROW_CONTENT_TYPE" or ast.unparse(t.left) != "content_type":
            raise Shape("_check_content_type: not compared with _ARROW_CONTENT_TYPE")
        op = {ast.NotEq: "ne", ast.Eq: "eq"}.get(type(t.ops[0]))
    elif (isinstance(t, ast.UnaryOp) and isinstance(t.op, ast.Not) and isinstance(t.operand, ast.Call)
          and ast.unparse(t.operand.func) == "content_type.startswith" and len(t.operand.args) == 1
          and ast.unparse(t.operand.args[0]) == "_ARROW_CONTENT_TYPE"):
        op = "notPrefix"   # a prefix test: media types that merely *begin* with the Arrow type are let through
    if op is None or nf is None:
        raise Shape("_check_content_type / _resolve_method: unexpected shape")
    return order, _one_status(ifs[0], "_check_content_type"), nf, op


def _resource_guard(cls_name: str) -> tuple[str, int, bool]:
    cls = _class(_tree(f"{SRV}/_resources.py"), cls_name)
    fn = _func(cls, "on_post")
    guards = [n for n in ast.walk(fn) if isinstance(n, ast.If) and "method_type" in ast.unparse(n.test)]
    if len(guards) != 1:
        raise Shape(f"{cls_name}: expected one method_type guard")
    t = guards[0].test
    if not (isinstance(t, ast.Compare) and len(t.ops) == 1 and ast.unparse(t.comparators[0]) == "MethodType.STREAM"
            and ast.unparse(t.left) == "info.method_type"):
        raise Shape(f"{cls_name}: guard is not `info.method_type <op> MethodType.STREAM`")
    op = {ast.NotEq: "ne", ast.Eq: "eq"}.get(type(t.ops[0]))
    if op is None:
        raise Shape(f"{cls_name}: guard operator")
    # the _RpcHttpError handler hands cause + status to _set_error_response
    ok = False
    for h in [h for t2 in ast.walk(fn) if isinstance(t2, ast.Try) for h in t2.handlers]:
        if h.type is not None and ast.unparse(h.type) == "_RpcHttpError":
            cs = _calls(h, lambda c: _callee(c) == "_set_error_response")
            ok = any(any(k.arg == "status_code" and ast.unparse(k.value) == "e.status_code" for k in c.keywords) for c in cs)
    # resolution happens before the guard
    src_order = [ast.unparse(n) for n in ast.walk(fn) if isinstance(n, ast.Call) and _callee(n) in ("_resolve_method",)]
    if not src_order:
        raise Shape(f"{cls_name}: _resolve_method not called")
    return op, _one_status(guards[0], f"{cls_name} guard"), ok


def _set_error_response_uses_status() -> bool:
    fn = _func(_tree(f"{SRV}/_responses.py"), "_set_error_response")
    return bool(_calls(fn, lambda c: _callee(c) == "_set_http_status")) and bool(
        _calls(fn, lambda c: _callee(c) == "_error_response_stream")
    )


def _middleware_order() -> list[str]:
    fn = _func(_tree(f"{SRV}/_factory.py"), "make_wsgi_app")
    names: list[tuple[int, int, str]] = []
    for n in ast.walk(fn):
        if isinstance(n, ast.AnnAssign) and ast.unparse(n.target) == "middleware" and isinstance(n.value, ast.List):
            for e in n.value.elts:
                if isinstance(e, ast.Call):
                    names.append((e.lineno, e.col_offset, _callee(e)))
        if isinstance(n, ast.Call) and ast.unparse(n.func) == "middleware.append" and n.args and isinstance(n.args[0], ast.Call):
            names.append((n.lineno, n.col_offset, _callee(n.args[0])))
    names.sort()
    # the list is handed to falcon.App unchanged
    if not _calls(fn, lambda c: ast.unparse(c.func) == "falcon.App" and any(k.arg == "middleware" and "middleware" in ast.unparse(k.value) for k in c.keywords)):
        raise Shape("make_wsgi_app: middleware list is not passed to falcon.App")
    return [n for _, _, n in names]


def _falcon_status(name: str) -> int:
    import falcon

    cls = getattr(falcon, name)
    return int(cls().status_code) if name != "HTTPUnauthorized" else 401


def _refusals(node: ast.AST, helpers: dict[str, ast.FunctionDef]) -> list[tuple[int, str]]:
    """Every way `node` refuses a request: (`raise falcon.HTTPxxx` -> falcon body) | (`_reject_request(.., HTTPStatus.X)` -> arrow)."""
    out: list[tuple[int, str]] = []
    for n in ast.walk(node):
        if isinstance(n, ast.Raise) and isinstance(n.exc, ast.Call) and ast.unparse(n.exc.func).startswith("falcon.HTTP"):
            out.append((_falcon_status(ast.unparse(n.exc.func).split(".")[1]), "falcon"))
        if isinstance(n, ast.Call) and _callee(n) == "_reject_request":
            out.append((_one_status(n, "_reject_request call"), "arrow"))
        if isinstance(n, ast.Call) and isinstance(n.func, ast.Attribute) and ast.unparse(n.func.value) == "self" and n.func.attr in helpers:
            out.extend(_refusals(helpers[n.func.attr], {}))
    return out


def _one(refs: list[tuple[int, str]], what: str) -> tuple[int, str]:
    s = sorted(set(refs))
    if len(s) != 1:
        raise Shape(f"{what}: expected one way of refusing, found {s}")
    return s[0]


def _middleware_shapes() -> dict[str, tuple[int, str]]:
    tm = _tree(f"{SRV}/_middleware.py")
    out: dict[str, tuple[int, str]] = {}
    # _reject_request itself: Arrow error stream + resp.complete
    try:
        rj = _func(tm, "_reject_request")
        arrow_ok = bool(_calls(rj, lambda c: _callee(c) == "_set_error_response")) and any(
            isinstance(n, ast.Assign) and ast.unparse(n.targets[0]) == "resp.complete" and ast.unparse(n.value) == "True" for n in ast.walk(rj)
        )
        if not arrow_ok:
            raise Shape("_reject_request does not write an Arrow error response and complete it")
    except Shape as e:
        if "not found" not in str(e):
            raise
    size = _class(tm, "_MaxRequestBytesMiddleware")
    helpers = {f.name: f for f in size.body if isinstance(f, ast.FunctionDef) and f.name != "process_request"}
    out["sizeCap"] = _one(_refusals(_func(size, "process_request"), helpers), "size cap")
    comp = _func(_class(tm, "_CompressionMiddleware"), "process_request")
    tries = [t for t in ast.walk(comp) if isinstance(t, ast.Try) and t.handlers]
    if len(tries) != 1:
        raise Shape("compression: expected one try")
    t = tries[0]
    outside: list[tuple[int, str]] = []
    for s in comp.body:
        if s is t:
            continue
        outside.extend(_refusals(s, {}))
    out["encUnsupported"] = _one(outside, "unsupported content-encoding")
    for h in t.handlers:
        ty = ast.unparse(h.type) if h.type is not None else ""
        if ty == "DecompressionLimitExceeded":
            out["encBomb"] = _one(_refusals(h, {}), "decompression limit")
        elif ty == "Exception":
            out["encCorrupt"] = _one(_refusals(h, {}), "decompression failure")
        else:
            raise Shape(f"compression: unexpected handler {ty}")
    if _refusals(ast.Module(body=t.body, type_ignores=[]), {}):
        raise Shape("compression: refusal inside the try body")
    auth = _func(_class(tm, "_AuthMiddleware"), "process_request")
    refs = []
    for t2 in [t2 for t2 in ast.walk(auth) if isinstance(t2, ast.Try)]:
        for h in t2.handlers:
            ty = ast.unparse(h.type) if h.type is not None else ""
            if ty == "(ValueError, PermissionError)":
                refs.extend(_refusals(h, {}))
    out["authReject"] = _one(refs, "auth rejection")
    return out


def _token_statuses() -> tuple[int, list[int]]:
    ts = _tree(f"{SRV}/_app_stream.py")
    ex = _func(ts, "_run_stream_exchange_sync")
    miss = [n for n in ast.walk(ex) if isinstance(n, ast.If) and ast.unparse(n.test) == "token is None"]
    if len(miss) != 1:
        raise Shape("exchange: `if token is None` not found")
    missing = _one_status(miss[0], "missing token")
    sts: set[int] = set()
    for fn in (_func(ts, "_unpack_and_recover_state"), _func(ts, "_resolve_call_from_token")):
        sts.update(int(HTTPStatus[s].value) for s in _status_names(fn))
    tok = _tree(f"{SRV}/_state_token.py")
    for n in ast.walk(tok):
        if isinstance(n, ast.Call) and _callee(n) == "_RpcHttpError":
            sts.update(int(HTTPStatus[s].value) for s in _status_names(n))
    return missing, sorted(sts)


def _coerce_table() -> dict[str, int | None]:
    import builtins

    ts = _tree(f"{SRV}/_app_stream.py")
    st = _module("vgi_rpc.http.server._app_stream")
    fn = _func(ts, "_run_http_exchange_turn")
    t = _innermost_try(fn, lambda c: _callee(c) == "_coerce_input_batch")
    return _handler_table(st, t, [("mismatch", builtins.TypeError), ("badNames", builtins.UnicodeDecodeError)], "coerce")


def _fail_statuses() -> dict[str, int]:
    tu = _tree(f"{SRV}/_app_unary.py")
    ts = _tree(f"{SRV}/_app_stream.py")
    out: dict[str, int] = {}

    def handler_for(fn: ast.AST, pred: Any, ty: str) -> ast.ExceptHandler:
        t = _innermost_try(fn, pred)
        hs = [h for h in t.handlers if h.type is not None and ast.unparse(h.type) == ty]
        if len(hs) != 1 or len(t.handlers) != 1:
            raise Shape(f"expected a single `except {ty}` handler")
        return hs[0]

    impl_call = lambda c: isinstance(c.func, ast.Call) and _callee(c.func) == "getattr" and "implementation" in ast.unparse(c.func)  # noqa: E731
    out["unaryFail"] = _one_status(handler_for(_func(tu, "_run_unary_sync"), impl_call, "Exception"), "unary failure")
    out["initFail"] = _one_status(handler_for(_func(ts, "_run_stream_init_sync"), impl_call, "Exception"), "init failure")
    proc = lambda c: ast.unparse(c.func) == "state.process"  # noqa: E731
    out["exchangeFail"] = _one_status(handler_for(_func(ts, "_run_http_exchange_turn"), proc, "Exception"), "exchange failure")
    out["producerFail"] = _one_status(handler_for(_func(ts, "_run_http_producer_turn"), proc, "Exception"), "producer failure")
    budget = lambda c: _callee(c) == "_enforce_response_budgets"  # noqa: E731
    out["unaryOvershoot"] = _one_status(handler_for(_func(tu, "_run_unary_sync"), budget, "RuntimeError"), "unary overshoot")
    out["exchangeOvershoot"] = _one_status(_func(ts, "_exchange_error_response"), "exchange overshoot")
    # the stream resources turn the contextvar into the status line through _set_http_status
    tr = _tree(f"{SRV}/_resources.py")
    for cls in ("_StreamInitResource", "_ExchangeResource"):
        fn = _func(_class(tr, cls), "on_post")
        if not _calls(fn, lambda c: _callee(c) == "_set_http_status" and "_current_response_status.get()" in ast.unparse(c)):
            raise Shape(f"{cls}: in-band status is not passed through _set_http_status")
    return out


# --------------------------------------------------------------------------------------------- emit


def _tbl(name: str, ty: str, d: dict[str, int | None]) -> str:
    arms = "\n".join(f"  | .{k} => {'none' if v is None else f'some {v}'}" for k, v in d.items())
    return f"def {name} : {ty} → Option Nat\n{arms}\n"


def _ref(v: tuple[int, str]) -> str:
    return f"⟨{v[0]}, .{v[1]}⟩"


def emit() -> dict[str, str]:
    parse, val = _probes()
    tables = _read_tables()
    translated, to, marker = _set_http_status()
    wraps_batch, wraps_kwargs, wraps_empty = _read_request_wraps()
    deser = _deser_tables()
    sops = _size_ops()
    describe_before, describe_exempt = _describe_shape()
    up_ct, up_parse, up_val, up_fail = _upload_shape()
    order, ct_status, nf_status, ct_op = _resolve_method()
    guards = {c: _resource_guard(c) for c in ("_RpcResource", "_StreamInitResource", "_ExchangeResource")}
    mw = _middleware_order()
    shapes = _middleware_shapes()
    missing, toks = _token_statuses()
    coerce = _coerce_table()
    fails = _fail_statuses()
    uses = _set_error_response_uses_status() and all(g[2] for g in guards.values())

    def strlist(xs: list[str]) -> str:
        return "[" + ", ".join(f'"{x}"' for x in xs) + "]"

    mw_enum = {"_MaxRequestBytesMiddleware": ".sizeCap", "_CompressionMiddleware": ".compression", "_AuthMiddleware": ".auth"}
    mw_terms = "[" + ", ".join(mw_enum.get(n, ".other") for n in mw) + "]"
    step_enum = {"content_type": ".contentType", "method_lookup": ".methodLookup"}
    order_terms = "[" + ", ".join(step_enum[x] for x in order) + "]"

    body = f"""import VgiVerif.Prelude.HttpReq
namespace VgiVerif.Gen.HttpStatus
open VgiVerif.HttpReq

/-! `except` tables: status of the `_RpcHttpError` raised by the first handler that catches the class;
    `none` = no handler catches it (the exception escapes to Falcon's generic 500). -/

/-- `_run_unary_sync`, the try around `_read_request` … `_validate_params` -/
{_tbl("unaryParse", "ParseExc", tables["unaryParse"])}
{_tbl("unaryVal", "ValExc", tables["unaryVal"])}
/-- `_run_stream_init_sync`, the try around `_read_request` … `_validate_params` -/
{_tbl("initParse", "ParseExc", tables["initParse"])}
{_tbl("initVal", "ValExc", tables["initVal"])}
/-- `_run_stream_exchange_sync`, the try around `ipc.open_stream` / `read_next_batch_with_custom_metadata` -/
{_tbl("exchangeParse", "ParseExc", tables["exchangeParse"])}
/-- exceptions of `_deserialize_params` (unary / init): status after the handler around the call and the reading try -/
{_tbl("unaryDeser", "DeserExc", deser["unaryDeser"])}
{_tbl("initDeser", "DeserExc", deser["initDeser"])}
/-- `_read_request`: the first batch's `IPCError` / a kwargs materialisation failure is re-raised as `RpcError` -/
def readWrapsBatchValidation : Bool := {str(wraps_batch).lower()}
def readWrapsKwargs : Bool := {str(wraps_kwargs).lower()}
def readWrapsEmptyStream : Bool := {str(wraps_empty).lower()}

/-- `_set_http_status`: `if status_code == HTTPStatus(translatedStatus): resp.status = translatedTo; set X-VGI-RPC-Error` -/
def translatedStatus : Nat := {translated}
def translatedTo : Nat := {to}
def translationSetsMarker : Bool := {str(marker).lower()}

/-- resources hand `e.status_code` to `_set_error_response`, which goes through `_set_http_status` -/
def errorsGoThroughSetStatus : Bool := {str(uses).lower()}

/-- `_resolve_method`: checks in source order -/
def resolveOrder : List ResolveStep := {order_terms}
def contentTypeStatus : Nat := {ct_status}
/-- comparison used by `_check_content_type` against the Arrow media type ("ne" = refuses when different) -/
def contentTypeOp : CmpOp := .{ct_op}
def unknownMethodStatus : Nat := {nf_status}

/-- `on_post` guards: operator of `info.method_type <op> MethodType.STREAM` that *refuses*, and the status -/
def unaryGuardOp : CmpOp := .{guards["_RpcResource"][0]}
def unaryGuardStatus : Nat := {guards["_RpcResource"][1]}
def initGuardOp : CmpOp := .{guards["_StreamInitResource"][0]}
def initGuardStatus : Nat := {guards["_StreamInitResource"][1]}
def exchangeGuardOp : CmpOp := .{guards["_ExchangeResource"][0]}
def exchangeGuardStatus : Nat := {guards["_ExchangeResource"][1]}

/-- refusing comparisons of the request-size guards: `cl <op> max`, `len(body) <op> max` (_MaxRequestBytesMiddleware);
    `declared <op> max_output_size`, `total <op> max_output_size` (vgi_rpc/_codec.py, zstd and gzip) -/
def wireSizeOp : SizeOp := .{sops["wire"]}
def chunkedSizeOp : SizeOp := .{sops["chunked"]}
def decodeSizeOp : Coding → SizeOp
  | .gzip => .{sops["gzip"]}
  | .zstdSized => .{sops["zstdSized"]}
  | .zstdStream => .{sops["zstdStream"]}

/-- `make_wsgi_app`: middleware classes in registration order (= `process_request` order):
    {", ".join(mw)} -/
def middlewareOrder : List Mw := {mw_terms}

/-- how each middleware refuses -/
def sizeCap : Refusal := {_ref(shapes["sizeCap"])}
def encUnsupported : Refusal := {_ref(shapes["encUnsupported"])}
def encBomb : Refusal := {_ref(shapes["encBomb"])}
def encCorrupt : Refusal := {_ref(shapes["encCorrupt"])}
def authReject : Refusal := {_ref(shapes["authReject"])}

/-- `/exchange`: missing state token; every `_RpcHttpError` status used while opening / resolving tokens -/
def missingTokenStatus : Nat := {missing}
def tokenStatuses : List Nat := {toks}
/-- the try guarding `_coerce_input_batch` in `_run_http_exchange_turn`: `TypeError` (mismatch), `UnicodeDecodeError` (names) -/
{_tbl("coerce", "ParamDefect", coerce)}
/-- `_run_unary_sync`: position of the pre-built `__describe__` branch relative to request reading; version-gate exemption -/
def describeBeforeRead : Bool := {str(describe_before).lower()}
def describeExemptFromVersionGate : Bool := {str(describe_exempt).lower()}

/-- `_UploadUrlResource.on_post` (POST …/__upload_url__/init) -/
def uploadChecksContentType : Bool := {str(up_ct).lower()}
{_tbl("uploadParse", "ParseExc", up_parse)}
{_tbl("uploadVal", "ValExc", up_val)}
def uploadFail : Nat := {up_fail}

/-- in-band failure statuses (before `_set_http_status`) -/
def unaryFail : Nat := {fails["unaryFail"]}
def initFail : Nat := {fails["initFail"]}
def exchangeFail : Nat := {fails["exchangeFail"]}
def producerFail : Nat := {fails["producerFail"]}
def unaryOvershoot : Nat := {fails["unaryOvershoot"]}
def exchangeOvershoot : Nat := {fails["exchangeOvershoot"]}

/-- the tables as one value (what `Model/C15` is instantiated with) -/
def tables : Tables where
  unaryParse := unaryParse
  unaryVal := unaryVal
  initParse := initParse
  initVal := initVal
  exchangeParse := exchangeParse
  unaryDeser := unaryDeser
  initDeser := initDeser
  readWrapsBatchValidation := readWrapsBatchValidation
  readWrapsKwargs := readWrapsKwargs
  readWrapsEmptyStream := readWrapsEmptyStream
  translatedStatus := translatedStatus
  translatedTo := translatedTo
  translationSetsMarker := translationSetsMarker
  resolveOrder := resolveOrder
  contentTypeStatus := contentTypeStatus
  contentTypeOp := contentTypeOp
  unknownMethodStatus := unknownMethodStatus
  unaryGuardOp := unaryGuardOp
  unaryGuardStatus := unaryGuardStatus
  initGuardOp := initGuardOp
  initGuardStatus := initGuardStatus
  exchangeGuardOp := exchangeGuardOp
  exchangeGuardStatus := exchangeGuardStatus
  wireSizeOp := wireSizeOp
  chunkedSizeOp := chunkedSizeOp
  decodeSizeOp := decodeSizeOp
  middlewareOrder := middlewareOrder
  sizeCap := sizeCap
  encUnsupported := encUnsupported
  encBomb := encBomb
  encCorrupt := encCorrupt
  authReject := authReject
  missingTokenStatus := missingTokenStatus
  tokenStatuses := tokenStatuses
  coerce := coerce
  describeBeforeRead := describeBeforeRead
  describeExemptFromVersionGate := describeExemptFromVersionGate
  uploadChecksContentType := uploadChecksContentType
  uploadParse := uploadParse
  uploadVal := uploadVal
  uploadFail := uploadFail
  unaryFail := unaryFail
  initFail := initFail
  exchangeFail := exchangeFail
  producerFail := producerFail
  unaryOvershoot := unaryOvershoot
  exchangeOvershoot := exchangeOvershoot

end VgiVerif.Gen.HttpStatus
"""
    return {"HttpStatus.lean": body}
