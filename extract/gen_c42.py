"""C42: tables and shape facts of the serve-start notification.

Sources
  vgi_rpc/rpc/_common.py            TransportKind (member order, values)
  vgi_rpc/rpc/_server.py            RpcServer.__init__ (lock, unbound initial state), `transport_kind` property,
                                    `_notify_transport` (critical section as a *program* of abstract operations),
                                    `serve` (transport class -> (kind, capabilities) table, notify before the serve loop)
  vgi_rpc/http/server/_middleware.py  _TransportNotifyMiddleware.process_request (unlocked fast path)
  vgi_rpc/http/server/_factory.py     the middleware is installed in make_wsgi_app

Emits `Gen/C42.lean`.  The model (`Model/C42.lean`) uses the extracted kind table / middleware arguments; the
obligation `C42_shape` demands that the extracted critical-section program is `test ; hook ; wrKind ; wrCaps` and
that every structural fact the model relies on holds, so a source edit (commit before the hook, a comparison
dropped, the lock removed, the fast path changed) breaks the proofs and sends the check into its deep search.
"""

from __future__ import annotations

import ast
import hashlib
import os
from pathlib import Path

REPO = Path(os.environ.get("VERIF_REPO", "/repo"))
PROPS = ["C42"]
SERVER = "vgi_rpc/rpc/_server.py"
COMMON = "vgi_rpc/rpc/_common.py"
MIDDLEWARE = "vgi_rpc/http/server/_middleware.py"
FACTORY = "vgi_rpc/http/server/_factory.py"

KIND_ATTR = "self._transport_kind"
CAPS_ATTR = "self._transport_capabilities"
LOCK_ATTR = "self._transport_lock"


def _body(fn: ast.FunctionDef) -> list[ast.stmt]:
    b = list(fn.body)
    if b and isinstance(b[0], ast.Expr) and isinstance(b[0].value, ast.Constant) and isinstance(b[0].value.value, str):
        b = b[1:]
    return b


def _cls(tree: ast.Module, name: str) -> ast.ClassDef:
    for n in tree.body:
        if isinstance(n, ast.ClassDef) and n.name == name:
            return n
    raise ValueError(f"class {name} not found")


def _fns(cls: ast.ClassDef) -> dict[str, ast.FunctionDef]:
    # for properties keep the getter (first definition)
    out: dict[str, ast.FunctionDef] = {}
    for n in cls.body:
        if isinstance(n, ast.FunctionDef) and n.name not in out:
            out[n.name] = n
    return out


def _targets(node: ast.AST) -> list[str]:
    """Unparsed assignment targets of one statement (Assign / AnnAssign / AugAssign), tuples flattened."""
    ts: list[ast.AST] = []
    if isinstance(node, ast.Assign):
        ts = list(node.targets)
    elif isinstance(node, (ast.AnnAssign, ast.AugAssign)):
        ts = [node.target]
    out = []
    for t in ts:
        if isinstance(t, (ast.Tuple, ast.List)):
            out.extend(ast.unparse(e) for e in t.elts)
        else:
            out.append(ast.unparse(t))
    return out


def _writes(node: ast.AST, attr: str) -> int:
    return sum(1 for n in ast.walk(node) for t in _targets(n) if t == attr)


def _fingerprint(*nodes: ast.AST) -> str:
    h = hashlib.sha256()
    for n in nodes:
        h.update(ast.dump(n, annotate_fields=False, include_attributes=False).encode())
    return h.hexdigest()[:16]


def kinds(text: str) -> list[tuple[str, str]]:
    cls = _cls(ast.parse(text), "TransportKind")
    out = []
    for st in cls.body:
        if isinstance(st, ast.Assign) and len(st.targets) == 1 and isinstance(st.targets[0], ast.Name):
            if isinstance(st.value, ast.Constant) and isinstance(st.value.value, str):
                out.append((st.targets[0].id, st.value.value))
    if not out:
        raise ValueError("TransportKind has no members")
    return out


def _caps_of(expr: ast.AST) -> list[str] | None:
    """`frozenset()` -> [], `frozenset({"a", …})` -> sorted names; anything else -> None."""
    if isinstance(expr, ast.Call) and ast.unparse(expr.func) == "frozenset" and not expr.keywords:
        if not expr.args:
            return []
        if len(expr.args) == 1 and isinstance(expr.args[0], (ast.Set, ast.List, ast.Tuple)):
            names = []
            for e in expr.args[0].elts:
                if not (isinstance(e, ast.Constant) and isinstance(e.value, str)):
                    return None
                names.append(e.value)
            return sorted(names)
    return None


def classify_cs(stmt: ast.stmt) -> str:
    """One statement of the critical section -> abstract operation name."""
    src = ast.unparse(stmt)
    has_hook_call = any(isinstance(n, ast.Call) and ast.unparse(n.func) == "hook" for n in ast.walk(stmt))
    wk, wc = _writes(stmt, KIND_ATTR), _writes(stmt, CAPS_ATTR)
    if isinstance(stmt, ast.If) and any(isinstance(n, ast.Return) for n in stmt.body) and not has_hook_call and not wk and not wc:
        return "test"
    if has_hook_call and not wk and not wc:
        return "hook"
    if isinstance(stmt, ast.Assign) and wk == 1 and wc == 0 and _targets(stmt) == [KIND_ATTR]:
        return "wrKind"
    if isinstance(stmt, ast.Assign) and wc == 1 and wk == 0 and _targets(stmt) == [CAPS_ATTR]:
        return "wrCaps"
    if src.startswith("hook = getattr("):
        return "lookup"
    return "other"


def analyse() -> dict:
    out: dict = {}
    ks = kinds((REPO / COMMON).read_text())
    out["kinds"] = ks
    member_index = {m: i for i, (m, _v) in enumerate(ks)}

    tree = ast.parse((REPO / SERVER).read_text())
    cls = _cls(tree, "RpcServer")
    fns = _fns(cls)
    for need in ("__init__", "_notify_transport", "serve", "transport_kind", "transport_capabilities"):
        if need not in fns:
            raise ValueError(f"RpcServer.{need} not found")
    init, notify, serve = fns["__init__"], fns["_notify_transport"], fns["serve"]

    # ---- __init__: one plain lock, unbound initial state
    lock_assigns = [ast.unparse(n.value) for n in ast.walk(cls) for t in _targets(n) if t == LOCK_ATTR and isinstance(n, ast.Assign)]
    out["lockIsPlainLock"] = lock_assigns == ["threading.Lock()"] and _writes(init, LOCK_ATTR) == 1
    init_kind = [ast.unparse(n.value) for n in ast.walk(init) if isinstance(n, (ast.Assign, ast.AnnAssign)) and KIND_ATTR in _targets(n) and n.value is not None]
    init_caps = [ast.unparse(n.value) for n in ast.walk(init) if isinstance(n, (ast.Assign, ast.AnnAssign)) and CAPS_ATTR in _targets(n) and n.value is not None]
    out["initUnbound"] = init_kind == ["None"] and init_caps == ["frozenset()"]

    # ---- the binding is written only by __init__ and _notify_transport
    writers = sorted(
        fn.name
        for fn in cls.body
        if isinstance(fn, ast.FunctionDef) and (_writes(fn, KIND_ATTR) or _writes(fn, CAPS_ATTR))
    )
    outside = sum(
        _writes(n, "_transport_kind") + _writes(n, "_transport_capabilities")
        for n in tree.body
        if n is not cls
    )
    foreign = [
        t
        for n in ast.walk(tree)
        for t in _targets(n)
        if (t.endswith("._transport_kind") or t.endswith("._transport_capabilities")) and not t.startswith("self.")
    ]
    out["onlyWriter"] = writers == ["__init__", "_notify_transport"] and outside == 0 and not foreign

    # ---- properties read the fields
    out["kindPropertyReadsField"] = (
        [ast.unparse(s) for s in _body(fns["transport_kind"])] == [f"return {KIND_ATTR}"]
        and [ast.unparse(s) for s in _body(fns["transport_capabilities"])] == [f"return {CAPS_ATTR}"]
        and any(ast.unparse(d) == "property" for d in fns["transport_kind"].decorator_list)
    )

    # ---- _notify_transport
    nb = _body(notify)
    args = [a.arg for a in notify.args.args]
    out["notifySignature"] = args == ["self", "kind", "capabilities"]
    whole = (
        len(nb) == 1
        and isinstance(nb[0], ast.With)
        and len(nb[0].items) == 1
        and ast.unparse(nb[0].items[0].context_expr) == LOCK_ATTR
        and nb[0].items[0].optional_vars is None
    )
    out["wholeBodyLocked"] = whole
    cs: list[ast.stmt] = list(nb[0].body) if whole else [s for s in nb]
    prog = [classify_cs(s) for s in cs]
    out["prog"] = [p for p in prog if p != "lookup"]
    # the test: `if kind_attr == kind and caps_attr == capabilities: return`
    test_ok = False
    for s in cs:
        if classify_cs(s) == "test" and isinstance(s, ast.If):
            t = s.test
            test_ok = (
                isinstance(t, ast.BoolOp)
                and isinstance(t.op, ast.And)
                and [ast.unparse(v) for v in t.values] == [f"{KIND_ATTR} == kind", f"{CAPS_ATTR} == capabilities"]
                and [ast.unparse(x) for x in s.body] == ["return"]
                and not s.orelse
            )
    out["testComparesBoth"] = test_ok
    # the hook: looked up on the implementation, called with the kind only, inside try/except Exception … raise
    lookup_ok = any(ast.unparse(s) == "hook = getattr(self._impl, 'on_serve_start', None)" for s in cs)
    hook_ok = reraise = False
    for s in cs:
        if classify_cs(s) == "hook" and isinstance(s, ast.If) and ast.unparse(s.test) == "callable(hook)" and not s.orelse:
            if len(s.body) == 1 and isinstance(s.body[0], ast.Try):
                tr = s.body[0]
                hook_ok = [ast.unparse(x) for x in tr.body] == ["hook(kind)"] and not tr.orelse and not tr.finalbody
                reraise = (
                    len(tr.handlers) == 1
                    and tr.handlers[0].type is not None
                    and ast.unparse(tr.handlers[0].type) == "Exception"
                    and isinstance(tr.handlers[0].body[-1], ast.Raise)
                    and tr.handlers[0].body[-1].exc is None
                    and not any(isinstance(n, (ast.Return, ast.Continue, ast.Break)) for n in ast.walk(tr.handlers[0]))
                )
    out["hookCalledWithKind"] = lookup_ok and hook_ok
    out["hookExcReraises"] = reraise
    commit_vals = {
        t: ast.unparse(s.value) for s in cs if isinstance(s, ast.Assign) for t in _targets(s) if t in (KIND_ATTR, CAPS_ATTR)
    }
    out["commitWritesArgs"] = commit_vals == {KIND_ATTR: "kind", CAPS_ATTR: "capabilities"}

    # ---- serve(): class -> (kind, caps) table, notify before the loop
    sb = _body(serve)
    table: list[tuple[str, str, list[str]]] = []
    notify_first = False
    default_caps: list[str] | None = None
    if len(sb) >= 3 and isinstance(sb[0], ast.AnnAssign) and ast.unparse(sb[0].target) == "capabilities" and sb[0].value is not None:
        default_caps = _caps_of(sb[0].value)
    chain = sb[1] if len(sb) >= 2 else None
    ok_chain = default_caps is not None
    while ok_chain and isinstance(chain, ast.If):
        t = chain.test
        if not (isinstance(t, ast.Call) and ast.unparse(t.func) == "isinstance" and len(t.args) == 2 and ast.unparse(t.args[0]) == "transport"):
            ok_chain = False
            break
        kind_member, caps = None, default_caps
        for st in chain.body:
            tg = _targets(st)
            if tg == ["kind"] and isinstance(st, ast.Assign) and ast.unparse(st.value).startswith("TransportKind."):
                kind_member = ast.unparse(st.value).split(".", 1)[1]
            elif tg == ["capabilities"] and isinstance(st, ast.Assign):
                caps = _caps_of(st.value)
            else:
                ok_chain = False
        if kind_member is None or caps is None or kind_member not in member_index:
            ok_chain = False
            break
        table.append((ast.unparse(t.args[1]), kind_member, caps))
        if len(chain.orelse) == 1 and isinstance(chain.orelse[0], ast.If):
            chain = chain.orelse[0]
        else:
            # final else
            kind_member = None
            for st in chain.orelse:
                if _targets(st) == ["kind"] and isinstance(st, ast.Assign) and ast.unparse(st.value).startswith("TransportKind."):
                    kind_member = ast.unparse(st.value).split(".", 1)[1]
                else:
                    ok_chain = False
            if kind_member is None or kind_member not in member_index:
                ok_chain = False
            else:
                table.append(("*", kind_member, default_caps or []))
            break
    if not ok_chain or not table:
        raise ValueError("serve(): transport-class -> kind chain not recognised")
    out["serveTable"] = table
    notify_first = (
        len(sb) >= 3
        and ast.unparse(sb[2]) == "self._notify_transport(kind, capabilities)"
        and sum(1 for n in ast.walk(serve) if isinstance(n, ast.Call) and ast.unparse(n.func) == "self._notify_transport") == 1
        and not any(isinstance(n, ast.Call) and ast.unparse(n.func) == "self.serve_one" for s in sb[:3] for n in ast.walk(s))
    )
    out["serveNotifiesFirst"] = notify_first
    caps_sets: list[list[str]] = [[]]
    for _c, _k, cp in table:
        if cp not in caps_sets:
            caps_sets.append(cp)
    out["capsTable"] = caps_sets

    # ---- middleware
    mtree = ast.parse((REPO / MIDDLEWARE).read_text())
    mw = _cls(mtree, "_TransportNotifyMiddleware")
    mfns = _fns(mw)
    if "process_request" not in mfns or "__init__" not in mfns:
        raise ValueError("_TransportNotifyMiddleware.process_request/__init__ not found")
    pb = _body(mfns["process_request"])
    mw_kind = None
    mw_caps: list[str] | None = None
    fast = False
    if len(pb) == 1 and isinstance(pb[0], ast.If) and not pb[0].orelse and len(pb[0].body) == 1:
        call = pb[0].body[0]
        if (
            ast.unparse(pb[0].test) == "self._server.transport_kind is None"
            and isinstance(call, ast.Expr)
            and isinstance(call.value, ast.Call)
            and ast.unparse(call.value.func) == "self._server._notify_transport"
            and len(call.value.args) == 2
            and not call.value.keywords
        ):
            a0 = ast.unparse(call.value.args[0])
            if a0.startswith("TransportKind.") and a0.split(".", 1)[1] in member_index:
                mw_kind = a0.split(".", 1)[1]
            mw_caps = _caps_of(call.value.args[1])
            fast = mw_kind is not None and mw_caps is not None
    if not fast:
        # keep the model's constants defined; the shape fact below is false and breaks C42_shape
        mw_kind, mw_caps = mw_kind or ks[0][0], mw_caps if mw_caps is not None else []
    out["mwFastPath"] = fast
    out["mwKind"] = member_index[mw_kind]
    if mw_caps not in caps_sets:
        caps_sets.append(mw_caps)
    out["mwCaps"] = caps_sets.index(mw_caps)
    out["mwHoldsServer"] = [ast.unparse(s) for s in _body(mfns["__init__"])] == ["self._server = server"]

    # ---- factory: the middleware is installed, ahead of everything that can dispatch
    ftree = ast.parse((REPO / FACTORY).read_text())
    installed = False
    for n in ast.walk(ftree):
        if isinstance(n, (ast.Assign, ast.AnnAssign)) and _targets(n) == ["middleware"] and isinstance(n.value, ast.List):
            elts = [ast.unparse(e) for e in n.value.elts]
            installed = "_TransportNotifyMiddleware(server)" in elts
    out["mwInstalled"] = installed
    out["fingerprint"] = _fingerprint(notify, serve, mfns["process_request"], fns["transport_kind"])
    return out


def _b(x: bool) -> str:
    return "true" if x else "false"


def _s(x: str) -> str:
    return '"' + x.replace("\\", "\\\\").replace('"', '\\"') + '"'


def emit() -> dict[str, str]:
    a = analyse()
    ks = a["kinds"]
    idx = {m: i for i, (m, _v) in enumerate(ks)}
    caps = a["capsTable"]
    serve_rows = ", ".join(f"({_s(c)}, {idx[k]}, {caps.index(cp)})" for c, k, cp in a["serveTable"])
    prog = ", ".join("." + p for p in a["prog"])
    caps_rows = ", ".join("[" + ", ".join(_s(x) for x in cp) + "]" for cp in caps)
    body = f"""/-
Extracted from {SERVER} (RpcServer.__init__ / transport_kind / _notify_transport / serve),
{COMMON} (TransportKind), {MIDDLEWARE} (_TransportNotifyMiddleware), {FACTORY}.
-/
namespace VgiVerif.Gen.C42

/-- `TransportKind` members in declaration order: (member, value); a kind is identified by its index -/
def kinds : List (String × String) := [{", ".join(f"({_s(m)}, {_s(v)})" for m, v in ks)}]

/-- capability sets that appear in `serve()` / the middleware; a capability set is identified by its index
(index 0 = `frozenset()`) -/
def capsTable : List (List String) := [{caps_rows}]

/-- `serve()`: `isinstance(transport, <class>)` chain in source order -> (class, kind index, caps index);
`"*"` is the final `else` -/
def serveTable : List (String × Nat × Nat) := [{serve_rows}]

/-- `_TransportNotifyMiddleware.process_request` calls `_notify_transport(TransportKind.<this>, …)` -/
def mwKind : Nat := {a["mwKind"]}
/-- … with this capability set (index into `capsTable`) -/
def mwCaps : Nat := {a["mwCaps"]}

/-- abstract operations of the critical section of `_notify_transport` -/
inductive Op where
  | test      -- `if self._transport_kind == kind and self._transport_capabilities == capabilities: return`
  | hook      -- `if callable(hook): try: hook(kind) except Exception: log; raise`
  | wrKind    -- `self._transport_kind = kind`
  | wrCaps    -- `self._transport_capabilities = capabilities`
  | other     -- any statement the extractor does not recognise
deriving Repr, DecidableEq

/-- the statements of the `with self._transport_lock:` body, in source order (the `hook = getattr(…)` lookup omitted) -/
def notifyProg : List Op := [{prog}]

/-- the body of `_notify_transport(self, kind, capabilities)` is exactly one `with self._transport_lock:` block -/
def wholeBodyLocked : Bool := {_b(a["wholeBodyLocked"] and a["notifySignature"])}

/-- `self._transport_lock = threading.Lock()` — assigned once, in `__init__`, a plain (non-reentrant) lock -/
def lockIsPlainLock : Bool := {_b(a["lockIsPlainLock"])}

/-- `__init__` leaves the server unbound: `_transport_kind = None`, `_transport_capabilities = frozenset()` -/
def initUnbound : Bool := {_b(a["initUnbound"])}

/-- the test is `self._transport_kind == kind and self._transport_capabilities == capabilities` (both, in this
order, short-circuit `and`) with body `return` -/
def testComparesBoth : Bool := {_b(a["testComparesBoth"])}

/-- `hook = getattr(self._impl, "on_serve_start", None)`; `if callable(hook): try: hook(kind)` -/
def hookCalledWithKind : Bool := {_b(a["hookCalledWithKind"])}

/-- the only handler is `except Exception:` and it ends in a bare `raise` (no return/continue/break) -/
def hookExcReraises : Bool := {_b(a["hookExcReraises"])}

/-- the two commit statements store the arguments: `= kind`, `= capabilities` -/
def commitWritesArgs : Bool := {_b(a["commitWritesArgs"])}

/-- the binding fields are assigned only in `__init__` and `_notify_transport` (nowhere else in the module) -/
def onlyWriter : Bool := {_b(a["onlyWriter"])}

/-- `transport_kind` / `transport_capabilities` are properties returning the fields -/
def kindPropertyReadsField : Bool := {_b(a["kindPropertyReadsField"])}

/-- `serve()`: the class chain, then `self._notify_transport(kind, capabilities)` (its only call) before any `serve_one` -/
def serveNotifiesFirst : Bool := {_b(a["serveNotifiesFirst"])}

/-- `process_request` is `if self._server.transport_kind is None: self._server._notify_transport(TransportKind.X, frozenset(…))`
(an unlocked read of the kind only), and `__init__` stores the server -/
def mwFastPath : Bool := {_b(a["mwFastPath"] and a["mwHoldsServer"])}

/-- `make_wsgi_app` installs `_TransportNotifyMiddleware(server)` in its middleware list -/
def mwInstalled : Bool := {_b(a["mwInstalled"])}

/-- normalised-AST fingerprint of `_notify_transport`, `serve`, `process_request`, `transport_kind` (drift indicator only) -/
def fingerprint : String := "{a["fingerprint"]}"

end VgiVerif.Gen.C42
"""
    return {"C42.lean": body}
