"""C39: the `__describe__` batch layout, the canonical protocol_hash pre-image and the code shapes around them.

From vgi_rpc/introspect.py (AST + values) and vgi_rpc/rpc/_server.py / http/server/_app_unary.py (AST):

* constants: DESCRIBE_VERSION, DESCRIBE_METHOD_NAME, REQUEST_VERSION, the metadata keys, MethodType values,
  the 8 `_DESCRIBE_FIELDS`;
* `compute_protocol_hash` as a *program*: the sequence of `h.update(...)` calls before the row loop (`prefixOps`) and
  inside it (`rowOps`), with every separator literal, the column each update reads and the byte codes of the flags;
  the name guards (`_require_unambiguous_name`) and the characters they forbid;
* shapes (normalised source text) of `build_describe_batch` (which `RpcMethodInfo` attribute feeds which column, the row
  order, the metadata dict), `parse_describe_batch` (which column feeds which `MethodDescription` field) and of the
  server side (what the server hashes, `__describe__` registration, the pre-built batch being written).

Anything outside the recognised fragment raises (= extraction error = broken correspondence for C39).
"""

from __future__ import annotations

import ast
import os
from pathlib import Path

from .regex_to_lean import lean_str

REPO = Path(os.environ.get("VERIF_REPO", "/repo"))
PROPS = ["C39"]

STR_COLS = {"name": "name", "method_type": "methodType"}
BOOL_COLS = {"has_return": "hasReturn", "has_header": "hasHeader"}
BIN_COLS = {"params_schema_ipc": "params", "result_schema_ipc": "result"}
OPTBOOL_COL = "is_exchange"
OPTBIN_COL = "header_schema_ipc"


class Unrecognised(Exception):
    pass


def _bytes(b: bytes) -> str:
    return "[" + ", ".join(str(x) for x in b) + "]"


def _lean_string(s: str) -> str:
    out = []
    for ch in s:
        if ch == "\\":
            out.append("\\\\")
        elif ch == '"':
            out.append('\\"')
        elif ch == "\n":
            out.append("\\n")
        elif 32 <= ord(ch) < 127:
            out.append(ch)
        else:
            out.append("\\u{%x}" % ord(ch))
    return '"' + "".join(out) + '"'


def _func(tree: ast.Module, name: str) -> ast.FunctionDef:
    for node in tree.body:
        if isinstance(node, ast.FunctionDef) and node.name == name:
            return node
    raise Unrecognised(f"function {name} not found")


def _is_docstring(st: ast.stmt) -> bool:
    return isinstance(st, ast.Expr) and isinstance(st.value, ast.Constant) and isinstance(st.value.value, str)


def _h_update_arg(st: ast.stmt) -> ast.expr | None:
    if (
        isinstance(st, ast.Expr)
        and isinstance(st.value, ast.Call)
        and isinstance(st.value.func, ast.Attribute)
        and st.value.func.attr == "update"
        and isinstance(st.value.func.value, ast.Name)
        and st.value.func.value.id == "h"
        and len(st.value.args) == 1
        and not st.value.keywords
    ):
        return st.value.args[0]
    return None


def _guard_arg(st: ast.stmt) -> ast.expr | None:
    if (
        isinstance(st, ast.Expr)
        and isinstance(st.value, ast.Call)
        and isinstance(st.value.func, ast.Name)
        and st.value.func.id == "_require_unambiguous_name"
        and len(st.value.args) == 2
    ):
        return st.value.args[1]
    return None


def _const_bytes(e: ast.expr) -> bytes | None:
    if isinstance(e, ast.Constant) and isinstance(e.value, bytes):
        return e.value
    return None


def _guard_chars(tree: ast.Module, mod: object) -> list[int]:
    """Characters `_require_unambiguous_name` rejects: `if any(c in name for c in CONST): raise ValueError(...)`."""
    try:
        fn = _func(tree, "_require_unambiguous_name")
    except Unrecognised:
        return []
    body = [s for s in fn.body if not _is_docstring(s)]
    if len(body) != 1 or not isinstance(body[0], ast.If) or body[0].orelse:
        raise Unrecognised("_require_unambiguous_name: unexpected body")
    test = ast.unparse(body[0].test)
    params = [a.arg for a in fn.args.args]
    if len(params) != 2:
        raise Unrecognised("_require_unambiguous_name: unexpected signature")
    nm = params[1]
    t = body[0].test
    if not (
        isinstance(t, ast.Call)
        and isinstance(t.func, ast.Name)
        and t.func.id == "any"
        and len(t.args) == 1
        and isinstance(t.args[0], ast.GeneratorExp)
        and len(t.args[0].generators) == 1
        and isinstance(t.args[0].generators[0].iter, ast.Name)
        and not t.args[0].generators[0].ifs
    ):
        raise Unrecognised(f"_require_unambiguous_name: unexpected test {test}")
    gen = t.args[0]
    var = ast.unparse(gen.generators[0].target)
    if ast.unparse(gen.elt) != f"{var} in {nm}":
        raise Unrecognised(f"_require_unambiguous_name: unexpected test {test}")
    if not (len(body[0].body) == 1 and isinstance(body[0].body[0], ast.Raise)):
        raise Unrecognised("_require_unambiguous_name: guard does not raise")
    const = getattr(mod, gen.generators[0].iter.id)  # type: ignore[union-attr]
    if not isinstance(const, str):
        raise Unrecognised("_require_unambiguous_name: separator constant is not a str")
    return sorted({ord(c) for c in const})


def _hash_program(tree: ast.Module, mod: object) -> dict:
    import vgi_rpc.metadata as md

    fn = _func(tree, "compute_protocol_hash")
    args = [a.arg for a in fn.args.args]
    if args != ["protocol_name", "batch"]:
        raise Unrecognised(f"compute_protocol_hash signature {args}")
    chars = _guard_chars(tree, mod)
    prefix: list[str] = []
    colvars: dict[str, str] = {}
    guard_protocol = False
    loop: ast.For | None = None
    returned = False
    for st in fn.body:
        if _is_docstring(st) or isinstance(st, ast.Import):
            continue
        if loop is not None:
            if isinstance(st, ast.Return) and ast.unparse(st.value) == "h.hexdigest()":  # type: ignore[arg-type]
                returned = True
                continue
            raise Unrecognised(f"compute_protocol_hash: statement after the row loop: {ast.unparse(st)}")
        a = _h_update_arg(st)
        if a is not None:
            b = _const_bytes(a)
            src = ast.unparse(a)
            if b is not None:
                prefix.append(f".lit {_bytes(b)}")
            elif src == "DESCRIBE_VERSION.encode()":
                prefix.append(f".lit {_bytes(mod.DESCRIBE_VERSION.encode())}")  # type: ignore[attr-defined]
            elif src == "REQUEST_VERSION":
                prefix.append(f".lit {_bytes(md.REQUEST_VERSION)}")
            elif src == "protocol_name.encode()":
                prefix.append(".protocolName")
            else:
                raise Unrecognised(f"compute_protocol_hash: h.update({src}) before the loop")
            continue
        g = _guard_arg(st)
        if g is not None:
            if ast.unparse(g) != "protocol_name":
                raise Unrecognised("compute_protocol_hash: guard on something other than protocol_name before the loop")
            guard_protocol = True
            continue
        if isinstance(st, ast.Assign) and len(st.targets) == 1 and isinstance(st.targets[0], ast.Name):
            tgt = st.targets[0].id
            src = ast.unparse(st.value)
            if src in ("hashlib.sha256()", "batch.num_rows"):
                continue
            v = st.value
            if (
                isinstance(v, ast.Call)
                and ast.unparse(v.func) == "batch.column"
                and len(v.args) == 1
                and isinstance(v.args[0], ast.Constant)
                and isinstance(v.args[0].value, str)
            ):
                colvars[tgt] = v.args[0].value
                continue
            raise Unrecognised(f"compute_protocol_hash: assignment {tgt} = {src}")
        if isinstance(st, ast.For):
            if not (ast.unparse(st.target) == "i" and ast.unparse(st.iter) == "range(n)" and not st.orelse):
                raise Unrecognised("compute_protocol_hash: row loop is not `for i in range(n)`")
            loop = st
            continue
        raise Unrecognised(f"compute_protocol_hash: statement {ast.unparse(st)}")
    if loop is None or not returned:
        raise Unrecognised("compute_protocol_hash: no row loop / no `return h.hexdigest()`")
    if ".protocolName" not in prefix:
        pass  # allowed (a source edit); the proofs will notice

    locals_: dict[str, str] = {}

    def cell(e: ast.expr) -> str | None:
        """Column read by `X[i].as_py()` or by a local assigned from it."""
        if isinstance(e, ast.Name) and e.id in locals_:
            return locals_[e.id]
        if (
            isinstance(e, ast.Call)
            and isinstance(e.func, ast.Attribute)
            and e.func.attr == "as_py"
            and not e.args
            and isinstance(e.func.value, ast.Subscript)
            and isinstance(e.func.value.value, ast.Name)
            and e.func.value.value.id in colvars
            and ast.unparse(e.func.value.slice) == "i"
        ):
            return colvars[e.func.value.value.id]
        return None

    rows: list[str] = []
    guard_method = False
    for st in loop.body:
        a = _h_update_arg(st)
        if a is not None:
            b = _const_bytes(a)
            if b is not None:
                rows.append(f".lit {_bytes(b)}")
                continue
            # <cell>.encode()
            if isinstance(a, ast.Call) and isinstance(a.func, ast.Attribute) and a.func.attr == "encode" and not a.args:
                c = cell(a.func.value)
                if c in STR_COLS:
                    rows.append(f".str .{STR_COLS[c]}")
                    continue
            # b"1" if <cell> else b"0"
            if isinstance(a, ast.IfExp):
                c = cell(a.test)
                t, f = _const_bytes(a.body), _const_bytes(a.orelse)
                if c in BOOL_COLS and t is not None and f is not None:
                    rows.append(f".bool .{BOOL_COLS[c]} {_bytes(t)} {_bytes(f)}")
                    continue
                # b"-" if <cell> is None else (b"1" if <cell> else b"0")
                if (
                    isinstance(a.test, ast.Compare)
                    and len(a.test.ops) == 1
                    and isinstance(a.test.ops[0], ast.Is)
                    and isinstance(a.test.comparators[0], ast.Constant)
                    and a.test.comparators[0].value is None
                    and cell(a.test.left) == OPTBOOL_COL
                    and isinstance(a.orelse, ast.IfExp)
                    and cell(a.orelse.test) == OPTBOOL_COL
                ):
                    n, t, f = _const_bytes(a.body), _const_bytes(a.orelse.body), _const_bytes(a.orelse.orelse)
                    if n is not None and t is not None and f is not None:
                        rows.append(f".optBool {_bytes(n)} {_bytes(t)} {_bytes(f)}")
                        continue
            c = cell(a)
            if c in BIN_COLS:
                rows.append(f".bin .{BIN_COLS[c]}")
                continue
            raise Unrecognised(f"compute_protocol_hash: h.update({ast.unparse(a)}) in the row loop")
        g = _guard_arg(st)
        if g is not None:
            if cell(g) != "name":
                raise Unrecognised("compute_protocol_hash: row guard on something other than the name column")
            guard_method = True
            continue
        if isinstance(st, ast.Assign) and len(st.targets) == 1 and isinstance(st.targets[0], ast.Name):
            c = cell(st.value)
            if c is None:
                raise Unrecognised(f"compute_protocol_hash: row assignment {ast.unparse(st)}")
            locals_[st.targets[0].id] = c
            continue
        if isinstance(st, ast.If) and not st.orelse:
            t = st.test
            if (
                isinstance(t, ast.Compare)
                and len(t.ops) == 1
                and isinstance(t.ops[0], ast.IsNot)
                and isinstance(t.comparators[0], ast.Constant)
                and t.comparators[0].value is None
                and cell(t.left) == OPTBIN_COL
                and len(st.body) == 1
            ):
                a2 = _h_update_arg(st.body[0])
                if a2 is not None and cell(a2) == OPTBIN_COL:
                    rows.append(".optBin")
                    continue
        raise Unrecognised(f"compute_protocol_hash: row statement {ast.unparse(st)}")
    return {
        "prefix": prefix,
        "rows": rows,
        "forb_protocol": chars if guard_protocol else [],
        "forb_method": chars if guard_method else [],
    }


def _build_shape(tree: ast.Module) -> tuple[list[tuple[str, str]], list[tuple[str, str]]]:
    fn = _func(tree, "build_describe_batch")
    loop = next((s for s in fn.body if isinstance(s, ast.For)), None)
    if loop is None:
        raise Unrecognised("build_describe_batch: no loop")
    appended: dict[str, str] = {}
    for st in loop.body:
        if (
            isinstance(st, ast.Expr)
            and isinstance(st.value, ast.Call)
            and isinstance(st.value.func, ast.Attribute)
            and st.value.func.attr == "append"
            and isinstance(st.value.func.value, ast.Name)
            and len(st.value.args) == 1
        ):
            lst = st.value.func.value.id
            if lst in appended:
                raise Unrecognised(f"build_describe_batch: two appends to {lst}")
            appended[lst] = ast.unparse(st.value.args[0])
        else:
            raise Unrecognised(f"build_describe_batch: loop statement {ast.unparse(st)}")
    shape: list[tuple[str, str]] = [("for", f"{ast.unparse(loop.target)} in {ast.unparse(loop.iter)}")]
    batch_assign = None
    md_assign = None
    hash_assign = None
    extra_md: list[tuple[str, str]] = []
    for st in fn.body:
        if isinstance(st, ast.Assign) and len(st.targets) == 1 and ast.unparse(st.targets[0]) == "batch":
            batch_assign = st.value
        if isinstance(st, ast.Assign) and ast.unparse(st.targets[0]) == "protocol_hash":
            hash_assign = ast.unparse(st.value)
        if isinstance(st, ast.AnnAssign) and ast.unparse(st.target) == "md_dict":
            md_assign = st.value
        if isinstance(st, ast.If) and "md_dict" in ast.unparse(st):
            if not (len(st.body) == 1 and isinstance(st.body[0], ast.Assign) and not st.orelse):
                raise Unrecognised("build_describe_batch: conditional metadata shape")
            extra_md.append((f"if {ast.unparse(st.test)}", ast.unparse(st.body[0])))
    if not (
        isinstance(batch_assign, ast.Call)
        and ast.unparse(batch_assign.func) == "pa.RecordBatch.from_pydict"
        and isinstance(batch_assign.args[0], ast.Dict)
    ):
        raise Unrecognised("build_describe_batch: batch is not RecordBatch.from_pydict({...})")
    for k, v in zip(batch_assign.args[0].keys, batch_assign.args[0].values):
        if not (isinstance(k, ast.Constant) and isinstance(v, ast.Name) and v.id in appended):
            raise Unrecognised("build_describe_batch: from_pydict entry")
        shape.append((k.value, appended[v.id]))
    shape.append(("schema", ",".join(ast.unparse(kw.value) for kw in batch_assign.keywords if kw.arg == "schema")))
    shape.append(("protocol_hash", hash_assign or "?"))
    if not isinstance(md_assign, ast.Dict):
        raise Unrecognised("build_describe_batch: md_dict literal")
    md_shape = [(ast.unparse(k), ast.unparse(v)) for k, v in zip(md_assign.keys, md_assign.values)] + extra_md  # type: ignore[arg-type]
    ret = next((s for s in fn.body if isinstance(s, ast.Return)), None)
    shape.append(("return", ast.unparse(ret.value) if ret is not None and ret.value is not None else "?"))
    return shape, md_shape


def _parse_shape(tree: ast.Module) -> list[tuple[str, str]]:
    fn = _func(tree, "parse_describe_batch")
    out: list[tuple[str, str]] = []
    loop = next((s for s in fn.body if isinstance(s, ast.For)), None)
    if loop is None:
        raise Unrecognised("parse_describe_batch: no loop")
    out.append(("for", f"{ast.unparse(loop.target)} in {ast.unparse(loop.iter)}"))
    env: dict[str, str] = {}

    def subst(e: ast.expr) -> str:
        class T(ast.NodeTransformer):
            def visit_Name(self, n: ast.Name) -> ast.AST:  # noqa: N802
                if n.id in env:
                    return ast.parse(env[n.id], mode="eval").body
                return n

        import copy

        return ast.unparse(T().visit(copy.deepcopy(e)))

    for st in fn.body:
        if isinstance(st, ast.AnnAssign) and isinstance(st.target, ast.Name) and st.value is not None:
            out.append((st.target.id, ast.unparse(st.value)))
    for st in loop.body:
        if isinstance(st, (ast.Assign, ast.AnnAssign)):
            tgt = st.targets[0] if isinstance(st, ast.Assign) else st.target
            if isinstance(tgt, ast.Name) and st.value is not None:
                env[tgt.id] = subst(st.value)
                continue
            if isinstance(tgt, ast.Subscript) and ast.unparse(tgt.value) == "method_map" and isinstance(st.value, ast.Call):
                out.append(("key", subst(tgt.slice)))
                out.append(("ctor", ast.unparse(st.value.func)))
                for kw in st.value.keywords:
                    out.append((f"field:{kw.arg}", subst(kw.value)))
                continue
        if isinstance(st, ast.If) and not st.orelse and len(st.body) == 1 and isinstance(st.body[0], ast.Assign):
            b = st.body[0]
            tgt = b.targets[0]
            if isinstance(tgt, ast.Name):
                prev = env.get(tgt.id, "?")
                env[tgt.id] = f"({subst(b.value)}) if ({subst(st.test)}) else ({prev})"
                continue
        raise Unrecognised(f"parse_describe_batch: loop statement {ast.unparse(st)}")
    ret = next((s for s in fn.body if isinstance(s, ast.Return)), None)
    if ret is None or not isinstance(ret.value, ast.Call):
        raise Unrecognised("parse_describe_batch: return")
    out.append(("return", ast.unparse(ret.value.func)))
    for kw in ret.value.keywords:
        out.append((f"ret:{kw.arg}", ast.unparse(kw.value)))
    return out


def _server_shape() -> list[tuple[str, str]]:
    out: list[tuple[str, str]] = []
    src = (REPO / "vgi_rpc/rpc/_server.py").read_text()
    tree = ast.parse(src)
    init = None
    serve_unary = None
    for node in ast.walk(tree):
        if isinstance(node, ast.ClassDef) and node.name == "RpcServer":
            for f in node.body:
                if isinstance(f, ast.FunctionDef) and f.name == "__init__":
                    init = f
                if isinstance(f, ast.FunctionDef) and f.name == "_serve_unary":
                    serve_unary = f
                if isinstance(f, ast.FunctionDef) and f.name == "protocol_hash":
                    rets = [ast.unparse(s.value) for s in f.body if isinstance(s, ast.Return) and s.value is not None]
                    out.append(("property:protocol_hash", ";".join(rets)))
    if init is None or serve_unary is None:
        raise Unrecognised("RpcServer.__init__ / _serve_unary not found")
    for st in init.body:
        if isinstance(st, ast.Assign) and isinstance(st.value, ast.Call) and ast.unparse(st.value.func) == "build_describe_batch":
            out.append(("hashed", f"{ast.unparse(st.targets[0])} = {ast.unparse(st.value)}"))
        if isinstance(st, ast.Assign) and ast.unparse(st.targets[0]) == "self._methods":
            out.append(("methods", ast.unparse(st.value)))
        if isinstance(st, ast.AnnAssign) and ast.unparse(st.target) == "self._protocol_hash" and st.value is not None:
            out.append(("self._protocol_hash", ast.unparse(st.value)))
        if isinstance(st, ast.If) and ast.unparse(st.test) == "enable_describe":
            for s in st.body:
                if isinstance(s, ast.AnnAssign) and s.value is not None:
                    out.append((f"enable:{ast.unparse(s.target)}", ast.unparse(s.value)))
                if isinstance(s, ast.Assign) and ast.unparse(s.targets[0]) == "self._methods" and isinstance(s.value, ast.Dict):
                    keys = [ast.unparse(k) if k is not None else "**" + ast.unparse(v) for k, v in zip(s.value.keys, s.value.values)]
                    out.append(("enable:registers", ",".join(keys)))
                    for k, v in zip(s.value.keys, s.value.values):
                        if k is not None and isinstance(v, ast.Call):
                            for kw in v.keywords:
                                if kw.arg in ("name", "method_type", "params_schema", "has_return"):
                                    out.append((f"enable:info.{kw.arg}", ast.unparse(kw.value)))
            for s in st.orelse:
                if isinstance(s, ast.Assign):
                    out.append((f"disable:{ast.unparse(s.targets[0])}", ast.unparse(s.value)))
    first = next((s for s in serve_unary.body if not _is_docstring(s)), None)
    if not isinstance(first, ast.If):
        raise Unrecognised("_serve_unary: first statement is not the describe short-circuit")
    out.append(("pipe:if", ast.unparse(first.test)))
    writes = [ast.unparse(n) for n in ast.walk(first) if isinstance(n, ast.Call) and ast.unparse(n.func) == "writer.write_batch"]
    out.append(("pipe:writes", ";".join(writes)))
    out.append(("pipe:returns", str(any(isinstance(s, ast.Return) for s in first.body))))
    # HTTP unary
    htree = ast.parse((REPO / "vgi_rpc/http/server/_app_unary.py").read_text())
    found = False
    for node in ast.walk(htree):
        if isinstance(node, ast.If) and "describe_batch is not None" in ast.unparse(node.test):
            out.append(("http:if", ast.unparse(node.test)))
            writes = [ast.unparse(n) for n in ast.walk(node) if isinstance(n, ast.Call) and ast.unparse(n.func) == "writer.write_batch"]
            out.append(("http:writes", ";".join(writes)))
            found = True
            break
    for node in ast.walk(htree):
        if isinstance(node, ast.Assign) and ast.unparse(node.targets[0]) == "describe_batch":
            out.append(("http:describe_batch", ast.unparse(node.value)))
    if not found:
        raise Unrecognised("_app_unary: describe short-circuit not found")
    return out


def _schema_cache_shape() -> tuple[str, str]:
    """How `_ArrowSchemaDescriptor.__get__` (vgi_rpc/utils.py) looks the cached schema up, and where it stores it.

    `if cache_attr in owner.__dict__:`  -> "ownDict" (only the class's own dict: a subclass never sees its parent's entry)
    `getattr(owner, cache_attr, ...)` used for the hit test -> "mro" (walks the class hierarchy)
    """
    tree = ast.parse((REPO / "vgi_rpc/utils.py").read_text())
    get = None
    for node in ast.walk(tree):
        if isinstance(node, ast.ClassDef) and node.name == "_ArrowSchemaDescriptor":
            for f in node.body:
                if isinstance(f, ast.FunctionDef) and f.name == "__get__":
                    get = f
    if get is None:
        raise Unrecognised("_ArrowSchemaDescriptor.__get__ not found")
    params = [a.arg for a in get.args.args]
    if params != ["self", "instance", "owner"]:
        raise Unrecognised(f"_ArrowSchemaDescriptor.__get__ signature {params}")
    body = [st for st in get.body if not _is_docstring(st)]
    first_if = next((st for st in body if isinstance(st, ast.If)), None)
    if first_if is None or not any(isinstance(x, ast.Return) for x in first_if.body):
        raise Unrecognised("_ArrowSchemaDescriptor.__get__: no cache-hit branch")
    test = ast.unparse(first_if.test)
    pre = [ast.unparse(st) for st in body[: body.index(first_if)]]
    if test == "cache_attr in owner.__dict__":
        mode = "ownDict"
    elif any("getattr(owner, cache_attr" in x for x in pre) or "getattr(owner, cache_attr" in test or "hasattr(owner, cache_attr" in test:
        mode = "mro"
    else:
        raise Unrecognised(f"_ArrowSchemaDescriptor.__get__: unrecognised cache test {test!r}")
    stores = [ast.unparse(n) for n in ast.walk(get) if isinstance(n, ast.Call) and ast.unparse(n.func) == "setattr"]
    if stores != ["setattr(owner, cache_attr, schema)"]:
        raise Unrecognised(f"_ArrowSchemaDescriptor.__get__: cache store {stores}")
    gen = [ast.unparse(st.value) for st in body if isinstance(st, ast.Assign) and ast.unparse(st.targets[0]) == "schema"]
    if gen != ["self._generate_schema(owner)"]:
        raise Unrecognised(f"_ArrowSchemaDescriptor.__get__: schema generation {gen}")
    return mode, stores[0]


def _pairs(name: str, doc: str, pairs: list[tuple[str, str]]) -> str:
    body = ",\n".join(f"  ({_lean_string(k)}, {_lean_string(v)})" for k, v in pairs)
    return f"/-- {doc} -/\ndef {name} : List (String × String) := [\n{body}\n]\n"


def emit() -> dict[str, str]:
    import importlib

    mod = importlib.import_module("vgi_rpc.introspect")  # (`vgi_rpc.introspect` the attribute is the function)
    import vgi_rpc.metadata as md
    from vgi_rpc.rpc import MethodType

    src = (REPO / "vgi_rpc/introspect.py").read_text()
    tree = ast.parse(src)
    prog = _hash_program(tree, mod)
    build_shape, md_shape = _build_shape(tree)
    parse_shape = _parse_shape(tree)
    server_shape = _server_shape()
    cache_mode, cache_store = _schema_cache_shape()
    fields = [(f.name, str(f.type), bool(f.nullable)) for f in mod._DESCRIBE_FIELDS]
    fields_txt = ", ".join(f'("{n}", "{t}", {str(nl).lower()})' for n, t, nl in fields)
    mt = {m.name: m.value for m in MethodType}
    if set(mt) != {"UNARY", "STREAM"}:
        raise Unrecognised(f"MethodType members {sorted(mt)}")
    keys = [
        ("protocolNameKey", md.PROTOCOL_NAME_KEY),
        ("requestVersionKey", md.REQUEST_VERSION_KEY),
        ("describeVersionKey", md.DESCRIBE_VERSION_KEY),
        ("protocolHashKey", md.PROTOCOL_HASH_KEY),
        ("serverIdKey", md.SERVER_ID_KEY),
        ("protocolVersionKey", md.PROTOCOL_VERSION_KEY),
    ]
    keys_txt = "\n".join(f"def {n} : List UInt8 := {_bytes(v)}  -- {v!r}" for n, v in keys)
    nl = ",\n  "
    body = f"""namespace VgiVerif.Gen.Describe

/-- `vgi_rpc.introspect.DESCRIBE_VERSION` = {mod.DESCRIBE_VERSION!r} -/
def describeVersion : List Char := {lean_str(mod.DESCRIBE_VERSION)}
/-- `vgi_rpc.introspect.DESCRIBE_METHOD_NAME` = {mod.DESCRIBE_METHOD_NAME!r} -/
def describeMethodName : List Char := {lean_str(mod.DESCRIBE_METHOD_NAME)}
/-- `vgi_rpc.metadata.REQUEST_VERSION` = {md.REQUEST_VERSION!r} -/
def requestVersion : List UInt8 := {_bytes(md.REQUEST_VERSION)}
/-- `REQUEST_VERSION.decode()` -/
def requestVersionText : List Char := {lean_str(md.REQUEST_VERSION.decode())}
/-- `MethodType.UNARY.value` / `MethodType.STREAM.value` -/
def methodTypeUnary : List Char := {lean_str(mt["UNARY"])}
def methodTypeStream : List Char := {lean_str(mt["STREAM"])}

-- custom-metadata keys of the describe response (vgi_rpc.metadata)
{keys_txt}

/-- `_DESCRIBE_FIELDS`: (name, arrow type, nullable) -/
def describeFields : List (String × String × Bool) := [{fields_txt}]

inductive StrCol where | name | methodType
deriving Repr, DecidableEq
inductive BoolCol where | hasReturn | hasHeader
deriving Repr, DecidableEq
inductive BinCol where | params | result
deriving Repr, DecidableEq

/-- one `h.update(...)` before the row loop of `compute_protocol_hash` -/
inductive HOp where
  | lit (b : List UInt8)        -- a bytes literal / DESCRIBE_VERSION.encode() / REQUEST_VERSION (resolved)
  | protocolName                -- protocol_name.encode()
deriving Repr, DecidableEq

/-- one `h.update(...)` inside the row loop -/
inductive ROp where
  | lit (b : List UInt8)
  | str (c : StrCol)                          -- <col>[i].as_py().encode()
  | bool (c : BoolCol) (t f : List UInt8)     -- t if <col>[i].as_py() else f
  | optBool (n t f : List UInt8)              -- is_exchange: n if None else (t if v else f)
  | bin (c : BinCol)                          -- <col>[i].as_py()
  | optBin                                    -- header_schema_ipc: updated only when not None
deriving Repr, DecidableEq

def prefixOps : List HOp := [
  {nl.join(prog["prefix"])}
]

def rowOps : List ROp := [
  {nl.join(prog["rows"])}
]

/-- code points `_require_unambiguous_name` rejects in the protocol name ([] = no guard in the source) -/
def forbiddenProtocolName : List Nat := {prog["forb_protocol"]}
/-- code points `_require_unambiguous_name` rejects in every method name ([] = no guard in the source) -/
def forbiddenMethodName : List Nat := {prog["forb_method"]}

/-- how `_ArrowSchemaDescriptor.__get__` finds a cached `ARROW_SCHEMA`: in the class's own `__dict__`, or through the MRO -/
inductive CacheLookup where | ownDict | mro
deriving Repr, DecidableEq
def schemaCacheLookup : CacheLookup := .{cache_mode}
/-- on a miss the generated schema (`self._generate_schema(owner)`) is stored on the class itself -/
def schemaCacheStore : String := {_lean_string(cache_store)}

{_pairs("buildShape", "`build_describe_batch`: row order, column <- expression appended per method, what is hashed, what is returned", build_shape)}
{_pairs("metadataShape", "`build_describe_batch`: the custom-metadata dict, in insertion order", md_shape)}
{_pairs("parseShape", "`parse_describe_batch`: metadata reads, and per row the MethodDescription fields with locals substituted", parse_shape)}
{_pairs("serverShape", "`RpcServer.__init__` / `_serve_unary` / HTTP unary: what is hashed, `__describe__` registration, the pre-built batch", server_shape)}
end VgiVerif.Gen.Describe
"""
    return {"Describe.lean": body}
