"""C29: constants and *shapes* of the shared-memory side channel, regenerated from the working tree.

values  — `shm.HEADER_SIZE`, `MAX_ALLOCS`, `_STREAM_OVERHEAD`, the POSIX default of `SHM_MIN_BATCH_BYTES`
shapes  — (each a Bool / small enum the Lean model branches on; the theorems are proved over these definitions, so an edit
          of the anchored code changes the model or breaks a proof)
  * `maybe_write_to_shm`: guard order  [no segment or zero rows → inline; `nbytes < MIN` (strict) → inline;
    `allocate_and_write` returned None → inline; else pointer]
  * `allocate_and_write`: non-dictionary size = `get_record_batch_size + _STREAM_OVERHEAD`, dictionary size = serialized size;
    `None` when the allocator refuses
  * `resolve_shm_batch`: the release closure frees the pointer's offset and is idempotent
  * `_read_unary_response`: `finally: batch.release()`
  * `_read_request`: pointer request resolved, released in `finally`
  * `_serve_stream`: previous input released after the next one is resolved and before `process()`; last input released in the
    `finally` inside the output stream (before EOS); a coercion failure releases the just-resolved region
  * `_drain_stream(shm=…)` frees skipped pointer batches (refused-stream input, tail of `_serve_stream`); `_drain_output`
    releases the batches it steps over
  * `_deserialize_from_shm`: both paths read through `ipc.open_stream(...).read_next_batch()` (dictionary messages of nested
    dictionary children are consumed); the dictionary path's schema message is rebuilt per call (no cache keyed on Schema ==)
  * `_flush_collector` / `_write_result_batch`: every batch goes through `maybe_write_to_shm` when a segment is present
  * `StreamSession._write_batch`: inputs go through `maybe_write_to_shm`; `_read_response` / `_read_batch_with_log_check`
    resolve through `resolve_shm_batch` and attach the release function to the returned `AnnotatedBatch`
"""

from __future__ import annotations

import ast
import os
from pathlib import Path

REPO = Path(os.environ.get("VERIF_REPO", "/repo"))
PROPS = ["C29"]


def _b(x: bool) -> str:
    return "true" if x else "false"


def _find(tree: ast.AST, *path: str) -> ast.AST | None:
    cur: ast.AST = tree
    for name in path:
        nxt = None
        for n in ast.walk(cur):
            if n is cur:
                continue
            if isinstance(n, (ast.FunctionDef, ast.ClassDef)) and n.name == name:
                nxt = n
                break
        if nxt is None:
            return None
        cur = nxt
    return cur


def _src(n: ast.AST | None) -> str:
    return ast.unparse(n) if n is not None else ""


def _calls(n: ast.AST | None, name: str) -> list[ast.Call]:
    if n is None:
        return []
    out = []
    for x in ast.walk(n):
        if isinstance(x, ast.Call):
            f = x.func
            fn = f.id if isinstance(f, ast.Name) else (f.attr if isinstance(f, ast.Attribute) else "")
            if fn == name:
                out.append(x)
    return out


def _const(tree: ast.Module, name: str) -> ast.expr | None:
    for st in tree.body:
        if isinstance(st, ast.Assign) and len(st.targets) == 1 and isinstance(st.targets[0], ast.Name) and st.targets[0].id == name:
            return st.value
    return None


def _eval_int(e: ast.expr | None, env: dict[str, int]) -> int:
    return int(eval(compile(ast.Expression(e), "<c29>", "eval"), {"__builtins__": {}}, dict(env)))  # noqa: S307


def _maybe_write_shape(fn: ast.FunctionDef | None) -> dict[str, bool]:
    """The three early returns of maybe_write_to_shm, in order."""
    res = {"guard_none_or_zero_rows": False, "guard_strict_lt_min": False, "guard_alloc_none": False, "order_ok": False}
    if fn is None:
        return res
    ifs = [st for st in fn.body if isinstance(st, ast.If)]
    tests = [_src(i.test) for i in ifs]
    want = ["shm is None or batch.num_rows == 0", "batch.nbytes < SHM_MIN_BATCH_BYTES", "result is None"]
    res["guard_none_or_zero_rows"] = want[0] in tests
    res["guard_strict_lt_min"] = want[1] in tests
    res["guard_alloc_none"] = want[2] in tests
    res["order_ok"] = tests == want and all(
        len(i.body) == 1 and isinstance(i.body[0], ast.Return) and _src(i.body[0].value) == "(batch, custom_metadata)" for i in ifs)
    return res


def _release_closure(fn: ast.FunctionDef | None) -> dict[str, bool]:
    res = {"frees_offset": False, "idempotent": False}
    inner = _find(fn, "release_fn") if fn is not None else None
    if inner is None:
        return res
    s = _src(inner)
    res["frees_offset"] = "shm.free(offset)" in s
    # idempotent: a flag tested before the free and set before/after it
    has_flag_test = any(isinstance(st, ast.If) and any(isinstance(x, ast.Return) for x in st.body) for st in inner.body)  # type: ignore[attr-defined]
    has_nonlocal = any(isinstance(st, ast.Nonlocal) for st in inner.body)  # type: ignore[attr-defined]
    res["idempotent"] = has_flag_test and has_nonlocal
    return res


def _unary_finally_releases(fn: ast.FunctionDef | None) -> bool:
    if fn is None:
        return False
    for n in ast.walk(fn):
        if isinstance(n, ast.Try) and any("batch.release()" == _src(st) for st in n.finalbody):
            return True
    return False


def _read_request_shape(fn: ast.FunctionDef | None) -> dict[str, bool]:
    res = {"resolves": False, "finally_releases": False}
    if fn is None:
        return res
    res["resolves"] = bool(_calls(fn, "resolve_shm_batch"))
    for n in ast.walk(fn):
        if isinstance(n, ast.Try):
            fin = "\n".join(_src(st) for st in n.finalbody)
            if "release_shm()" in fin and "release_shm is not None" in fin:
                res["finally_releases"] = True
    return res


def _serve_stream_shape(fn: ast.FunctionDef | None) -> dict[str, bool]:
    res = {"resolves_input": False, "prev_released_before_process": False, "final_released_before_eos": False,
           "coerce_failure_releases": False}
    if fn is None:
        return res
    # the `with new_ipc_stream(...) as output_writer:` block
    with_node = None
    for n in ast.walk(fn):
        if isinstance(n, ast.With) and "output_writer" in _src(n.items[0]):
            with_node = n
            break
    if with_node is None:
        return res
    # inner try inside the with: body has the while loop, finalbody releases prev_input
    inner_try = next((st for st in with_node.body if isinstance(st, ast.Try)), None)
    if inner_try is None:
        return res
    fin = "\n".join(_src(st) for st in inner_try.finalbody)
    res["final_released_before_eos"] = "prev_input.release()" in fin and "prev_input is not None" in fin
    loop = next((st for st in inner_try.body if isinstance(st, ast.While)), None)
    if loop is None:
        return res
    # linear order of statements in the loop body
    order: list[str] = []
    for st in loop.body:
        s = _src(st)
        if "resolve_shm_batch(" in s and isinstance(st, ast.Assign):
            order.append("resolve")
        elif "_coerce_input_batch(" in s:
            order.append("coerce")
            if isinstance(st, ast.Try):
                for h in st.handlers:
                    hs = "\n".join(_src(x) for x in h.body)
                    if "release_fn()" in hs and any(isinstance(x, ast.Raise) for x in h.body):
                        res["coerce_failure_releases"] = True
        elif isinstance(st, ast.If) and _src(st.test) == "prev_input is not None" and "prev_input.release()" in s:
            order.append("release_prev")
        elif s.startswith("prev_input = ab_in"):
            order.append("set_prev")
        elif "state.process(" in s:
            order.append("process")
        elif "_flush_collector(" in s:
            order.append("flush")
    res["resolves_input"] = "resolve" in order
    want = ["resolve", "coerce", "release_prev", "set_prev", "process", "flush"]
    res["prev_released_before_process"] = order == want
    return res


def _drain_shape(wire_t: ast.AST, srv_t: ast.AST, cli_t: ast.AST) -> dict[str, bool]:
    """`_drain_stream(..., shm=)` frees skipped pointer batches and both server drains pass the segment;
    `StreamSession._drain_output` releases the batches it steps over."""
    res = {"drain_frees": False, "client_drain_releases": False}
    ds = _find(wire_t, "_drain_stream")
    s = _src(ds)
    frees = "is_shm_pointer_batch(batch, custom_metadata)" in s and "shm.free(int(" in s
    ss = _find(srv_t, "RpcServer", "_serve_stream")
    dr = _find(srv_t, "RpcServer", "_drain_refused_stream_input")
    passes = [any(any(k.arg == "shm" and _src(k.value) == "shm" for k in c.keywords) for c in _calls(n, "_drain_stream")) for n in (ss, dr)]
    refused_seg = "transport.shm if isinstance(transport, ShmPipeTransport) else None" in _src(dr)
    res["drain_frees"] = frees and all(passes) and refused_seg
    do = _find(cli_t, "StreamSession", "_drain_output")
    d = _src(do)
    res["client_drain_releases"] = "skipped = _read_batch_with_log_check(" in d and "skipped.release()" in d
    return res


def _deserialize_shape(tree: ast.AST) -> dict[str, bool]:
    """`_deserialize_from_shm`: both paths decode through a *stream reader* (`ipc.open_stream(...).read_next_batch()`), which
    consumes dictionary messages wherever the dictionary type sits (top level or nested); the schema message the dictionary
    path prepends is built from the schema it is handed on every call — no memoisation keyed on `Schema` equality, which
    ignores metadata."""
    res = {"stream_reader": False, "uncached": False}
    fn = _find(tree, "_deserialize_from_shm")
    if fn is None:
        return res
    opens = _calls(fn, "open_stream")
    direct = _calls(fn, "read_record_batch") + _calls(fn, "read_message")
    res["stream_reader"] = len(opens) == 2 and not direct and len(_calls(fn, "read_next_batch")) == 2
    # every helper the function calls that lives in shm.py must be undecorated (no lru_cache / cache), as must the function itself
    local = {n.name: n for n in ast.walk(tree) if isinstance(n, ast.FunctionDef)}
    called = {c.func.id for c in ast.walk(fn) if isinstance(c, ast.Call) and isinstance(c.func, ast.Name)} & set(local)
    res["uncached"] = not fn.decorator_list and all(not local[n].decorator_list for n in called) and \
        "new_ipc_stream(schema_sink, schema)" in _src(fn)
    return res


def _routes_all(fn: ast.FunctionDef | None) -> bool:
    """`if shm is not None:` branch that calls maybe_write_to_shm"""
    if fn is None:
        return False
    for n in ast.walk(fn):
        if isinstance(n, ast.If) and _src(n.test) in ("shm is not None", "self._shm is not None") and _calls(n, "maybe_write_to_shm"):
            return True
    return False


def _reader_attaches_release(fn: ast.FunctionDef | None) -> bool:
    if fn is None:
        return False
    s = _src(fn)
    return "resolve_shm_batch(resolved_batch, resolved_cm, shm)" in s and "_release_fn=release_fn" in s


def _alloc_sizes(fn: ast.FunctionDef | None) -> dict[str, bool]:
    res = {"nondict_estimate": False, "dict_exact": False, "none_on_refusal": False}
    if fn is None:
        return res
    s = _src(fn)
    res["nondict_estimate"] = "estimated = ipc.get_record_batch_size(batch) + _STREAM_OVERHEAD" in s and "self._allocator.allocate(estimated)" in s
    res["dict_exact"] = "size = serialized.size" in s and "self._allocator.allocate(size)" in s
    res["none_on_refusal"] = s.count("if offset is None:\n") >= 2 and s.count("return None") >= 2
    return res


def emit() -> dict[str, str]:
    shm_t = ast.parse((REPO / "vgi_rpc/shm.py").read_text())
    wire_t = ast.parse((REPO / "vgi_rpc/rpc/_wire.py").read_text())
    srv_t = ast.parse((REPO / "vgi_rpc/rpc/_server.py").read_text())
    cli_t = ast.parse((REPO / "vgi_rpc/rpc/_client.py").read_text())

    header = _eval_int(_const(shm_t, "HEADER_SIZE"), {})
    overhead = _eval_int(_const(shm_t, "_STREAM_OVERHEAD"), {})
    # MAX_ALLOCS = (HEADER_SIZE - _HEADER_STRUCT.size) // _ALLOC_STRUCT.size
    import struct

    hfmt = ast.literal_eval(_const(shm_t, "_HEADER_FMT"))  # type: ignore[arg-type]
    afmt = ast.literal_eval(_const(shm_t, "_ALLOC_FMT"))  # type: ignore[arg-type]
    max_allocs = (header - struct.calcsize(hfmt)) // struct.calcsize(afmt)
    # default threshold on POSIX: the `else` arm of the conditional return in _resolve_shm_min_batch_bytes
    dflt = 0
    fn = _find(shm_t, "_resolve_shm_min_batch_bytes")
    for n in ast.walk(fn) if fn is not None else []:
        if isinstance(n, ast.Return) and isinstance(n.value, ast.IfExp):
            dflt = _eval_int(n.value.orelse, {})
    env_name = ""
    for c in _calls(fn, "get"):
        if c.args and isinstance(c.args[0], ast.Constant):
            env_name = str(c.args[0].value)

    mw = _maybe_write_shape(_find(shm_t, "maybe_write_to_shm"))  # type: ignore[arg-type]
    rc = _release_closure(_find(shm_t, "resolve_shm_batch"))  # type: ignore[arg-type]
    az = _alloc_sizes(_find(shm_t, "ShmSegment", "allocate_and_write"))  # type: ignore[arg-type]
    unary_rel = _unary_finally_releases(_find(wire_t, "_read_unary_response"))  # type: ignore[arg-type]
    rr = _read_request_shape(_find(wire_t, "_read_request"))  # type: ignore[arg-type]
    ss = _serve_stream_shape(_find(srv_t, "RpcServer", "_serve_stream"))  # type: ignore[arg-type]
    flush_routes = _routes_all(_find(wire_t, "_flush_collector"))  # type: ignore[arg-type]
    result_routes = _routes_all(_find(wire_t, "_write_result_batch"))  # type: ignore[arg-type]
    input_routes = _routes_all(_find(cli_t, "StreamSession", "_write_batch"))  # type: ignore[arg-type]
    dsh = _drain_shape(wire_t, srv_t, cli_t)
    des = _deserialize_shape(shm_t)
    reader_rel = _reader_attaches_release(_find(wire_t, "_read_batch_with_log_check"))  # type: ignore[arg-type]

    lines = [
        "/-",
        "C29 — constants and code shapes of the shared-memory side channel (vgi_rpc/shm.py, rpc/_wire.py, rpc/_server.py,",
        "rpc/_client.py).  See extract/gen_c29.py for what each flag means.",
        "-/",
        "namespace VgiVerif.Gen.C29",
        "",
        f"def headerSize : Nat := {header}",
        f"def maxAllocs : Nat := {max_allocs}",
        f"def streamOverhead : Nat := {overhead}",
        f"def defaultMinBatchBytes : Nat := {dflt}",
        f'def minBatchEnv : String := "{env_name}"',
        "",
        "/-- `maybe_write_to_shm`: early returns `shm is None or num_rows == 0`, `nbytes < MIN` (strict), `result is None`, in this order -/",
        f"def guardZeroRows : Bool := {_b(mw['guard_none_or_zero_rows'])}",
        f"def guardStrictLtMin : Bool := {_b(mw['guard_strict_lt_min'])}",
        f"def guardAllocNone : Bool := {_b(mw['guard_alloc_none'])}",
        f"def guardOrderOk : Bool := {_b(mw['order_ok'])}",
        "",
        "/-- `ShmSegment.allocate_and_write`: requested sizes and refusal -/",
        f"def nondictEstimate : Bool := {_b(az['nondict_estimate'])}",
        f"def dictExact : Bool := {_b(az['dict_exact'])}",
        f"def noneOnRefusal : Bool := {_b(az['none_on_refusal'])}",
        "",
        "/-- `resolve_shm_batch.release_fn` -/",
        f"def releaseFreesOffset : Bool := {_b(rc['frees_offset'])}",
        f"def releaseIdempotent : Bool := {_b(rc['idempotent'])}",
        "",
        "/-- `_read_unary_response`: `finally: batch.release()` -/",
        f"def unaryFinallyReleases : Bool := {_b(unary_rel)}",
        "/-- `_read_request`: pointer request resolved; released in `finally` -/",
        f"def requestResolves : Bool := {_b(rr['resolves'])}",
        f"def requestFinallyReleases : Bool := {_b(rr['finally_releases'])}",
        "/-- `_serve_stream` -/",
        f"def serverResolvesInput : Bool := {_b(ss['resolves_input'])}",
        f"def prevReleasedBeforeProcess : Bool := {_b(ss['prev_released_before_process'])}",
        f"def finalReleasedBeforeEos : Bool := {_b(ss['final_released_before_eos'])}",
        f"def coerceFailureReleases : Bool := {_b(ss['coerce_failure_releases'])}",
        "/-- batches that are drained instead of read: server drains free pointer inputs; the client's `_drain_output` releases -/",
        f"def drainFreesPointers : Bool := {_b(dsh['drain_frees'])}",
        f"def clientDrainReleases : Bool := {_b(dsh['client_drain_releases'])}",
        "/-- `_deserialize_from_shm`: stream reader on both paths; the prepended schema message is rebuilt from the given schema -/",
        f"def deserializeStreamReader : Bool := {_b(des['stream_reader'])}",
        f"def schemaMessageUncached : Bool := {_b(des['uncached'])}",
        "/-- senders: every batch passes through `maybe_write_to_shm` when a segment is present -/",
        f"def flushRoutes : Bool := {_b(flush_routes)}",
        f"def resultRoutes : Bool := {_b(result_routes)}",
        f"def inputRoutes : Bool := {_b(input_routes)}",
        "/-- `_read_batch_with_log_check` resolves and attaches the release function -/",
        f"def readerAttachesRelease : Bool := {_b(reader_rel)}",
        "",
        "end VgiVerif.Gen.C29",
        "",
    ]
    return {"C29.lean": "\n".join(lines)}
