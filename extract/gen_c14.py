"""C14: the call-state cache (`_CallStateCache`), its identity key, the AAD identity tail, the expiry comparisons and
the *shape* of the three cache call sites (init warm-up `put`, miss-path `put`, hit-path checks).

Emits ``Gen/C14.lean``.  What is data (literals, comparison operators, which time a cache entry ages from, whether the hit
branch re-applies the declared-call-state-type check) is regenerated; what is control flow (get = expiry delete +
move-to-end, put = insert + move-to-end + evict oldest, the resolution order cursor -> cache -> call token) is *recognised*
by AST pattern and reported as booleans that `Proofs/C14.lean` requires to be true.
"""

from __future__ import annotations

import ast
import hashlib
import os
from pathlib import Path

REPO = Path(os.environ.get("VERIF_REPO", "/repo"))
PROPS = ["C14"]

ST = "vgi_rpc/http/server/_state_token.py"
AS = "vgi_rpc/http/server/_app_stream.py"
AP = "vgi_rpc/http/server/_app.py"

_OPS = {ast.Gt: ">", ast.GtE: "≥", ast.Lt: "<", ast.LtE: "≤", ast.Eq: "=", ast.NotEq: "≠"}


def _chars(data: bytes | str) -> str:
    if isinstance(data, str):
        cps = [ord(c) for c in data]
    else:
        cps = list(data)
        assert all(c < 128 for c in cps), data  # ASCII: the UTF-8 bytes are the code points
    return "[" + ", ".join(f"Char.ofNat {c}" for c in cps) + "]"


def _func(tree: ast.AST, name: str, cls: str | None = None) -> ast.FunctionDef:
    scope: ast.AST = tree
    if cls is not None:
        scope = next(n for n in ast.walk(tree) if isinstance(n, ast.ClassDef) and n.name == cls)
    for n in ast.walk(scope):
        if isinstance(n, ast.FunctionDef) and n.name == name:
            return n
    raise LookupError(f"{cls + '.' if cls else ''}{name} not found")


def _strip_doc(fn: ast.FunctionDef) -> list[ast.stmt]:
    body = list(fn.body)
    if body and isinstance(body[0], ast.Expr) and isinstance(body[0].value, ast.Constant) and isinstance(body[0].value.value, str):
        body = body[1:]
    return body


def _fingerprint(fn: ast.FunctionDef) -> str:
    mod = ast.Module(body=_strip_doc(fn), type_ignores=[])
    return hashlib.sha256(ast.dump(mod, annotate_fields=False, include_attributes=False).encode()).hexdigest()[:16]


def _flatten_add(e: ast.expr) -> list[ast.expr]:
    if isinstance(e, ast.BinOp) and isinstance(e.op, ast.Add):
        return _flatten_add(e.left) + _flatten_add(e.right)
    return [e]


# ------------------------------------------------------------------------------------------ identity key / AAD


def _identity(fn: ast.FunctionDef) -> tuple[str, str]:
    """`_identity`: (anonymous key, separator of f"{auth.domain or ''}<sep>{auth.principal or ''}")."""
    body = _strip_doc(fn)
    if not (len(body) == 2 and isinstance(body[0], ast.If) and isinstance(body[1], ast.Return)):
        raise ValueError("_identity: unexpected body")
    if ast.unparse(body[0].test) != "auth is None or not auth.authenticated":
        raise ValueError("_identity: unexpected anonymous test " + ast.unparse(body[0].test))
    r0 = body[0].body[0]
    if not (isinstance(r0, ast.Return) and isinstance(r0.value, ast.Constant) and isinstance(r0.value.value, str)):
        raise ValueError("_identity: anonymous branch")
    js = body[1].value
    if not (isinstance(js, ast.JoinedStr) and len(js.values) == 3):
        raise ValueError("_identity: f-string shape")
    a, sep, b = js.values
    if not (
        isinstance(a, ast.FormattedValue) and ast.unparse(a.value) == "auth.domain or ''"
        and isinstance(sep, ast.Constant) and isinstance(sep.value, str)
        and isinstance(b, ast.FormattedValue) and ast.unparse(b.value) == "auth.principal or ''"
        and a.conversion == -1 and b.conversion == -1 and a.format_spec is None and b.format_spec is None
    ):
        raise ValueError("_identity: f-string parts")
    return r0.value.value, sep.value


def _aad(fn: ast.FunctionDef) -> tuple[bytes, bytes, bytes, bytes, bytes | None]:
    """`_compute_aad` / `_compute_call_aad`: (prefix, anonymous tail, authenticated tag, separator, method terminator).

    The prefix is a literal, or `literal + method.encode() + literal` (the call token binds the stream method); the last
    component is the literal that ends the method name, `None` when the AAD carries no method.
    """
    body = _strip_doc(fn)
    prefix = None
    anon = tag = sep = None
    method_end: bytes | None = None
    for st in body:
        if isinstance(st, ast.Assign) and ast.unparse(st.targets[0]) == "prefix":
            parts = _flatten_add(st.value)
            if len(parts) == 1 and isinstance(parts[0], ast.Constant):
                prefix = parts[0].value
            elif (
                len(parts) == 3 and isinstance(parts[0], ast.Constant) and ast.unparse(parts[1]) == "method.encode()"
                and isinstance(parts[2], ast.Constant) and [a.arg for a in fn.args.args] == ["auth", "method"]
            ):
                prefix, method_end = parts[0].value, parts[2].value
            else:
                raise ValueError(f"{fn.name}: unexpected prefix {ast.unparse(st.value)}")
        elif isinstance(st, ast.If):
            if ast.unparse(st.test) != "auth is None or not auth.authenticated":
                raise ValueError(f"{fn.name}: unexpected anonymous test")
            parts = _flatten_add(st.body[0].value)  # type: ignore[attr-defined]
            if not (len(parts) == 2 and ast.unparse(parts[0]) == "prefix" and isinstance(parts[1], ast.Constant)):
                raise ValueError(f"{fn.name}: anonymous return")
            anon = parts[1].value
        elif isinstance(st, ast.Return):
            parts = _flatten_add(st.value)  # type: ignore[arg-type]
            if not (
                len(parts) == 5 and ast.unparse(parts[0]) == "prefix" and isinstance(parts[1], ast.Constant)
                and ast.unparse(parts[2]) == "domain" and isinstance(parts[3], ast.Constant) and ast.unparse(parts[4]) == "principal"
            ):
                raise ValueError(f"{fn.name}: authenticated return")
            tag, sep = parts[1].value, parts[3].value
        elif isinstance(st, ast.Assign):
            src = ast.unparse(st)
            if src not in ("domain = (auth.domain or '').encode()", "principal = (auth.principal or '').encode()"):
                raise ValueError(f"{fn.name}: unexpected statement {src}")
    if None in (prefix, anon, tag, sep):
        raise ValueError(f"{fn.name}: incomplete")
    return prefix, anon, tag, sep, method_end  # type: ignore[return-value]


# ------------------------------------------------------------------------------------------ cache get / put


def _get(fn: ast.FunctionDef) -> tuple[str, bool, bool]:
    """`get`: the operator of `if expires_at <op> now:`, whether the rest has the known shape, and whether a hit re-stores
    the entry with `now + ttl` (sliding expiry) before `move_to_end`."""
    op = None
    for n in ast.walk(fn):
        if isinstance(n, ast.If) and isinstance(n.test, ast.Compare) and ast.unparse(n.test.left) == "expires_at":
            if len(n.test.ops) == 1 and ast.unparse(n.test.comparators[0]) == "now":
                op = _OPS[type(n.test.ops[0])]
                dead_body = [ast.unparse(s) for s in n.body]
    if op is None:
        raise ValueError("get: expiry comparison not found")
    body = [ast.unparse(s) for s in _strip_doc(fn)]
    with_body = [ast.unparse(s) for s in _strip_doc(fn)[1].body] if len(_strip_doc(fn)) == 2 and isinstance(_strip_doc(fn)[1], ast.With) else []
    ok = (
        body[:1] == ["key = (call_id, self._identity(auth))"]
        and dead_body == ["del self._entries[key]", "return None"]
        and with_body[:1] == ["entry = self._entries.get(key)"]
        and with_body[1:2] == ["if entry is None:\n    return None"]
        and with_body[2:3] == ["expires_at, resolved = entry"]
        and with_body[4:] in (["self._entries.move_to_end(key)", "return resolved"],
                              ["self._entries[key] = (now + self._ttl, resolved)", "self._entries.move_to_end(key)", "return resolved"])
    )
    refreshes = ok and len(with_body) == 7
    return op, ok, refreshes


def _put(fn: ast.FunctionDef) -> bool:
    body = _strip_doc(fn)
    if not (len(body) == 2 and isinstance(body[1], ast.With)):
        return False
    wb = [ast.unparse(s) for s in body[1].body]
    return ast.unparse(body[0]) == "key = (call_id, self._identity(auth))" and wb == [
        "self._entries[key] = (now + self._ttl, resolved)",
        "self._entries.move_to_end(key)",
        "while len(self._entries) > self._max_entries:\n    self._entries.popitem(last=False)",
    ]


def _entries_locked(fn: ast.FunctionDef) -> bool:
    """Every read or write of `self._entries` in the method is inside a `with self._lock:` block (and there is one)."""
    touched = 0

    def walk(node: ast.AST, locked: bool) -> bool:
        nonlocal touched
        ok = True
        if isinstance(node, ast.Attribute) and node.attr == "_entries" and isinstance(node.value, ast.Name) and node.value.id == "self":
            touched += 1
            if not locked:
                return False
        if isinstance(node, ast.With):
            holds = any(ast.unparse(i.context_expr) == "self._lock" for i in node.items)
            for i in node.items:
                ok = walk(i.context_expr, locked) and ok
            for st in node.body:
                ok = walk(st, locked or holds) and ok
            return ok
        for ch in ast.iter_child_nodes(node):
            ok = walk(ch, locked) and ok
        return ok

    res = all(walk(st, False) for st in _strip_doc(fn))
    return res and touched > 0


def _lock_is_mutex(init: ast.FunctionDef) -> bool:
    """`self._lock = threading.Lock()` (a plain, non-reentrant mutex created per cache)."""
    return any(ast.unparse(st) == "self._lock = threading.Lock()" for st in _strip_doc(init))


# ------------------------------------------------------------------------------------------ token expiry


def _token_expiry(fn: ast.FunctionDef) -> tuple[str, str]:
    """(`token_ttl <op1> 0` guard operator, `int(time.time()) - created_at <op2> token_ttl` operator)."""
    guard = age = None
    for n in ast.walk(fn):
        if isinstance(n, ast.Compare) and len(n.ops) == 1:
            l, r = ast.unparse(n.left), ast.unparse(n.comparators[0])
            if l == "token_ttl" and r == "0":
                guard = _OPS[type(n.ops[0])]
            if l == "int(time.time()) - created_at" and r == "token_ttl":
                age = _OPS[type(n.ops[0])]
    if guard is None or age is None:
        raise ValueError(f"{fn.name}: expiry check not found")
    return guard, age


def _all_raises_uniform(fn: ast.FunctionDef) -> bool:
    """Every `raise` of the function is `raise _token_rejected()` (optionally `from exc`)."""
    raises = [n for n in ast.walk(fn) if isinstance(n, ast.Raise)]
    return bool(raises) and all(n.exc is not None and ast.unparse(n.exc) == "_token_rejected()" for n in raises)


# ------------------------------------------------------------------------------------------ call sites


def _anchor(arg: ast.expr, tree: ast.AST, created_names: tuple[str, ...]) -> str:
    """Which time a `put` ages the entry from: `Anchor.now` | `Anchor.created` (token's created_at when tokens expire)."""
    src = ast.unparse(arg)
    if src in ("now", "time.time()"):
        return "Anchor.now"
    if isinstance(arg, ast.Call) and ast.unparse(arg.func) == "_call_cache_birth" and len(arg.args) == 3:
        helper = _func(tree, "_call_cache_birth")
        hb = _strip_doc(helper)
        if [ast.unparse(s) for s in hb] != ["return float(created_at) if app._token_ttl > 0 else now"]:
            raise ValueError("_call_cache_birth: unexpected body")
        if [a.arg for a in helper.args.args] != ["app", "created_at", "now"]:
            raise ValueError("_call_cache_birth: unexpected parameters")
        if ast.unparse(arg.args[0]) == "app" and ast.unparse(arg.args[1]) in created_names:
            return "Anchor.created"
    raise ValueError(f"cache put: unrecognised time argument {src!r}")


def _sites(tree: ast.AST) -> dict[str, object]:
    init = _func(tree, "_run_stream_init_sync")
    rec = _func(tree, "_unpack_and_recover_state")
    res = _func(tree, "_resolve_call_from_token")

    # ---- init: the call token's created_at and the warm-up put
    init_put = None
    mint_now = None
    for n in ast.walk(init):
        if isinstance(n, ast.Call) and ast.unparse(n.func) == "app._call_state_cache.put":
            init_put = n
        if isinstance(n, ast.Call) and ast.unparse(n.func) == "_mint_call_token":
            kw = {k.arg: ast.unparse(k.value) for k in n.keywords}
            mint_now = kw.get("now")
    if init_put is None or len(init_put.args) != 4:
        raise ValueError("init: warm-up put not found")
    # names that denote the minted token's created_at at the init site
    created_init = ("int(minted_at)",) if mint_now == "int(minted_at)" else ()
    init_anchor = _anchor(init_put.args[3], tree, created_init)
    init_key_ok = [ast.unparse(a) for a in init_put.args[:2]] == ["call_id", "auth"]

    # ---- continuation: order cursor -> cache -> call token -> put ; hit-branch check
    body = _strip_doc(rec)
    srcs = [ast.unparse(s) for s in body]
    order_ok = (
        len(body) >= 4
        and srcs[0].startswith("state_bytes, call_id = _open_cursor_token(token, app._token_key, _compute_aad(auth), app._token_ttl")
        and srcs[1] == "now = time.time()"
        and srcs[2] == "resolved = app._call_state_cache.get(call_id, auth, now)"
        and isinstance(body[3], ast.If)
        and ast.unparse(body[3].test) == "resolved is None"
    )
    if not order_ok:
        raise ValueError("_unpack_and_recover_state: resolution order not recognised")
    branch: ast.If = body[3]  # type: ignore[assignment]
    miss = [ast.unparse(s) for s in branch.body]
    miss_put = None
    for n in ast.walk(branch):
        if isinstance(n, ast.Call) and ast.unparse(n.func) == "app._call_state_cache.put":
            miss_put = n
    if miss_put is None or len(miss_put.args) != 4 or len(miss) != 2 or not any(
        c in miss[0] for c in ("_resolve_call_from_token(app, call_token, call_id, state_info, auth, method_name)",
                               "_resolve_call_from_token(app, call_token, call_id, state_info, auth)")):
        raise ValueError("_unpack_and_recover_state: miss path not recognised")
    miss_passes_method = "auth, method_name)" in miss[0]
    miss_anchor = _anchor(miss_put.args[3], tree, ("created_at",) if miss[0].startswith("resolved, created_at = ") else ())
    miss_key_ok = [ast.unparse(a) for a in miss_put.args[:3]] == ["call_id", "auth", "resolved"]
    # hit branch: nothing (pinned) | the method check and/or the declared-type check, in that order
    hit_checks = False
    hit_method = False
    hit_method_uniform = True
    type_inner = [
        "call_state_type = type(resolved.call_state).__name__",
        "if call_state_type not in _declared_call_state_types(state_info):\n    raise _undeclared_call_state_type(call_state_type)",
    ]
    stmts = list(branch.orelse)
    for o in stmts:
        if not (isinstance(o, ast.If) and not o.orelse):
            raise ValueError("_unpack_and_recover_state: hit branch not recognised")
        test = ast.unparse(o.test)
        inner = [ast.unparse(x) for x in o.body]
        if test == "resolved.method != method_name" and len(inner) == 1 and inner[0].startswith("raise ") and not hit_checks and not hit_method:
            hit_method = True
            hit_method_uniform = inner[0] == "raise _token_rejected()"
        elif test == "resolved.call_state is not None" and inner == type_inner and not hit_checks:
            hit_checks = True
        else:
            raise ValueError("_unpack_and_recover_state: hit branch not recognised: " + test)
    # the state object is decoded only after the call is resolved and cached
    decode_after = any(isinstance(s, ast.Try) and "_deserialize_state_bytes" in ast.unparse(s) for s in body[4:])

    # ---- miss path internals: absent -> open (AAD of the caller, ttl) -> call id compare -> declared type
    rs = [ast.unparse(s) for s in _strip_doc(res)]
    j = "\n".join(rs)
    binds = "(call_token, app._token_key, _compute_call_aad(auth, method_name), app._token_ttl)"
    pos = [
        j.find("if call_token is None:"),
        j.find(binds) if binds in j else j.find("(call_token, app._token_key, _compute_call_aad(auth), app._token_ttl)"),
        j.find("if not secrets.compare_digest(token_call_id, expected_call_id):"),
        j.find("call_state_cls = _declared_call_state_types(state_info).get(call_state_type)"),
    ]
    miss_order_ok = all(p >= 0 for p in pos) and pos == sorted(pos) and "if call_state_bytes:" in j
    # the method is threaded through: the miss path opens the call token under the endpoint's method and caches it with
    # the resolved call; /init mints the token for, and caches, its own method
    mint_args = None
    init_rc = None
    for n in ast.walk(init):
        if isinstance(n, ast.Call) and ast.unparse(n.func) == "_mint_call_token":
            mint_args = [ast.unparse(a) for a in n.args]
        if isinstance(n, ast.Call) and ast.unparse(n.func) == "_ResolvedCall":
            init_rc = [ast.unparse(a) for a in n.args]
    method_threaded = (
        miss_passes_method and binds in j
        and rs[-1].endswith("stream_id, method_name), created_at)")
        and mint_args is not None and mint_args[-1] == "method_name"
        and init_rc is not None and init_rc[-1] == "method_name"
    )
    mismatch_uniform = "if not secrets.compare_digest(token_call_id, expected_call_id):\n    raise _token_rejected()" in j
    return {
        "initAnchor": init_anchor, "missAnchor": miss_anchor, "hitChecksType": hit_checks, "hitChecksMethod": hit_method,
        "methodThreaded": method_threaded, "sitesUniform": hit_method_uniform and mismatch_uniform,
        "keysOk": init_key_ok and miss_key_ok, "decodeAfter": decode_after, "missOrderOk": miss_order_ok,
    }


def _cache_ttl(tree: ast.AST) -> tuple[int, int, int]:
    """(`else` value of `ttl=float(token_ttl) if token_ttl > 0 else X`, default token_ttl, default cache entries)."""
    init = _func(tree, "__init__", "_HttpRpcApp")
    default_ttl = default_entries = None
    args = init.args.args
    defaults = init.args.defaults
    for a, d in zip(args[len(args) - len(defaults):], defaults):
        if a.arg == "token_ttl":
            default_ttl = ast.literal_eval(d)
        if a.arg == "call_state_cache_entries":
            default_entries = ast.literal_eval(d)
    fallback = None
    for n in ast.walk(init):
        if isinstance(n, ast.Call) and ast.unparse(n.func) == "_CallStateCache":
            kw = {k.arg: k.value for k in n.keywords}
            if ast.unparse(kw["max_entries"]) != "call_state_cache_entries":
                raise ValueError("_CallStateCache(max_entries=…) not the constructor argument")
            t = kw["ttl"]
            if not (isinstance(t, ast.IfExp) and ast.unparse(t.test) == "token_ttl > 0" and ast.unparse(t.body) == "float(token_ttl)"):
                raise ValueError("cache ttl expression not recognised")
            fallback = ast.literal_eval(t.orelse)
    if fallback is None or default_ttl is None or default_entries is None or fallback != int(fallback):
        raise ValueError("_HttpRpcApp.__init__: cache construction not recognised")
    return int(fallback), int(default_ttl), int(default_entries)


def emit() -> dict[str, str]:
    st = ast.parse((REPO / ST).read_text())
    as_ = ast.parse((REPO / AS).read_text())
    ap = ast.parse((REPO / AP).read_text())

    anon_key, key_sep = _identity(_func(st, "_identity", "_CallStateCache"))
    cur = _aad(_func(st, "_compute_aad"))
    call = _aad(_func(st, "_compute_call_aad"))
    same_tail = cur[1:4] == call[1:4] and cur[4] is None
    binds_method = call[4] is not None
    get_op, get_ok, get_refreshes = _get(_func(st, "get", "_CallStateCache"))
    put_ok = _put(_func(st, "put", "_CallStateCache"))
    lock_ok = (
        _entries_locked(_func(st, "get", "_CallStateCache")) and _entries_locked(_func(st, "put", "_CallStateCache"))
        and _entries_locked(_func(st, "clear", "_CallStateCache")) and _lock_is_mutex(_func(st, "__init__", "_CallStateCache"))
    )
    open_call_name = "_open_call_token_dated" if any(
        isinstance(n, ast.FunctionDef) and n.name == "_open_call_token_dated" for n in ast.walk(st)) else "_open_call_token"
    g1, a1 = _token_expiry(_func(st, "_open_cursor_token"))
    g2, a2 = _token_expiry(_func(st, open_call_name))
    if (g1, a1) != (g2, a2):
        raise ValueError("cursor and call token use different expiry comparisons")
    sites = _sites(as_)
    uniform = (_all_raises_uniform(_func(st, "_open_cursor_token")) and _all_raises_uniform(_func(st, open_call_name))
               and bool(sites["sitesUniform"]))
    fallback, default_ttl, default_entries = _cache_ttl(ap)
    fps = [
        ("_CallStateCache._identity", _fingerprint(_func(st, "_identity", "_CallStateCache"))),
        ("_CallStateCache.get", _fingerprint(_func(st, "get", "_CallStateCache"))),
        ("_CallStateCache.put", _fingerprint(_func(st, "put", "_CallStateCache"))),
        ("_compute_aad", _fingerprint(_func(st, "_compute_aad"))),
        ("_compute_call_aad", _fingerprint(_func(st, "_compute_call_aad"))),
        ("_open_cursor_token", _fingerprint(_func(st, "_open_cursor_token"))),
        (open_call_name, _fingerprint(_func(st, open_call_name))),
        ("_unpack_and_recover_state", _fingerprint(_func(as_, "_unpack_and_recover_state"))),
        ("_resolve_call_from_token", _fingerprint(_func(as_, "_resolve_call_from_token"))),
    ]
    b = lambda x: str(bool(x)).lower()  # noqa: E731
    fp_text = ",\n".join(f'  ("{n}", "{h}")' for n, h in fps)
    body = f"""namespace VgiVerif.Gen.C14

/-! `_CallStateCache._identity` (vgi_rpc/http/server/_state_token.py) -/

/-- key of an unauthenticated caller: {anon_key!r} -/
def anonKey : List Char := {_chars(anon_key)}
/-- separator in `f"{{auth.domain or ''}}<sep>{{auth.principal or ''}}"`: {key_sep!r} -/
def keySep : List Char := {_chars(key_sep)}

/-! `_compute_aad` / `_compute_call_aad`: `prefix + anonTail`  |  `prefix + userTag + domain + sep + principal` -/

def cursorAadPrefix : List Char := {_chars(cur[0])}
def callAadPrefix : List Char := {_chars(call[0])}
/-- {cur[1]!r} -/
def aadAnonTail : List Char := {_chars(cur[1])}
/-- {cur[2]!r} -/
def aadUserTag : List Char := {_chars(cur[2])}
/-- {cur[3]!r} -/
def aadSep : List Char := {_chars(cur[3])}
/-- both AAD builders use the same identity tail (anonymous literal, tag byte, separator) -/
def aadSameTail : Bool := {b(same_tail)}
/-- `_compute_call_aad(auth, method)`: the prefix is `callAadPrefix + method.encode() + callAadMethodEnd`, i.e. a call
    token opens only at the endpoint of the method it was minted for; and the method name is threaded through
    `_mint_call_token`, both `_ResolvedCall(…, method_name)` constructions and the miss path's `_compute_call_aad` -/
def callAadMethodEnd : List Char := {_chars(call[4] or b"")}
def callBindsMethod : Bool := {b(binds_method and sites["methodThreaded"])}

/-! expiry comparisons -/

/-- `_CallStateCache.get`: `if expires_at {get_op} now:` → the entry is deleted and the lookup is a miss -/
def entryDead (expiresAt now : Nat) : Bool := decide (expiresAt {get_op} now)
/-- `_open_cursor_token` / `{open_call_name}`: `token_ttl {g1} 0` and `int(time.time()) - created_at {a1} token_ttl` -/
def tokenExpired (ttl nowS created : Nat) : Bool := decide (ttl {g1} 0) && decide (nowS - created {a1} ttl)
/-- `_HttpRpcApp.__init__`: `ttl=float(token_ttl) if token_ttl > 0 else {float(fallback)!r}` (seconds) -/
def cacheTtl (tokenTtl : Nat) : Nat := if tokenTtl > 0 then tokenTtl else {fallback}
def defaultTokenTtl : Nat := {default_ttl}
def defaultCacheEntries : Nat := {default_entries}

/-! shape of the cache call sites in vgi_rpc/http/server/_app_stream.py -/

/-- the time a `put` ages an entry from: the request's `now`, or the call token's `created_at`
    (`_call_cache_birth`: `float(created_at) if app._token_ttl > 0 else now`) -/
inductive Anchor where
  | now
  | created
deriving DecidableEq, Repr

structure Shape where
  /-- 4th argument of the warm-up `put` in `_run_stream_init_sync` -/
  initAnchor : Anchor
  /-- 4th argument of the `put` on the miss path of `_unpack_and_recover_state` -/
  missAnchor : Anchor
  /-- the hit branch re-applies the miss path's declared-call-state-type check -/
  hitChecksType : Bool
  /-- the hit branch rejects `resolved.method != method_name` (what the call token's AAD enforces on a miss) -/
  hitChecksMethod : Bool
  /-- `get` re-stores a hit with `now + self._ttl` (sliding expiry) instead of leaving the entry's expiry alone -/
  hitRefreshes : Bool
deriving DecidableEq, Repr

def shape : Shape := {{ initAnchor := {sites["initAnchor"]}, missAnchor := {sites["missAnchor"]}, hitChecksType := {b(sites["hitChecksType"])}, hitChecksMethod := {b(sites["hitChecksMethod"])}, hitRefreshes := {b(get_refreshes)} }}

/-! control flow recognised by AST pattern (required to be `true` by Proofs/C14.lean) -/

/-- `get`: key = (call_id, identity) ; miss → None ; dead → `del` + None ; else [re-store with `now + ttl` iff
    `shape.hitRefreshes`] `move_to_end` + value -/
def getRecognised : Bool := {b(get_ok)}
/-- `put`: `entries[key] = (now + ttl, resolved)` ; `move_to_end(key)` ; `while len > max: popitem(last=False)` -/
def putRecognised : Bool := {b(put_ok)}
/-- lock discipline: `self._lock = threading.Lock()` and every read or write of `self._entries` in `get`, `put` and
    `clear` is inside `with self._lock:` — each call is one critical section, so concurrent requests of a worker see
    `get` / `put` as the atomic steps the model takes -/
def entriesOnlyUnderLock : Bool := {b(lock_ok)}
/-- both `put` call sites key the entry by `(call_id, auth)` of the current request -/
def putKeysRecognised : Bool := {b(sites["keysOk"])}
/-- `_unpack_and_recover_state`: cursor token opened first, then `get`, then (miss) call token, then `put`; state decoded afterwards -/
def resolutionOrderRecognised : Bool := {b(sites["decodeAfter"])}
/-- `_resolve_call_from_token`: absent → open under the caller's AAD with the TTL → call-id compare → declared call-state type -/
def missPathRecognised : Bool := {b(sites["missOrderOk"])}
/-- every failure of `_open_cursor_token` / `{open_call_name}`, the call-id mismatch and the hit branch's method mismatch
    raise the one `_token_rejected()` -/
def tokenRejectionsUniform : Bool := {b(uniform)}

/-- normalised-AST fingerprints of the modelled functions (drift indicator, not an obligation) -/
def fingerprints : List (String × String) := [
{fp_text}
]

end VgiVerif.Gen.C14
"""
    return {"C14.lean": body}
