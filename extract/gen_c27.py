"""C27 (client side): shapes of `_SessionTrackingClient._merge_headers` / `_capture`, `_SessionView.detach` and the exit rule of
`_open_session_view` in vgi_rpc/http/_client.py.  Emits lean/VgiVerif/Gen/StickyClient.lean.
"""

from __future__ import annotations

import ast
import os
from pathlib import Path

from .gen_c25 import Unrecognised, _func, fingerprint, lean_bool, lean_strs

REPO = Path(os.environ.get("VERIF_REPO", "/repo"))
PROPS = ["C27"]
CLIENT = "vgi_rpc/http/_client.py"


def merge_shape(tree: ast.Module) -> dict:
    f = _func(tree, "_merge_headers", "_SessionTrackingClient")
    srcs = [ast.unparse(s) for s in f.body]
    accept = "merged[SESSION_ACCEPT_HEADER] = 'true'" in srcs
    token = False
    for st in f.body:
        if isinstance(st, ast.If) and ast.unparse(st.test) == "self._view._token is not None":
            token = [ast.unparse(b) for b in st.body] == ["merged[SESSION_HEADER] = self._view._token"]
    return {"accept": accept, "token": token}


def capture_shape(tree: ast.Module) -> dict:
    """Ordered effects of `_capture` on the view's token: `set` (VGI-Session present and truthy) / `clear` (close flag)."""
    f = _func(tree, "_capture", "_SessionTrackingClient")
    order: list[str] = []
    close_parse_ok = False
    token_read_ok = False
    set_resets_closed = False
    clear_sets_closed = False
    for st in f.body:
        s = ast.unparse(st)
        if s == "token = hdrs.get(SESSION_HEADER) or hdrs.get(SESSION_HEADER.lower())":
            token_read_ok = True
        if isinstance(st, ast.If):
            t = ast.unparse(st.test)
            body = [ast.unparse(b) for b in st.body]
            if t == "token" and "self._view._token = token" in body:
                order.append("set")
                set_resets_closed = "self._view._closed = False" in body
                extra = [b for b in body if b not in ("self._view._token = token", "self._view._closed = False")]
                if extra:
                    order.append("?set:" + ";".join(extra))
            elif "close_flag" in t and "self._view._token = None" in body:
                order.append("clear")
                close_parse_ok = t == "(close_flag or '').strip().lower() == 'true'"
                clear_sets_closed = "self._view._closed = True" in body
            elif any("_token" in b for b in body):
                order.append("?" + t)
    return {"order": order, "close_parse_ok": close_parse_ok, "token_read_ok": token_read_ok,
            "set_resets_closed": set_resets_closed, "clear_sets_closed": clear_sets_closed}


def verbs_capture(tree: ast.Module) -> list[str]:
    """HTTP verbs of the tracking client that merge the headers and capture the response."""
    out = []
    for verb in ("post", "get", "options", "delete", "put"):
        f = _func(tree, verb, "_SessionTrackingClient")
        srcs = [ast.unparse(s) for s in f.body]
        if any("self._merge_headers(" in s for s in srcs) and "self._capture(resp)" in srcs:
            out.append(verb)
    return out


def exit_shape(tree: ast.Module) -> dict:
    f = _func(tree, "_open_session_view")
    ok = False
    for n in ast.walk(f):
        if isinstance(n, ast.If) and ast.unparse(n.test) == "not view._closed and view._token is not None":
            ok = [ast.unparse(b) for b in n.body] == ["outer._delete_session_best_effort(view._token)"]
    d = _func(tree, "detach", "_SessionView")
    dsrc = [ast.unparse(s) for s in d.body]
    detach_ok = "token = self._token" in dsrc and "self._token = None" in dsrc and "return token" in dsrc
    return {"exit_ok": ok, "detach_ok": detach_ok}


def emit() -> dict[str, str]:
    tree = ast.parse((REPO / CLIENT).read_text())
    m = merge_shape(tree)
    c = capture_shape(tree)
    e = exit_shape(tree)
    if not c["order"]:
        raise Unrecognised("_capture: no token update recognised")
    fps = [(f"{CLIENT}:{cls}.{name}" if cls else f"{CLIENT}:{name}", fingerprint(_func(tree, name, cls)))
           for name, cls in [("_merge_headers", "_SessionTrackingClient"), ("_capture", "_SessionTrackingClient"),
                             ("post", "_SessionTrackingClient"), ("detach", "_SessionView"), ("_open_session_view", None)]]
    body = f"""namespace VgiVerif.Gen.StickyClient

/-! `{CLIENT}` — `_SessionTrackingClient` -/
/-- `_merge_headers` always sends `VGI-Session-Accept: true` -/
def sendsAccept : Bool := {lean_bool(m["accept"])}
/-- `_merge_headers` sends `VGI-Session: <token>` iff the view's token is not None -/
def sendsTokenIffHeld : Bool := {lean_bool(m["token"])}
/-- effects of `_capture` on the view token, in source order: "set" (VGI-Session present), "clear" (VGI-Session-Close: true) -/
def captureOrder : List String := {lean_strs(c["order"])}
/-- header reads: `hdrs.get(SESSION_HEADER) or hdrs.get(SESSION_HEADER.lower())`, `(close_flag or "").strip().lower() == "true"` -/
def captureReadsOk : Bool := {lean_bool(c["token_read_ok"] and c["close_parse_ok"])}
/-- the "set" branch also resets the view's `_closed` flag -/
def setResetsClosedFlag : Bool := {lean_bool(c["set_resets_closed"])}
/-- the "clear" branch sets the view's `_closed` flag -/
def clearSetsClosedFlag : Bool := {lean_bool(c["clear_sets_closed"])}
/-- verbs that merge the session headers and capture the response -/
def capturingVerbs : List String := {lean_strs(verbs_capture(tree))}
/-- exit of `with_session_token()`: `if not view._closed and view._token is not None: DELETE` -/
def exitDeleteRuleOk : Bool := {lean_bool(e["exit_ok"])}
def detachOk : Bool := {lean_bool(e["detach_ok"])}

/-- normalised-AST fingerprints of the transliterated client functions -/
def fingerprints : List (String × String) := [
{",\n".join(f'  ("{a}", "{b}")' for a, b in fps)}
]

end VgiVerif.Gen.StickyClient
"""
    return {"StickyClient.lean": body}
