"""C43: the XFCC parser of vgi_rpc/http/_mtls.py — constants, regexes, condition shapes and interpreter tables.

What is regenerated into ``lean/VgiVerif/Gen/Xfcc.lean`` from the working tree:

* ``_split_respecting_quotes``: quote / escape characters and *which conjuncts guard the escape and the delimiter
  branch* (``in_quotes`` / ``not in_quotes``) — the Lean splitter is parametric in those two flags, so dropping a
  guard in the source changes the model and un-proves the theorems;
* ``_parse_xfcc``: element / pair / key-value separators, the value-quote character, the URL-decoded key tuple, the
  list-valued key and the six ``fields.get(...)`` names (whole-function template, constants are holes);
* ``_unescape_quoted``: the ``re.sub`` pattern (through ``regex_to_lean``) and that the replacement is group 1 = the
  last matched character;
* ``_extract_cn``: the ``re.split`` separator and its one-character negative look-behind, the prefix literal, the slice;
* ``authenticate`` inside ``mtls_authenticate_xfcc``: which ``AuthReason`` each rejection raises, the selection
  expression (literal compared, the two indices), the claim names in insertion order;
* interpreter tables asked of *this* CPython: ``str.strip()`` whitespace, code points whose ``lower()`` is one ASCII
  character, code points whose ``upper()`` starts with a character of the CN prefix.
"""

from __future__ import annotations

import ast
import os
import re
from pathlib import Path

from .regex_to_lean import Unsupported, pattern_to_lean

REPO = Path(os.environ.get("VERIF_REPO", "/repo"))
PROPS = ["C43"]
SRC = "vgi_rpc/http/_mtls.py"

_parser = re._parser  # type: ignore[attr-defined]
_c = re._constants  # type: ignore[attr-defined]


# ------------------------------------------------------------------------------------------------ helpers


def _strip_doc(fn: ast.FunctionDef) -> ast.FunctionDef:
    if fn.body and isinstance(fn.body[0], ast.Expr) and isinstance(fn.body[0].value, ast.Constant) and isinstance(fn.body[0].value.value, str):
        fn.body = fn.body[1:]
    return fn


def _functions(tree: ast.Module) -> dict[str, ast.FunctionDef]:
    out: dict[str, ast.FunctionDef] = {}
    for n in ast.walk(tree):
        if isinstance(n, ast.FunctionDef):
            if n.name == "authenticate" and "_parse_xfcc" not in ast.unparse(n):
                continue
            out.setdefault(n.name, n)
    return out


_HOLE = re.compile(r"⟦(#?)([A-Za-z0-9_]+)⟧")
_PYSTR = r"""(?:'(?:[^'\\\n]|\\.)*'|"(?:[^"\\\n]|\\.)*")"""


def _match_template(template: str, text: str) -> dict[str, object] | None:
    """Match normalised source against a template; ⟦NAME⟧ = a string literal, ⟦#NAME⟧ = an integer literal."""
    rx = ""
    pos = 0
    for m in _HOLE.finditer(template):
        rx += re.escape(template[pos : m.start()])
        rx += f"(?P<{m.group(2)}>-?\\d+)" if m.group(1) else f"(?P<{m.group(2)}>{_PYSTR})"
        pos = m.end()
    rx += re.escape(template[pos:])
    mm = re.fullmatch(rx, text, re.S)
    if not mm:
        return None
    out: dict[str, object] = {}
    for k, v in mm.groupdict().items():
        out[k] = ast.literal_eval(v)
    return out


def _chr(s: object) -> int | None:
    return ord(s) if isinstance(s, str) and len(s) == 1 else None


def lean_chars(s: str) -> str:
    return "[" + ", ".join(f"Char.ofNat {ord(c)}" for c in s) + "]"


def lean_bool(b: bool) -> str:
    return "true" if b else "false"


# ------------------------------------------------------------------------------------------------ splitter

SPLIT_HEAD = """def _split_respecting_quotes(text: str, delimiter: str) -> list[str]:
    parts: list[str] = []
    current: list[str] = []
    in_quotes = False
    i = 0
    while i < len(text):
        ch = text[i]
        if ch == ⟦QUOTE⟧:
            in_quotes = not in_quotes
            current.append(ch)
        elif ⟪ESC⟫:
            current.append(ch)
            current.append(text[i + 1])
            i += 1
        elif ⟪DELIM⟫:
            parts.append(''.join(current))
            current = []
        else:
            current.append(ch)
        i += 1
    parts.append(''.join(current))
    return parts"""


def _splitter(fn: ast.FunctionDef | None) -> dict[str, object]:
    base = {"recognised": False, "quote": 34, "escape": 92, "esc_needs_quote": True, "delim_needs_unquoted": True}
    if fn is None:
        return base
    text = ast.unparse(_strip_doc(fn))
    # the two guards are matched conjunct-wise
    m = re.search(r"\n        elif (?P<esc>.*?):\n            current\.append\(ch\)\n            current\.append\(text\[i \+ 1\]\)", text)
    m2 = re.search(r"\n        elif (?P<del>.*?):\n            parts\.append\(''\.join\(current\)\)", text)
    if not m or not m2:
        return base
    esc_src, del_src = m.group("esc"), m2.group("del")
    templ = SPLIT_HEAD.replace("⟪ESC⟫", esc_src).replace("⟪DELIM⟫", del_src)
    got = _match_template(templ, text)
    if got is None or _chr(got["QUOTE"]) is None:
        return base

    def conjuncts(src: str) -> list[str]:
        t = ast.parse(src, mode="eval").body
        vals = t.values if isinstance(t, ast.BoolOp) and isinstance(t.op, ast.And) else [t]
        return [ast.unparse(v) for v in vals]

    ec = conjuncts(esc_src)
    esc_char = None
    rest = []
    for cj in ec:
        mm = re.fullmatch(rf"ch == ({_PYSTR})", cj)
        if mm and esc_char is None:
            esc_char = _chr(ast.literal_eval(mm.group(1)))
        else:
            rest.append(cj)
    if esc_char is None or "i + 1 < len(text)" not in rest:
        return base  # without the look-ahead guard the code would raise IndexError: not a shape the model has
    rest.remove("i + 1 < len(text)")
    if rest not in ([], ["in_quotes"]):
        return base
    dc = conjuncts(del_src)
    if dc[:1] != ["ch == delimiter"] or dc[1:] not in ([], ["not in_quotes"]):
        return base
    return {
        "recognised": True,
        "quote": _chr(got["QUOTE"]),
        "escape": esc_char,
        "esc_needs_quote": rest == ["in_quotes"],
        "delim_needs_unquoted": dc[1:] == ["not in_quotes"],
    }


# ------------------------------------------------------------------------------------------------ _parse_xfcc

PARSE_T = """def _parse_xfcc(header_value: str) -> list[XfccElement]:
    elements: list[XfccElement] = []
    for raw_element in _split_respecting_quotes(header_value, ⟦ELEM⟧):
        raw_element = raw_element.strip()
        if not raw_element:
            continue
        pairs = _split_respecting_quotes(raw_element, ⟦PAIR⟧)
        fields: dict[str, str | list[str]] = {}
        for pair in pairs:
            pair = pair.strip()
            if not pair:
                continue
            eq_idx = pair.find(⟦KV⟧)
            if eq_idx < 0:
                continue
            key = pair[:eq_idx].strip().lower()
            value = pair[eq_idx + 1:].strip()
            if len(value) >= 2 and value[0] == ⟦Q1⟧ and (value[-1] == ⟦Q2⟧):
                value = _unescape_quoted(value[1:-1])
            if key in ⟪UNQ⟫:
                value = unquote(value)
            if key == ⟦LISTKEY⟧:
                dns_list = fields.get(⟦LISTKEY2⟧)
                if isinstance(dns_list, list):
                    dns_list.append(value)
                else:
                    fields[⟦LISTKEY3⟧] = [value]
            else:
                fields[key] = value
        dns_val = fields.get(⟦K_DNS⟧)
        dns_tuple: tuple[str, ...] = ()
        if isinstance(dns_val, list):
            dns_tuple = tuple(dns_val)
        hash_val = fields.get(⟦K_HASH⟧)
        cert_val = fields.get(⟦K_CERT⟧)
        subject_val = fields.get(⟦K_SUBJECT⟧)
        uri_val = fields.get(⟦K_URI⟧)
        by_val = fields.get(⟦K_BY⟧)
        elements.append(XfccElement(hash=hash_val if isinstance(hash_val, str) else None, cert=cert_val if isinstance(cert_val, str) else None, subject=subject_val if isinstance(subject_val, str) else None, uri=uri_val if isinstance(uri_val, str) else None, dns=dns_tuple, by=by_val if isinstance(by_val, str) else None))
    return elements"""

PARSE_BASE = {
    "recognised": False, "elem": 44, "pair": 59, "kv": 61, "vquote": 34, "unq": ["cert", "uri", "by"], "listkey": "dns",
    "hash": "hash", "cert": "cert", "subject": "subject", "uri": "uri", "dns": "dns", "by": "by",
}


def _parse(fn: ast.FunctionDef | None) -> dict[str, object]:
    if fn is None:
        return dict(PARSE_BASE)
    text = ast.unparse(_strip_doc(fn))
    m = re.search(r"\n            if key in (?P<t>\(.*?\)|\[.*?\]):\n                value = unquote\(value\)", text)
    if not m:
        return dict(PARSE_BASE)
    try:
        unq = ast.literal_eval(m.group("t"))
    except Exception:
        return dict(PARSE_BASE)
    if not all(isinstance(x, str) for x in unq):
        return dict(PARSE_BASE)
    got = _match_template(PARSE_T.replace("⟪UNQ⟫", m.group("t")), text)
    if got is None:
        return dict(PARSE_BASE)
    ok = (
        all(_chr(got[k]) is not None for k in ("ELEM", "PAIR", "KV", "Q1", "Q2"))
        and got["Q1"] == got["Q2"]
        and got["LISTKEY"] == got["LISTKEY2"] == got["LISTKEY3"] == got["K_DNS"]
        and len({got[k] for k in ("K_HASH", "K_CERT", "K_SUBJECT", "K_URI", "K_BY", "K_DNS")}) == 6
    )
    if not ok:
        return dict(PARSE_BASE)
    return {
        "recognised": True, "elem": _chr(got["ELEM"]), "pair": _chr(got["PAIR"]), "kv": _chr(got["KV"]), "vquote": _chr(got["Q1"]),
        "unq": list(unq), "listkey": got["LISTKEY"], "hash": got["K_HASH"], "cert": got["K_CERT"], "subject": got["K_SUBJECT"],
        "uri": got["K_URI"], "dns": got["K_DNS"], "by": got["K_BY"],
    }


# ------------------------------------------------------------------------------------------------ _unescape_quoted

UNESC_T = """def _unescape_quoted(text: str) -> str:
    return re.sub(⟦PAT⟧, ⟦REPL⟧, text)"""
UNESC_BASE_PAT = r"\\(.)"


def _unescape(fn: ast.FunctionDef | None) -> dict[str, object]:
    base = {"recognised": False, "pattern": UNESC_BASE_PAT, "lean": pattern_to_lean(UNESC_BASE_PAT, 0)}
    if fn is None:
        return base
    got = _match_template(UNESC_T, ast.unparse(_strip_doc(fn)))
    if got is None:
        return base
    pat, repl = got["PAT"], got["REPL"]
    if not isinstance(pat, str) or repl != "\\1":
        return base
    try:
        tree = list(_parser.parse(pat, 0))
        lean = pattern_to_lean(pat, 0)
    except (Unsupported, re.error):
        return base
    # shape: one or more single-character atoms, the *last* of which is exactly capture group 1 (so `\1` = the last matched char)
    single = (_c.LITERAL, _c.NOT_LITERAL, _c.ANY, _c.IN)
    if len(tree) != 2 or tree[0][0] not in single:
        return base
    op, av = tree[1]
    if op is not _c.SUBPATTERN or av[0] != 1 or av[1] or av[2] or len(av[3]) != 1 or av[3][0][0] not in single:
        return base
    return {"recognised": True, "pattern": pat, "lean": lean}


# ------------------------------------------------------------------------------------------------ _extract_cn

CN_T = """def _extract_cn(subject: str) -> str:
    for part in re.split(⟦PAT⟧, subject):
        part = part.strip()
        if part.upper().startswith(⟦PREFIX⟧):
            return part[⟦#START⟧:]
    return ''"""


def _cn(fn: ast.FunctionDef | None) -> dict[str, object]:
    base = {"recognised": False, "sep": 44, "not_after": 92, "prefix": "CN=", "start": 3, "pattern": r"(?<!\\),"}
    if fn is None:
        return base
    got = _match_template(CN_T, ast.unparse(_strip_doc(fn)))
    if got is None or not isinstance(got["PAT"], str) or not isinstance(got["PREFIX"], str) or int(got["START"]) < 0:  # type: ignore[call-overload]
        return base
    try:
        tree = list(_parser.parse(got["PAT"], 0))
    except re.error:
        return base
    # shape: (?<!X)Y with single literal characters X, Y
    if len(tree) != 2 or tree[0][0] is not _c.ASSERT_NOT or tree[1][0] is not _c.LITERAL:
        return base
    direction, sub = tree[0][1]
    sub = list(sub)
    if direction != -1 or len(sub) != 1 or sub[0][0] is not _c.LITERAL:
        return base
    return {"recognised": True, "sep": tree[1][1], "not_after": sub[0][1], "prefix": got["PREFIX"], "start": int(got["START"]),  # type: ignore[call-overload]
            "pattern": got["PAT"]}


# ------------------------------------------------------------------------------------------------ authenticate

AUTH_T = """def authenticate(req: falcon.Request) -> AuthContext:
    header_value = req.get_header(_XFCC_HEADER)
    if not header_value:
        raise AuthFailure(AuthReason.⟪R_MISSING⟫, f'Missing {_XFCC_HEADER} header')
    elements = _parse_xfcc(header_value)
    if not elements:
        raise AuthFailure(AuthReason.⟪R_EMPTY⟫, f'Empty {_XFCC_HEADER} header')
    element = elements[⟦#I_THEN⟧] if select_element == ⟦SEL⟧ else elements[⟦#I_ELSE⟧]
    if validate is not None:
        return validate(element)
    principal = _extract_cn(element.subject) if element.subject else ''
    claims: dict[str, object] = {}
    if element.hash:
        claims[⟦C_HASH⟧] = element.hash
    if element.subject:
        claims[⟦C_SUBJECT⟧] = element.subject
    if element.uri:
        claims[⟦C_URI⟧] = element.uri
    if element.dns:
        claims[⟦C_DNS⟧] = list(element.dns)
    if element.by:
        claims[⟦C_BY⟧] = element.by
    return AuthContext(domain=domain, authenticated=True, principal=principal, claims=claims)"""


def _auth(fn: ast.FunctionDef | None, outer: ast.FunctionDef | None) -> dict[str, object]:
    base = {"recognised": False, "missing": "proxy_required", "empty": "invalid_credential", "sel": "first", "then": 0, "else": -1,
            "claims": ["hash", "subject", "uri", "dns", "by"], "header": "x-forwarded-client-cert"}
    if fn is None or outer is None:
        return base
    text = ast.unparse(_strip_doc(fn))
    m1 = re.search(r"raise AuthFailure\(AuthReason\.(\w+), f'Missing", text)
    m2 = re.search(r"raise AuthFailure\(AuthReason\.(\w+), f'Empty", text)
    if not m1 or not m2:
        return base
    got = _match_template(AUTH_T.replace("⟪R_MISSING⟫", m1.group(1)).replace("⟪R_EMPTY⟫", m2.group(1)), text)
    if got is None or not isinstance(got["SEL"], str):
        return base
    # the factory returns this closure, declared as depending on the XFCC header
    if ast.unparse(outer.body[-1]) != "return declare_proxy_headers(authenticate, _XFCC_HEADER)":
        return base
    from vgi_rpc.http import _mtls
    from vgi_rpc.http._unauthorized import AuthReason

    try:
        missing = AuthReason[m1.group(1)].value
        empty = AuthReason[m2.group(1)].value
    except KeyError:
        return base
    claims = [got[k] for k in ("C_HASH", "C_SUBJECT", "C_URI", "C_DNS", "C_BY")]
    if not all(isinstance(x, str) for x in claims) or len(set(claims)) != 5:  # type: ignore[arg-type]
        return base
    return {"recognised": True, "missing": missing, "empty": empty, "sel": got["SEL"], "then": int(got["I_THEN"]),  # type: ignore[call-overload]
            "else": int(got["I_ELSE"]), "claims": claims, "header": _mtls._XFCC_HEADER}  # type: ignore[call-overload]


# ------------------------------------------------------------------------------------------------ interpreter tables


def _code_points() -> range:
    return range(0x110000)


def _space_ranges() -> list[tuple[int, int]]:
    out: list[list[int]] = []
    for cp in _code_points():
        if 0xD800 <= cp <= 0xDFFF:
            continue
        if chr(cp).strip() == "":
            if out and out[-1][1] == cp - 1:
                out[-1][1] = cp
            else:
                out.append([cp, cp])
    return [(a, b) for a, b in out]


def _lower_ascii() -> list[tuple[int, int]]:
    """Code points c with ``chr(c).lower() != chr(c)`` and an all-ASCII result (must be one character)."""
    out = []
    for cp in _code_points():
        if 0xD800 <= cp <= 0xDFFF:
            continue
        lo = chr(cp).lower()
        if lo != chr(cp) and lo.isascii():
            if len(lo) != 1:
                raise Unsupported(f"lower() of U+{cp:04X} is a multi-character ASCII string")
            out.append((cp, ord(lo)))
    return out


def _upper_table(prefix: str) -> list[tuple[int, list[int]]]:
    """Code points whose ``upper()`` starts with a character of *prefix* (everything else cannot take part in a match)."""
    out = []
    want = set(prefix)
    for cp in _code_points():
        if 0xD800 <= cp <= 0xDFFF:
            continue
        up = chr(cp).upper()
        if up[:1] in want:
            out.append((cp, [ord(x) for x in up]))
    return out


# ------------------------------------------------------------------------------------------------ emit


def emit() -> dict[str, str]:
    tree = ast.parse((REPO / SRC).read_text())
    fns = _functions(tree)
    sp = _splitter(fns.get("_split_respecting_quotes"))
    pa = _parse(fns.get("_parse_xfcc"))
    un = _unescape(fns.get("_unescape_quoted"))
    cn = _cn(fns.get("_extract_cn"))
    au = _auth(fns.get("authenticate"), fns.get("mtls_authenticate_xfcc"))
    spaces = _space_ranges()
    lower = _lower_ascii()
    upper = _upper_table(str(cn["prefix"]))

    def c(n: object) -> str:
        return f"Char.ofNat {int(n)}"  # type: ignore[call-overload]

    unq_keys = ", ".join(lean_chars(k) for k in pa["unq"])  # type: ignore[union-attr]
    claims = ", ".join('"' + str(x).replace("\\", "\\\\").replace('"', '\\"') + '"' for x in au["claims"])  # type: ignore[union-attr]
    upper_l = ", ".join(f"({cp}, {u})" for cp, u in upper)
    body = f"""import VgiVerif.Prelude.Regex
namespace VgiVerif.Gen.Xfcc
open VgiVerif.Regex

/-! extracted from `{SRC}` -/

/-- `_XFCC_HEADER` -/
def headerName : List Char := {lean_chars(str(au["header"]))}

/-! ### `_split_respecting_quotes` -/
/-- the function has the four-branch loop shape the model transliterates -/
def splitRecognised : Bool := {lean_bool(bool(sp["recognised"]))}
def quoteChar : Char := {c(sp["quote"])}
def escapeChar : Char := {c(sp["escape"])}
/-- the escape branch is guarded by `in_quotes` -/
def escNeedsQuote : Bool := {lean_bool(bool(sp["esc_needs_quote"]))}
/-- the delimiter branch is guarded by `not in_quotes` -/
def delimNeedsUnquoted : Bool := {lean_bool(bool(sp["delim_needs_unquoted"]))}

/-! ### `_parse_xfcc` -/
def parseRecognised : Bool := {lean_bool(bool(pa["recognised"]))}
def elemDelim : Char := {c(pa["elem"])}
def pairDelim : Char := {c(pa["pair"])}
def kvSep : Char := {c(pa["kv"])}
/-- `len(value) >= 2 and value[0] == Q and value[-1] == Q` → `_unescape_quoted(value[1:-1])` -/
def valueQuote : Char := {c(pa["vquote"])}
/-- `if key in (...)`: values passed through `urllib.parse.unquote` -/
def unquoteKeys : List (List Char) := [{unq_keys}]
/-- the key whose values accumulate in a list -/
def listKey : List Char := {lean_chars(str(pa["listkey"]))}
def keyHash : List Char := {lean_chars(str(pa["hash"]))}
def keyCert : List Char := {lean_chars(str(pa["cert"]))}
def keySubject : List Char := {lean_chars(str(pa["subject"]))}
def keyUri : List Char := {lean_chars(str(pa["uri"]))}
def keyDns : List Char := {lean_chars(str(pa["dns"]))}
def keyBy : List Char := {lean_chars(str(pa["by"]))}

/-! ### `_unescape_quoted` = `re.sub({un["pattern"]!r}, r"\\1", text)` -/
/-- pattern is two single-character atoms, the second one is capture group 1, replacement is `\\1` -/
def unescapeRecognised : Bool := {lean_bool(bool(un["recognised"]))}
def unescapePat : Pat :=
  {un["lean"]}

/-! ### `_extract_cn`: `re.split({cn["pattern"]!r}, subject)`, `part.upper().startswith({cn["prefix"]!r})`, `part[{cn["start"]}:]` -/
def cnRecognised : Bool := {lean_bool(bool(cn["recognised"]))}
def cnSep : Char := {c(cn["sep"])}
/-- the one-character negative look-behind -/
def cnNotAfter : Char := {c(cn["not_after"])}
def cnPrefix : List Char := {lean_chars(str(cn["prefix"]))}
def cnSliceStart : Nat := {int(cn["start"])}

/-! ### `authenticate` (closure of `mtls_authenticate_xfcc`) -/
def authRecognised : Bool := {lean_bool(bool(au["recognised"]))}
/-- `.value` of the `AuthReason` raised for `not header_value` -/
def missingReason : String := "{au["missing"]}"
/-- `.value` of the `AuthReason` raised for `not elements` -/
def emptyReason : String := "{au["empty"]}"
/-- `elements[selectThen] if select_element == selectLiteral else elements[selectElse]` -/
def selectLiteral : List Char := {lean_chars(str(au["sel"]))}
def selectThen : Int := {int(au["then"])}
def selectElse : Int := {int(au["else"])}
/-- claim names in insertion order (hash, subject, uri, dns, by attributes) -/
def claimNames : List String := [{claims}]

/-! ### CPython tables (asked of the running interpreter) -/
/-- code points removed by `str.strip()` -/
def spaceRanges : List (Nat × Nat) := {[(a, b) for a, b in spaces]}
/-- every code point whose `lower()` differs from it and is ASCII (always one character) -/
def lowerAscii : List (Nat × Nat) := {lower}
/-- every code point whose `upper()` starts with a character of `cnPrefix`, with that `upper()` -/
def upperTable : List (Nat × List Nat) := [{upper_l}]

end VgiVerif.Gen.Xfcc
"""
    return {"Xfcc.lean": body}
