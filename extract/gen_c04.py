"""C04: the *shapes* of the drain / error-reply structure the connection model depends on.

Everything here is an AST fact about vgi_rpc/rpc/_server.py, _client.py, _wire.py:
  * where `_drain_refused_stream_input` is called (version gate, parameter validation, stream-init failure, unknown method)
    and under which guard it actually drains;
  * whether a non-Stream / header-less result is turned into an init error inside the init `try`;
  * which exceptions `StreamSession._drain_output` steps over, and whether it survives an exception of the log callback;
  * whether `_read_unary_response` / `_read_header_batch` drain when the callback raises, and whether the stream caller
    closes the server-side stream when the header read is aborted by the callback;
  * structural facts the model hard-codes (tick/exchange close the session on error, final input drain, request drained
    before validation, ...) — emitted as a named list that the proofs require to be all-true.
The Lean model (Model/C04.lean) branches on `Gen.C04.shape`; the theorems are stated over it.
"""

from __future__ import annotations

import ast
import os
from pathlib import Path

REPO = Path(os.environ.get("VERIF_REPO", "/repo"))
PROPS = ["C04"]


def _func(tree: ast.AST, name: str) -> ast.FunctionDef:
    for n in ast.walk(tree):
        if isinstance(n, (ast.FunctionDef, ast.AsyncFunctionDef)) and n.name == name:
            return n  # type: ignore[return-value]
    raise LookupError(name)


def _calls(node: ast.AST | list[ast.stmt]) -> list[str]:
    """Dotted names of every call inside node(s), in source order."""
    out: list[tuple[int, int, str]] = []
    nodes = node if isinstance(node, list) else [node]
    for nd in nodes:
        for n in ast.walk(nd):
            if isinstance(n, ast.Call):
                out.append((n.lineno, n.col_offset, ast.unparse(n.func)))
    return [x[2] for x in sorted(out)]


def _has(node: ast.AST | list[ast.stmt], kind: type) -> bool:
    nodes = node if isinstance(node, list) else [node]
    return any(isinstance(n, kind) for nd in nodes for n in ast.walk(nd))


def _handler_names(h: ast.ExceptHandler) -> list[str]:
    if h.type is None:
        return ["<bare>"]
    if isinstance(h.type, ast.Tuple):
        return [ast.unparse(e) for e in h.type.elts]
    return [ast.unparse(h.type)]


def _handler(t: ast.Try, name: str) -> ast.ExceptHandler | None:
    for h in t.handlers:
        if name in _handler_names(h):
            return h
    return None


def _trys(fn: ast.AST) -> list[ast.Try]:
    return [n for n in ast.walk(fn) if isinstance(n, ast.Try)]


def _innermost(ts: list[ast.Try]) -> list[ast.Try]:
    """Of nested candidates keep the smallest one (the `try` that directly guards the call)."""
    if len(ts) <= 1:
        return ts
    return [min(ts, key=lambda t: sum(1 for _ in ast.walk(t)))]


def _reply_drain_return(body: list[ast.stmt]) -> tuple[bool, bool]:
    """(writes an error stream and returns, calls _drain_refused_stream_input between the two)."""
    calls = _calls(body)
    writes = "_write_error_stream" in calls
    returns = bool(body) and isinstance(body[-1], ast.Return)
    drains = False
    if writes and "self._drain_refused_stream_input" in calls:
        drains = calls.index("self._drain_refused_stream_input") > calls.index("_write_error_stream")
    return writes and returns, drains


def server_shapes() -> dict[str, bool]:
    tree = ast.parse((REPO / "vgi_rpc/rpc/_server.py").read_text())
    s1 = _func(tree, "serve_one")
    out: dict[str, bool] = {}
    # version gate
    vt = [t for t in _trys(s1) if _handler(t, "ProtocolVersionError") is not None]
    ok, dr = _reply_drain_return(_handler(vt[0], "ProtocolVersionError").body) if len(vt) == 1 else (False, False)  # type: ignore[union-attr]
    out["versionRepliesAndReturns"], out["drainVersion"] = ok, dr
    # parameter validation
    pt = [t for t in _trys(s1) if "_deserialize_params" in _calls(t.body) and _handler(t, "Exception") is not None]
    ok, dr = _reply_drain_return(_handler(pt[0], "Exception").body) if len(pt) == 1 else (False, False)  # type: ignore[union-attr]
    out["paramsReplyAndReturn"], out["drainParams"] = ok, dr
    # unknown method
    unk = [n for n in ast.walk(s1) if isinstance(n, ast.If) and ast.unparse(n.test) == "info is None"]
    ok, dr = _reply_drain_return(unk[0].body) if len(unk) == 1 else (False, False)
    out["unknownRepliesAndReturns"], out["drainUnknown"] = ok, dr
    # _read_request try: (VersionError, RpcError) -> reply + return ; ArrowInvalid -> reply + raise
    rt = _innermost([t for t in _trys(s1) if "_read_request" in _calls(t.body)])
    ok = False
    if len(rt) == 1:
        h1, h2 = _handler(rt[0], "pa.ArrowInvalid"), _handler(rt[0], "RpcError")
        ok = (h1 is not None and "_write_error_stream" in _calls(h1.body) and isinstance(h1.body[-1], ast.Raise)
              and h2 is not None and "VersionError" in _handler_names(h2) and "_write_error_stream" in _calls(h2.body)
              and isinstance(h2.body[-1], ast.Return))
    out["readRequestHandlers"] = ok
    # _serve_stream
    ss = _func(tree, "_serve_stream")
    it = [t for t in _trys(ss) if any(isinstance(s, (ast.Assign, ast.AnnAssign)) and "getattr(self._impl, info.name)" in ast.unparse(s)
                                      for s in t.body)]
    init_checks = drain_init = init_reply = False
    if len(it) == 1:
        t = it[0]
        tests = [ast.unparse(n.test) for n in t.body if isinstance(n, ast.If) and _has(n.body, ast.Raise)]
        init_checks = ("not isinstance(result, Stream)" in tests
                       and "info.header_type is not None and result.header is None" in tests)
        h = _handler(t, "Exception")
        if h is not None:
            init_reply, drain_init = _reply_drain_return(h.body)
    out["initChecks"], out["initRepliesAndReturns"], out["drainInit"] = init_checks, init_reply, drain_init
    # the init error stream carries the client logs buffered before the failure (`_write_error_stream(..., sink=sink)`)
    flush_init = False
    if len(it) == 1 and _handler(it[0], "Exception") is not None:
        for n in ast.walk(_handler(it[0], "Exception")):  # type: ignore[arg-type]
            if isinstance(n, ast.Call) and ast.unparse(n.func) == "_write_error_stream":
                flush_init = any(k.arg == "sink" and ast.unparse(k.value) == "sink" for k in n.keywords)
    out["initErrorFlushesLogs"] = flush_init
    # the loop's `except Exception` writes the failed process() call's log batches ahead of the error batch
    flush_fail = False
    for t in _trys(ss):
        h = _handler(t, "Exception")
        if h is not None and "_write_error_batch" in _calls(h.body):
            c = _calls(h.body)
            flush_fail = "_flush_collector_logs" in c and c.index("_flush_collector_logs") < c.index("_write_error_batch")
    out["failFlushesLogs"] = flush_fail
    # header written outside any try, before the input reader is opened
    top = [ast.unparse(s)[:60] for s in ss.body]
    hdr_i = next((i for i, s in enumerate(ss.body) if isinstance(s, ast.If) and "_write_stream_header" in _calls(s)), -1)
    rdr_i = next((i for i, s in enumerate(ss.body) if isinstance(s, ast.Assign) and "ipc.open_stream" in _calls(s)), -1)
    out["headerBeforeInputOpen"] = 0 <= hdr_i < rdr_i
    last = ss.body[-1]
    out["finalInputDrain"] = isinstance(last, ast.With) and "_drain_stream" in _calls(last) and "input_reader" in ast.unparse(last)
    del top
    # the cancel branch breaks out of the loop without calling process
    out["cancelBreaks"] = any(isinstance(n, ast.If) and "CANCEL_KEY" in ast.unparse(n.test) and isinstance(n.body[-1], ast.Break)
                              for n in ast.walk(ss))
    # _drain_refused_stream_input
    df = _func(tree, "_drain_refused_stream_input")
    body = [s for s in df.body if not (isinstance(s, ast.Expr) and isinstance(s.value, ast.Constant))]
    # guard first (`return` unless a header-less stream), drain last; in between only plain assignments (e.g. picking the
    # transport's shm segment so that skipped pointer batches are freed)
    out["refusedDrainGuard"] = (
        len(body) >= 2 and isinstance(body[0], ast.If)
        and ast.unparse(body[0].test) == "info.method_type != MethodType.STREAM or info.header_type is not None"
        and isinstance(body[0].body[0], ast.Return)
        and all(isinstance(b, (ast.Assign, ast.AnnAssign)) for b in body[1:-1])
        and isinstance(body[-1], ast.With) and "_drain_stream" in _calls(body[-1]) and "ipc.open_stream" in _calls(body[-1])
        and not _has(body[-1], ast.Return) and not _has(body[-1], ast.Raise))
    return out


def client_shapes() -> dict[str, bool]:
    tree = ast.parse((REPO / "vgi_rpc/rpc/_client.py").read_text())
    out: dict[str, bool] = {}
    d = _func(tree, "_drain_output")
    loops = [n for n in ast.walk(d) if isinstance(n, ast.For)]
    over_err = survives = stops_eos = False
    if len(loops) == 1:
        ts = [s for s in loops[0].body if isinstance(s, ast.Try)]
        if len(ts) == 1:
            t = ts[0]
            h = _handler(t, "RpcError")
            over_err = h is not None and len(h.body) == 1 and isinstance(h.body[0], ast.Continue)
            h = _handler(t, "StopIteration")
            stops_eos = h is not None and isinstance(h.body[-1], (ast.Return, ast.Break))
            h = _handler(t, "Exception")
            survives = h is not None and not _has(h.body, ast.Return) and not _has(h.body, ast.Raise) and not _has(h.body, ast.Break) \
                and any(isinstance(s, ast.Assign) and ast.unparse(s) == "on_log = None" for s in h.body)
    out["cliDrainOverErr"], out["cliDrainSurvivesCb"], out["cliDrainStopsAtEos"] = over_err, survives, stops_eos

    def closes_then_raises(h: ast.ExceptHandler | None) -> bool:
        return h is not None and "self.close" in _calls(h.body) and isinstance(h.body[-1], ast.Raise)

    tk = _func(tree, "tick")
    rt = [t for t in _trys(tk) if "self._read_response" in _calls(t.body)]
    out["tickClosesOnEnd"] = len(rt) == 1 and closes_then_raises(_handler(rt[0], "StopIteration"))
    out["tickClosesOnError"] = len(rt) == 1 and closes_then_raises(_handler(rt[0], "RpcError"))
    ex = _func(tree, "exchange")
    rt = [t for t in _trys(ex) if "self._read_response" in _calls(t.body)]
    out["exchangeClosesOnError"] = len(rt) == 1 and closes_then_raises(_handler(rt[0], "RpcError"))
    out["exchangeKeepsOpenOnEnd"] = len(rt) == 1 and _handler(rt[0], "StopIteration") is None
    # close(): marks closed, ends (or opens+ends) the input stream, opens the output reader if needed, drains
    cl = _func(tree, "close")
    c = _calls(cl)
    out["closeEndsInputThenDrains"] = ("self._input_writer.close" in c and "new_ipc_stream" in c and "self._drain_output" in c
                                       and c.index("self._input_writer.close") < c.index("self._drain_output"))
    def closed_first(fn: ast.FunctionDef) -> bool:
        """`self._closed = True` is assigned before anything is written or read (so that a close()/cancel() that raises —
        the on_log callback — cannot be run a second time by `with` / `finally`)."""
        mark = next((i for i, s_ in enumerate(fn.body) if isinstance(s_, ast.Assign) and ast.unparse(s_) == "self._closed = True"), None)
        io = next((i for i, s_ in enumerate(fn.body) if any(x in ("self._input_writer.close", "new_ipc_stream", "self._drain_output",
                                                                 "ipc.open_stream", "self._input_writer.write_batch") for x in _calls(s_))), None)
        return mark is not None and io is not None and mark < io

    out["closeMarksClosedFirst"] = closed_first(cl)
    # `_TRANSPORT_ERRORS`: exactly the classes the model treats as "the transport is dead" (the session is flagged closed
    # without ending its input or draining).  Pinned: widening it (e.g. to ValueError, the base of pa.ArrowInvalid) makes
    # ordinary exceptions of the on_log callback look like a dead transport.
    te = next((n for n in tree.body if isinstance(n, ast.Assign) and ast.unparse(n.targets[0]) == "_TRANSPORT_ERRORS"), None)
    names = sorted(ast.unparse(e) for e in te.value.elts) if te is not None and isinstance(te.value, ast.Tuple) else []
    out["transportErrorsPinned"] = names == sorted(["BrokenPipeError", "ConnectionResetError", "ConnectionAbortedError", "EOFError",
                                                    "pa.ArrowInvalid"])
    cn = _func(tree, "cancel")
    out["cancelMarksClosedFirst"] = closed_first(cn)
    c = _calls(cn)
    out["cancelEndsInputThenDrains"] = ("self._input_writer.close" in c and "self._drain_output" in c and "CANCEL_KEY" in ast.unparse(cn))
    # stream caller: header read aborted by a non-RpcError exception closes a throw-away session
    sc = _func(tree, "_make_stream_caller")
    ht = _innermost([t for t in _trys(sc) if "_read_stream_header" in _calls(t.body)])
    ok = False
    if len(ht) == 1:
        h = _handler(ht[0], "Exception")
        ok = h is not None and "StreamSession" in _calls(h.body) and any(x.endswith(").close") or x.endswith(".close") for x in _calls(h.body)) \
            and isinstance(h.body[-1], ast.Raise)
    out["hdrAbortCloses"] = ok
    # a header-less stream caller returns the session without reading anything
    out["headerReadOnlyWhenDeclared"] = any(isinstance(n, ast.If) and ast.unparse(n.test) == "info.header_type is not None"
                                            and "_read_stream_header" in _calls(n.body) for n in ast.walk(sc))
    return out


def wire_shapes() -> dict[str, bool]:
    tree = ast.parse((REPO / "vgi_rpc/rpc/_wire.py").read_text())
    out: dict[str, bool] = {}

    def drains_then_raises(h: ast.ExceptHandler | None) -> bool:
        return h is not None and "_drain_stream" in _calls(h.body) and isinstance(h.body[-1], ast.Raise)

    u = _func(tree, "_read_unary_response")
    t = [t for t in _trys(u) if "_read_batch_with_log_check" in _calls(t.body)]
    out["unaryDrainOnErr"] = len(t) == 1 and drains_then_raises(_handler(t[0], "RpcError"))
    out["unaryDrainOnCb"] = len(t) == 1 and drains_then_raises(_handler(t[0], "Exception"))
    # the rest of the response (its EOS marker) is consumed BEFORE the result value is validated / decoded, so a client-side
    # TypeError / KeyError there cannot leave the marker on the transport
    last_try = [s_ for s_ in u.body if isinstance(s_, ast.Try)][-1]
    idx_drain = next((i for i, s_ in enumerate(last_try.body) if isinstance(s_, ast.Expr) and _calls(s_) == ["_drain_stream"]), None)
    idx_dec = next((i for i, s_ in enumerate(last_try.body) if any(c in ("_validate_result", "_deserialize_value") for c in _calls(s_))
                    or ".as_py" in ast.unparse(s_)), None)
    out["unaryDrainBeforeDecode"] = idx_drain is not None and idx_dec is not None and idx_drain < idx_dec
    out["unaryDrainsAfterResult"] = "_drain_stream" in _calls([s for s in u.body if isinstance(s, ast.Try)][-1].body)
    h = _func(tree, "_read_header_batch")
    t = [t for t in _trys(h) if "_dispatch_log_or_error" in _calls(t.body)]
    out["hdrDrainOnErr"] = len(t) == 1 and drains_then_raises(_handler(t[0], "RpcError"))
    out["hdrDrainOnCb"] = len(t) == 1 and drains_then_raises(_handler(t[0], "Exception"))
    out["hdrDrainsAfterHeader"] = any(isinstance(s, ast.Expr) and "_drain_stream" in _calls(s) for s in h.body)
    # `_write_request`: the request batch is built (argument -> Arrow conversion, which raises on values the parameter type
    # cannot hold) BEFORE the IPC stream is opened, so a conversion error leaves nothing on the wire
    wr = _func(tree, "_write_request")
    w_i = next((i for i, s_ in enumerate(wr.body) if isinstance(s_, ast.With) and "new_ipc_stream" in _calls(s_)), None)
    conv_i = [i for i, s_ in enumerate(wr.body) if any(c in ("pa.array", "_convert_for_arrow", "pa.RecordBatch.from_arrays") for c in _calls(s_))
              and not isinstance(s_, ast.With)]
    inside = w_i is not None and any(c in ("pa.array", "_convert_for_arrow", "pa.RecordBatch.from_arrays") for c in _calls(wr.body[w_i]))
    out["requestBuiltBeforeStream"] = w_i is not None and bool(conv_i) and max(conv_i) < w_i and not inside
    r = _func(tree, "_read_request")
    first_drain = next((i for i, s in enumerate(r.body) if isinstance(s, ast.Expr) and _calls(s) == ["_drain_stream"]), None)
    first_raise = next((i for i, s in enumerate(r.body) if _has(s, ast.Raise) and not isinstance(s, ast.Try)), None)
    out["requestDrainedBeforeValidation"] = first_drain is not None and first_raise is not None and first_drain < first_raise
    # the first read of the request stream: StopIteration (a stream with no batch) is turned into an RpcError reply
    ft = [t for t in r.body if isinstance(t, ast.Try) and "reader.read_next_batch_with_custom_metadata" in _calls(t.body)]
    h0 = _handler(ft[0], "StopIteration") if len(ft) == 1 else None
    out["emptyRequestReplies"] = h0 is not None and isinstance(h0.body[-1], ast.Raise) and "RpcError" in _calls(h0.body)
    return out


MODEL_FIELDS = ["drainVersion", "drainParams", "drainInit", "drainUnknown", "initChecks", "cliDrainOverErr", "cliDrainSurvivesCb",
                "unaryDrainOnCb", "hdrDrainOnCb", "hdrAbortCloses", "emptyRequestReplies", "initErrorFlushesLogs", "failFlushesLogs", "unaryDrainBeforeDecode", "requestBuiltBeforeStream"]


def emit() -> dict[str, str]:
    sh: dict[str, bool] = {}
    sh.update(server_shapes())
    sh.update(client_shapes())
    sh.update(wire_shapes())
    b = lambda x: "true" if x else "false"  # noqa: E731
    fields = ", ".join(f"{k} := {b(sh[k])}" for k in MODEL_FIELDS)
    structural = [(k, v) for k, v in sorted(sh.items()) if k not in MODEL_FIELDS]
    body = f"""namespace VgiVerif.Gen.C04

/-- the drain / error-reply decisions of rpc/_server.py, rpc/_client.py, rpc/_wire.py that the connection model branches on -/
structure Shape where
  drainVersion : Bool        -- serve_one: version-gate refusal is followed by `_drain_refused_stream_input`
  drainParams : Bool         -- serve_one: parameter-validation refusal is followed by it
  drainInit : Bool           -- _serve_stream: a failed init is followed by it
  drainUnknown : Bool        -- serve_one: an unknown method is followed by it (the server cannot know the call's shape)
  initChecks : Bool          -- non-Stream result / missing declared header raise inside the init `try` (answered as init errors)
  cliDrainOverErr : Bool     -- StreamSession._drain_output steps over EXCEPTION batches
  cliDrainSurvivesCb : Bool  -- ... and finishes the drain when the on_log callback raises
  unaryDrainOnCb : Bool      -- _read_unary_response drains when the callback raises
  hdrDrainOnCb : Bool        -- _read_header_batch drains when the callback raises
  hdrAbortCloses : Bool      -- the stream caller closes the server-side stream when the header read is aborted
  emptyRequestReplies : Bool -- _read_request answers a request stream without any batch (else StopIteration ends `serve`)
  initErrorFlushesLogs : Bool -- the error stream of a failed stream init carries the logs emitted before the failure
  failFlushesLogs : Bool     -- a failing process() call's logs are written ahead of its error batch
  unaryDrainBeforeDecode : Bool -- _read_unary_response drains to EOS before it validates / decodes the result value
  requestBuiltBeforeStream : Bool -- _write_request converts the arguments before it opens the request's IPC stream
deriving Repr, DecidableEq

def shape : Shape := {{ {fields} }}

/-- structural facts the model hard-codes; every one must be `true` for the model to be a transliteration -/
def structural : List (String × Bool) := [
{chr(10).join(f'  ("{k}", {b(v)}),' for k, v in structural)[:-1]}
]

end VgiVerif.Gen.C04
"""
    return {"C04.lean": body}
