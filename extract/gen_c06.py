"""C06: order of the request-validation steps and the except->status tables at the dispatch sites.

Read from the AST of the current tree:

* the four dispatch sites (pipe unary / pipe stream through ``RpcServer.serve_one`` + ``_serve_unary`` / ``_serve_stream``,
  HTTP unary ``_run_unary_sync``, HTTP stream init ``_run_stream_init_sync``): the *source order* of
  ``_read_request`` · URL/IPC name check · ``_check_protocol_version`` · ``_deserialize_params`` ·
  ``_validate_call_signature`` · ``_validate_params`` · the method invocation, and for each of them the chain of
  enclosing ``try`` statements (innermost first) with, per ``except`` clause, the exception classes and what the
  handler does (HTTP status / rewrap into TypeError / write an error stream and return / and re-raise);
* ``_set_http_status``: which status is translated to ``200`` + ``X-VGI-RPC-Error``;
* ``_validate_call_signature``: the order of its checks and the literal exemption set;
* ``_read_request``: the row-count guard, that the schema is recorded before ``as_py()``, and the handler around ``as_py()``;
* recognition flags for ``_validate_params`` / ``_deserialize_params`` / ``_deserialize_value``;
* for the exception classes the framework itself raises during validation (TypeError, KeyError, RpcError,
  ProtocolVersionError): which of the handler classes they are instances of (``issubclass`` on the real classes).

Anything outside the recognised shapes raises (extraction fails loudly).
"""

from __future__ import annotations

import ast
import builtins
import os
from http import HTTPStatus
from pathlib import Path

REPO = Path(os.environ.get("VERIF_REPO", "/repo"))
PROPS = ["C06"]

PHASES = ["read", "nameCheck", "gate", "deserialize", "signature", "params", "invoke"]
CALL_PHASE = {
    "_read_request": "read",
    "_check_protocol_version": "gate",
    "_deserialize_params": "deserialize",
    "_validate_call_signature": "signature",
    "_validate_params": "params",
}


class Unrecognised(Exception):
    pass


def _func(tree: ast.AST, name: str, cls: str | None = None) -> ast.FunctionDef:
    scope: ast.AST = tree
    if cls is not None:
        scope = next(n for n in ast.walk(tree) if isinstance(n, ast.ClassDef) and n.name == cls)
    for n in ast.walk(scope):
        if isinstance(n, ast.FunctionDef) and n.name == name:
            return n
    raise Unrecognised(f"function {cls}.{name} not found")


def _callee(n: ast.AST) -> str | None:
    if isinstance(n, ast.Call):
        f = n.func
        if isinstance(f, ast.Name):
            return f.id
        if isinstance(f, ast.Attribute):
            return f.attr
    return None


def _is_invocation(n: ast.AST) -> bool:
    """``getattr(<impl>, <name>)(**kwargs)``"""
    return (
        isinstance(n, ast.Call)
        and isinstance(n.func, ast.Call)
        and isinstance(n.func.func, ast.Name)
        and n.func.func.id == "getattr"
        and len(n.keywords) == 1
        and n.keywords[0].arg is None
        and ast.unparse(n.keywords[0].value) == "kwargs"
    )


def _class_names(t: ast.expr | None) -> list[str]:
    if t is None:
        return ["BaseException"]
    if isinstance(t, ast.Tuple):
        out: list[str] = []
        for e in t.elts:
            out += _class_names(e)
        return out
    if isinstance(t, ast.Name):
        return _expand(t.id)
    if isinstance(t, ast.Attribute):
        return _expand(t.attr)
    raise Unrecognised(f"except clause type {ast.unparse(t)}")


_TUPLE_MODULES = (
    "vgi_rpc.http.server._responses",
    "vgi_rpc.http.server._app_unary",
    "vgi_rpc.http.server._app_stream",
    "vgi_rpc.http._common",
    "vgi_rpc.rpc._server",
    "vgi_rpc.rpc._wire",
    "vgi_rpc.rpc._common",
)


def _expand(name: str) -> list[str]:
    """A name in an `except` clause: an exception class, or a module-level tuple of exception classes (e.g.
    `_BAD_REQUEST_ERRORS`), which is expanded to its members (the tuple object of the imported module is read, so
    `(*OTHER, TypeError, …)` definitions are followed)."""
    import importlib

    try:
        _resolve(name)
        return [name]
    except Unrecognised:
        pass
    for mn in _TUPLE_MODULES:
        try:
            mod = importlib.import_module(mn)
        except ImportError:
            continue
        if not str(Path(mod.__file__ or "").resolve()).startswith(str(REPO.resolve())):
            raise Unrecognised(f"{mn} was imported from {mod.__file__}, not from {REPO}: run with PYTHONPATH=$VERIF_REPO")
        v = getattr(mod, name, None)
        if isinstance(v, tuple) and v and all(isinstance(k, type) and issubclass(k, BaseException) for k in v):
            out: list[str] = []
            for k in v:
                if _resolve(k.__name__) is not k:
                    raise Unrecognised(f"{name}: member {k!r} does not resolve by its name")
                if k.__name__ not in out:
                    out.append(k.__name__)
            return out
    raise Unrecognised(f"exception class {name}")


def _status_of(expr: ast.expr, body: list[ast.stmt]) -> int:
    src = ast.unparse(expr)
    if src.startswith("HTTPStatus."):
        return int(HTTPStatus[src.split(".", 1)[1]].value)
    # `status_code=outcome.http_status` with `outcome.http_status = HTTPStatus.X` assigned in the same handler
    for st in body:
        for n in ast.walk(st):
            if isinstance(n, ast.Assign) and len(n.targets) == 1 and ast.unparse(n.targets[0]) == src:
                return _status_of(n.value, [])
    raise Unrecognised(f"status expression {src}")


def _action(h: ast.ExceptHandler) -> str:
    """Lean term of `Action` for one except clause."""
    raises = [n for st in h.body for n in ast.walk(st) if isinstance(n, ast.Raise)]
    calls = {_callee(n) for st in h.body for n in ast.walk(st) if isinstance(n, ast.Call)}
    returns = any(isinstance(n, ast.Return) for st in h.body for n in ast.walk(st))
    for r in raises:
        if r.exc is not None and _callee(r.exc) == "_RpcHttpError":
            kw = {k.arg: k.value for k in r.exc.keywords}  # type: ignore[union-attr]
            if "status_code" not in kw:
                raise Unrecognised("_RpcHttpError without status_code")
            return f".status {_status_of(kw['status_code'], h.body)}"
        if r.exc is not None and _callee(r.exc) == "TypeError":
            return ".rewrapTypeError"
    writes = calls & {"_write_error_stream", "_write_error_batch"}
    if writes:
        if any(r.exc is None for r in raises):
            return ".streamReraise"
        for st in h.body:
            for n in ast.walk(st):
                if isinstance(n, ast.Assign) and ast.unparse(n.targets[0]) == "http_status":
                    return f".status {_status_of(n.value, [])}"
        if returns:
            return ".streamReturn"
    raise Unrecognised(f"except handler at line {h.lineno}: {ast.unparse(h)[:200]}")


def _chain(fn: ast.FunctionDef, target: ast.AST) -> list[list[tuple[list[str], str]]]:
    """Enclosing try statements of `target` (only when it sits in the try *body*), innermost first."""
    chain: list[list[tuple[list[str], str]]] = []

    def visit(node: ast.AST, acc: list[ast.Try]) -> bool:
        if node is target:
            for t in reversed(acc):
                if t.handlers:
                    chain.append([(_class_names(h.type), _action(h)) for h in t.handlers])
            return True
        if isinstance(node, ast.Try):
            for st in node.body:
                if visit(st, acc + [node]):
                    return True
            for part in (node.handlers, node.orelse, node.finalbody):
                for st in part:
                    if visit(st, acc):
                        return True
            return False
        if isinstance(node, (ast.FunctionDef, ast.Lambda, ast.ClassDef)) and node is not fn:
            return False
        return any(visit(ch, acc) for ch in ast.iter_child_nodes(node))

    if not visit(fn, []):
        raise Unrecognised("target not inside function")
    return chain


def _site(fn: ast.FunctionDef, invoke_fn: ast.FunctionDef | None, invoke_call: str | None) -> dict:
    """Phases in source order + handler chain per phase."""
    found: dict[str, ast.AST] = {}
    for n in ast.walk(fn):
        ph = CALL_PHASE.get(_callee(n) or "")
        if ph is not None:
            if ph in found:
                raise Unrecognised(f"{fn.name}: two calls for phase {ph}")
            found[ph] = n
        if isinstance(n, ast.If) and ast.unparse(n.test) == "ipc_method != method_name":
            found["nameCheck"] = n
        if invoke_fn is None and _is_invocation(n):
            if "invoke" in found:
                raise Unrecognised(f"{fn.name}: two invocations")
            found["invoke"] = n
        if invoke_call is not None and _callee(n) == invoke_call:
            found["invoke"] = n
    for need in ("read", "gate", "deserialize", "signature", "params", "invoke"):
        if need not in found:
            raise Unrecognised(f"{fn.name}: no {need}")
    order = sorted(found, key=lambda p: (found[p].lineno, found[p].col_offset))  # type: ignore[attr-defined]
    chains = {p: _chain(fn, found[p]) for p in found}
    if invoke_fn is not None:
        inv = [n for n in ast.walk(invoke_fn) if _is_invocation(n)]
        if len(inv) != 1:
            raise Unrecognised(f"{invoke_fn.name}: {len(inv)} invocations")
        chains["invoke"] = _chain(invoke_fn, inv[0]) + chains["invoke"]
    # the name check raises TypeError itself
    if "nameCheck" in found:
        body = found["nameCheck"].body  # type: ignore[attr-defined]
        if not (len(body) == 1 and isinstance(body[0], ast.Raise) and _callee(body[0].exc) == "TypeError"):
            raise Unrecognised("name check does not raise TypeError")
    return {"order": order, "chains": chains}


def _sig_checks(fn: ast.FunctionDef) -> tuple[list[str], list[str], list[str]]:
    checks: list[str] = []
    field_checks: list[str] = []
    exempt: list[str] = []
    assigns: dict[str, str] = {}
    for st in fn.body:
        if isinstance(st, ast.Expr) and isinstance(st.value, ast.Constant):
            continue  # docstring
        if isinstance(st, ast.Assign) and len(st.targets) == 1 and isinstance(st.targets[0], ast.Name):
            assigns[st.targets[0].id] = ast.unparse(st.value)
            if st.targets[0].id == "unexpected":
                for n in ast.walk(st.value):
                    if isinstance(n, ast.Set):
                        exempt += [e.value for e in n.elts if isinstance(e, ast.Constant)]
            continue
        if isinstance(st, ast.If):
            test = ast.unparse(st.test)
            raises_te = any(isinstance(n, ast.Raise) and _callee(n.exc) == "TypeError" for n in ast.walk(st))
            if test == "unexpected" and raises_te:
                if assigns.get("unexpected", "").replace("'", '"') != 'sorted(set(kwargs) - set(param_types) - {"ctx"})':
                    raise Unrecognised(f"unexpected = {assigns.get('unexpected')}")
                checks.append(".unexpected")
            elif test == "missing" and raises_te:
                if assigns.get("missing") != "sorted(set(param_types) - set(kwargs) - set(param_defaults))":
                    raise Unrecognised(f"missing = {assigns.get('missing')}")
                checks.append(".missing")
            elif test == "request_schema is None" and isinstance(st.body[0], ast.Return):
                if assigns.get("request_schema") != "_current_request_param_schema.get()":
                    raise Unrecognised("request_schema source")
                checks.append(".noSchemaReturn")
            elif test == "len(request_schema) != len(params_schema)" and raises_te:
                checks.append(".fieldCount")
            else:
                raise Unrecognised(f"_validate_call_signature: if {test}")
            continue
        if isinstance(st, ast.For):
            if ast.unparse(st.iter) != "enumerate(zip(request_schema, params_schema, strict=True))":
                raise Unrecognised(f"_validate_call_signature: for … in {ast.unparse(st.iter)}")
            checks.append(".perField")
            for s2 in st.body:
                if not isinstance(s2, ast.If):
                    raise Unrecognised("per-field loop body")
                t2 = ast.unparse(s2.test)
                m = {"field.name != declared.name": ".name", "field.type != declared.type": ".type",
                     "field.nullable != declared.nullable": ".nullable"}.get(t2)
                if m is None or not any(isinstance(n, ast.Raise) and _callee(n.exc) == "TypeError" for n in ast.walk(s2)):
                    raise Unrecognised(f"per-field check {t2}")
                field_checks.append(m)
            continue
        raise Unrecognised(f"_validate_call_signature: statement {ast.unparse(st)[:80]}")
    return checks, field_checks, exempt


def _norm(fn: ast.FunctionDef) -> str:
    """Source of a function without its docstring/comments (shape fingerprint)."""
    body = fn.body[1:] if fn.body and isinstance(fn.body[0], ast.Expr) and isinstance(fn.body[0].value, ast.Constant) else fn.body
    return "\n".join(ast.unparse(s) for s in body)


_VALIDATE_PARAMS = """for name, value in kwargs.items():
    if value is not None:
        continue
    ptype = param_types.get(name)
    if ptype is None:
        continue
    _, is_nullable = _is_optional_type(ptype)
    if not is_nullable:
        raise TypeError(f"{method_name}() parameter '{name}' is not optional but got None")"""

_DESERIALIZE_PARAMS = """for name, value in kwargs.items():
    if value is None:
        continue
    ptype = param_types.get(name)
    if ptype is None:
        continue
    kwargs[name] = _deserialize_value(value, ptype, ipc_validation)"""

_DESERIALIZE_VALUE = """inner, _ = _is_optional_type(type_hint)
base = _unwrap_annotated(inner)
if isinstance(base, type) and issubclass(base, ArrowSerializableDataclass):
    if not isinstance(value, bytes):
        raise TypeError(f'Expected bytes for {base.__name__} deserialization, got {type(value).__name__}')
    reader = ValidatedReader(ipc.open_stream(value), ipc_validation)
    batch, metadata = reader.read_next_batch_with_custom_metadata()
    return base.deserialize_from_batch(batch, metadata, ipc_validation=ipc_validation)
if isinstance(base, type) and issubclass(base, Enum):
    if not isinstance(value, str):
        raise TypeError(f'Expected str for {base.__name__} deserialization, got {type(value).__name__}')
    return base[value]
origin = get_origin(base)
if origin is dict and isinstance(value, list):
    return dict(cast('list[tuple[object, object]]', value))
if origin is frozenset and isinstance(value, list):
    return frozenset(value)
return value"""


def _same(a: str, b: str) -> bool:
    return ast.unparse(ast.parse(a)) == ast.unparse(ast.parse(b))


def _read_request_shape(fn: ast.FunctionDef) -> dict:
    row_guard = None
    record = None
    aspy = None
    for n in ast.walk(fn):
        if isinstance(n, ast.If) and ast.unparse(n.test) == "len(batch.schema) > 0 and batch.num_rows != 1":
            if any(isinstance(r, ast.Raise) and _callee(r.exc) == "RpcError" for r in ast.walk(n)):
                row_guard = n
        if isinstance(n, ast.Call) and ast.unparse(n) == "_current_request_param_schema.set(batch.schema)":
            record = n
        if isinstance(n, ast.Call) and isinstance(n.func, ast.Attribute) and n.func.attr == "as_py":
            if aspy is not None:
                raise Unrecognised("_read_request: two as_py() calls")
            aspy = n
    if aspy is None:
        raise Unrecognised("_read_request: no as_py()")
    wrap: list[str] = []
    wrap_raises = ""
    # innermost try around as_py() *inside* _read_request
    chain: list[ast.Try] = []

    def visit(node: ast.AST, acc: list[ast.Try]) -> bool:
        if node is aspy:
            chain.extend(reversed(acc))
            return True
        if isinstance(node, ast.Try):
            for st in node.body:
                if visit(st, acc + [node]):
                    return True
            for part in (node.handlers, node.orelse, node.finalbody):
                for st in part:
                    if visit(st, acc):
                        return True
            return False
        return any(visit(ch, acc) for ch in ast.iter_child_nodes(node))

    visit(fn, [])
    for t in chain:
        if t.handlers:
            if len(t.handlers) != 1:
                raise Unrecognised("_read_request: handlers around as_py()")
            h = t.handlers[0]
            rs = [r for st in h.body for r in ast.walk(st) if isinstance(r, ast.Raise) and r.exc is not None]
            if len(rs) != 1 or _callee(rs[0].exc) != "RpcError":
                raise Unrecognised("_read_request: as_py() handler does not raise RpcError")
            wrap = _class_names(h.type)
            wrap_raises = "RpcError"
            break
    # try around the (validating) read of the request batch: `except IPCError: …drain…; raise RpcError`
    vwrap: list[str] = []
    for n in ast.walk(fn):
        if isinstance(n, ast.Try) and any(
            isinstance(c, ast.Call) and isinstance(c.func, ast.Attribute) and c.func.attr == "read_next_batch_with_custom_metadata"
            for st in n.body for c in ast.walk(st)
        ):
            for h in n.handlers:
                rs = [r for st in h.body for r in ast.walk(st) if isinstance(r, ast.Raise) and r.exc is not None]
                if len(rs) == 1 and _callee(rs[0].exc) == "RpcError":
                    vwrap += _class_names(h.type)
                else:
                    raise Unrecognised("_read_request: handler around the batch read does not raise RpcError")
    pos = lambda n: (n.lineno, n.col_offset)  # noqa: E731
    # pointer resolution: `batch` is re-bound by resolve_external_location(...) and resolve_shm_batch(...); the schema
    # must be recorded from the *resolved* batch, i.e. after both calls
    resolvers = [n for n in ast.walk(fn) if isinstance(n, ast.Call) and _callee(n) in ("resolve_external_location", "resolve_shm_batch")]
    if {_callee(n) for n in resolvers} != {"resolve_external_location", "resolve_shm_batch"} or len(resolvers) != 2:
        raise Unrecognised("_read_request: pointer resolution calls")
    for n in ast.walk(fn):
        if isinstance(n, ast.Assign) and n.value in resolvers:
            tgt = n.targets[0]
            if not (isinstance(tgt, ast.Tuple) and isinstance(tgt.elts[0], ast.Name) and tgt.elts[0].id == "batch"):
                raise Unrecognised("_read_request: resolver result is not bound to `batch`")
    records_resolved = record is not None and all(pos(r) < pos(record) for r in resolvers)
    return {
        "recordsResolved": records_resolved,
        "validationWrap": vwrap,
        "rowGuard": row_guard is not None and pos(row_guard) < pos(aspy),
        "recordsSchema": record is not None and pos(record) < pos(aspy) and (row_guard is None or pos(row_guard) < pos(record)),
        "wrap": wrap,
        "wrapRaises": wrap_raises,
    }


def _set_http_status_shape(fn: ast.FunctionDef) -> tuple[int, int, bool]:
    """(status that is translated, status it becomes, marker header set)"""
    for st in fn.body:
        if isinstance(st, ast.If):
            t = st.test
            if (isinstance(t, ast.Compare) and len(t.ops) == 1 and isinstance(t.ops[0], ast.Eq)
                    and ast.unparse(t.left) == "status_code" and ast.unparse(t.comparators[0]).startswith("HTTPStatus.")):
                frm = int(HTTPStatus[ast.unparse(t.comparators[0]).split(".", 1)[1]].value)
                to = None
                marker = False
                for n in st.body:
                    s = ast.unparse(n)
                    if s.startswith("resp.status = "):
                        to = int(ast.literal_eval(s.split("=", 1)[1].strip()))
                    if s == "resp.set_header(RPC_ERROR_HEADER, 'true')":
                        marker = True
                if to is None or len(st.orelse) != 1 or ast.unparse(st.orelse[0]) != "resp.status = str(status_code.value)":
                    raise Unrecognised("_set_http_status branches")
                return frm, to, marker
    raise Unrecognised("_set_http_status")


def _resolve(name: str) -> type:
    import pyarrow as pa

    import vgi_rpc.rpc as r
    import vgi_rpc.rpc._common as c

    import vgi_rpc.utils as u

    for ns in (builtins, pa, r, c, u):
        v = getattr(ns, name, None)
        if isinstance(v, type) and issubclass(v, BaseException):
            return v
    raise Unrecognised(f"exception class {name}")


def extract() -> dict:
    server = ast.parse((REPO / "vgi_rpc/rpc/_server.py").read_text())
    unary = ast.parse((REPO / "vgi_rpc/http/server/_app_unary.py").read_text())
    stream = ast.parse((REPO / "vgi_rpc/http/server/_app_stream.py").read_text())
    wire = ast.parse((REPO / "vgi_rpc/rpc/_wire.py").read_text())
    resp = ast.parse((REPO / "vgi_rpc/http/server/_responses.py").read_text())
    serve_one = _func(server, "serve_one", "RpcServer")
    sites = {
        "pipe_unary": _site(serve_one, _func(server, "_serve_unary", "RpcServer"), "_serve_unary"),
        "pipe_stream": _site(serve_one, _func(server, "_serve_stream", "RpcServer"), "_serve_stream"),
        "http_unary": _site(_func(unary, "_run_unary_sync"), None, None),
        "http_init": _site(_func(stream, "_run_stream_init_sync"), None, None),
    }
    checks, field_checks, exempt = _sig_checks(_func(wire, "_validate_call_signature"))
    hcls: list[str] = []
    for s in sites.values():
        for ch in s["chains"].values():
            for lvl in ch:
                for names, _a in lvl:
                    for n in names:
                        if n not in hcls:
                            hcls.append(n)
    rr = _read_request_shape(_func(wire, "_read_request"))
    for n in rr["wrap"] + rr["validationWrap"]:
        if n not in hcls:
            hcls.append(n)
    if "Exception" not in hcls:
        hcls.append("Exception")
    hcls.sort()
    classes = {n: _resolve(n) for n in hcls}
    isa = {}
    for raised in ("TypeError", "KeyError", "RpcError", "ProtocolVersionError", "IPCError"):
        k = _resolve(raised)
        isa[raised] = [n for n in hcls if issubclass(k, classes[n])]
    return {
        "sites": sites, "sigChecks": checks, "fieldChecks": field_checks, "exempt": exempt, "hcls": hcls, "isa": isa,
        "read": rr, "setStatus": _set_http_status_shape(_func(resp, "_set_http_status")),
        "state": _cross_call_state(wire, "vgi_rpc.rpc._wire"),
        "validateParams": _same(_norm(_func(wire, "_validate_params")), _VALIDATE_PARAMS),
        "deserializeParams": _same(_norm(_func(wire, "_deserialize_params")), _DESERIALIZE_PARAMS),
        "deserializeValue": _same(_norm(_func(wire, "_deserialize_value")), _DESERIALIZE_VALUE),
    }


_STATE_FUNCS = ("_validate_params", "_validate_call_signature", "_deserialize_params", "_deserialize_value")
_MEMO_DECORATORS = ("lru_cache", "cache", "cached_property", "memoize")


def _cross_call_state(tree: ast.Module, modname: str) -> list[str]:
    """Module-level state the validation functions (and the same-module helpers they call, transitively) can carry from one
    call to the next: a mutable module-level container they read or write, a `global` / `nonlocal` declaration, a memoising
    decorator, a mutable default argument.  `ContextVar`s are per-request and allowed (the request schema is modelled).
    Returns the offenders (`function:name`); the model is a pure function of (declaration, request), so this must be []."""
    import contextvars
    import importlib
    import types

    mod = importlib.import_module(modname)
    if not str(Path(mod.__file__ or "").resolve()).startswith(str(REPO.resolve())):
        raise Unrecognised(f"{modname} was imported from {mod.__file__}, not from {REPO}: run with PYTHONPATH=$VERIF_REPO")
    funcs = {n.name: n for n in tree.body if isinstance(n, ast.FunctionDef)}
    offenders: list[str] = []
    seen: set[str] = set()
    todo = [f for f in _STATE_FUNCS]
    while todo:
        fname = todo.pop()
        if fname in seen or fname not in funcs:
            continue
        seen.add(fname)
        fn = funcs[fname]
        for d in fn.decorator_list:
            if any(k in ast.unparse(d) for k in _MEMO_DECORATORS):
                offenders.append(f"{fname}:@{ast.unparse(d)}")
        for dflt in fn.args.defaults + [k for k in fn.args.kw_defaults if k is not None]:
            if isinstance(dflt, (ast.Dict, ast.List, ast.Set, ast.Call)):
                offenders.append(f"{fname}:mutable-default")
        local = {a.arg for a in fn.args.args + fn.args.kwonlyargs}
        for n in ast.walk(fn):
            if isinstance(n, (ast.Global, ast.Nonlocal)):
                offenders.append(f"{fname}:{'global' if isinstance(n, ast.Global) else 'nonlocal'} {','.join(n.names)}")
            if isinstance(n, ast.Name) and isinstance(n.ctx, ast.Store):
                local.add(n.id)
        for n in ast.walk(fn):
            if not (isinstance(n, ast.Name) and isinstance(n.ctx, ast.Load)) or n.id in local:
                continue
            if not hasattr(mod, n.id):
                continue
            v = getattr(mod, n.id)
            if isinstance(v, contextvars.ContextVar):
                continue
            if isinstance(v, (dict, list, set, bytearray)) or type(v).__name__ in ("defaultdict", "OrderedDict", "deque", "WeakValueDictionary", "WeakKeyDictionary"):
                offenders.append(f"{fname}:{n.id}")
            elif isinstance(v, types.FunctionType) and v.__module__ == modname:
                todo.append(n.id)
            elif hasattr(v, "cache_info") and getattr(v, "__module__", None) == modname:
                offenders.append(f"{fname}:{n.id}(cached)")
    return sorted(set(offenders))


def _lean_handlers(lvl: list[tuple[list[str], str]]) -> str:
    return "[" + ", ".join("⟨[" + ", ".join(f".{n}" for n in names) + f"], {act}⟩" for names, act in lvl) + "]"


def emit() -> dict[str, str]:
    x = extract()
    ctors = " ".join(f"| {n}" for n in x["hcls"])
    names = "\n".join(f'  | .{n} => "{n}"' for n in x["hcls"])
    site_defs = []
    for sname, s in x["sites"].items():
        chain_cases = []
        for ph in PHASES:
            ch = s["chains"].get(ph, [])
            chain_cases.append(f"    | .{ph} => [" + ", ".join(_lean_handlers(l) for l in ch) + "]")
        site_defs.append(
            f"def {sname} : Site where\n"
            f'  name := "{sname}"\n'
            f"  http := {'true' if sname.startswith('http') else 'false'}\n"
            f"  phases := [{', '.join('.' + p for p in s['order'])}]\n"
            f"  chain := fun p => match p with\n" + "\n".join(chain_cases) + "\n"
        )
    frm, to, marker = x["setStatus"]
    b = lambda v: "true" if v else "false"  # noqa: E731
    isa_defs = "\n".join(
        f"/-- handler classes `{k}` is an instance of (`issubclass` on the real classes) -/\n"
        f"def isa{k} : List HCls := [{', '.join('.' + n for n in v)}]" for k, v in x["isa"].items()
    )
    body = f"""namespace VgiVerif.Gen.Validate

/-- exception classes named in an `except` clause on the way from `_read_request` to the method invocation -/
inductive HCls where
  {ctors}
deriving Repr, DecidableEq

def HCls.name : HCls → String
{names}

def allHCls : List HCls := [{', '.join('.' + n for n in x['hcls'])}]

inductive Phase where
  | read | nameCheck | gate | deserialize | signature | params | invoke
deriving Repr, DecidableEq

/-- what an `except` clause does with the exception it caught -/
inductive Action where
  | status (code : Nat)        -- `raise _RpcHttpError(exc, status_code=…)` / in-band error batch with `http_status = …`
  | rewrapTypeError            -- `raise TypeError(str(exc)) from exc`
  | streamReturn               -- write an error stream / error batch, return (the serve loop continues)
  | streamReraise              -- write an error stream, re-raise (the connection ends)
deriving Repr, DecidableEq

structure Handler where
  classes : List HCls
  action : Action
deriving Repr, DecidableEq

structure Site where
  name : String
  http : Bool
  /-- the steps in *source order* -/
  phases : List Phase
  /-- enclosing `try` statements of each step, innermost first; each with its `except` clauses in order -/
  chain : Phase → List (List Handler)

{chr(10).join(site_defs)}
def sites : List Site := [{', '.join(x['sites'])}]

{isa_defs}

/-- `_set_http_status`: this status … -/
def markerFrom : Nat := {frm}
/-- … is sent as this one … -/
def markerTo : Nat := {to}
/-- … with `X-VGI-RPC-Error: true` -/
def markerHeader : Bool := {b(marker)}

inductive SigCheck where
  | unexpected | missing | noSchemaReturn | fieldCount | perField
deriving Repr, DecidableEq

inductive FieldCheck where
  | name | type | nullable
deriving Repr, DecidableEq

/-- `_validate_call_signature`: its checks in source order -/
def sigChecks : List SigCheck := [{', '.join(x['sigChecks'])}]
/-- … and the comparisons of the per-field loop in source order -/
def fieldChecks : List FieldCheck := [{', '.join(x['fieldChecks'])}]
/-- names exempt from the "unexpected keyword" check (`- {{"ctx"}}`) -/
def unexpectedExempt : List String := [{', '.join('"' + e + '"' for e in x['exempt'])}]

/-- `_read_request`: `if len(batch.schema) > 0 and batch.num_rows != 1: raise RpcError` precedes the value extraction -/
def readRowGuard : Bool := {b(x['read']['rowGuard'])}
/-- `_current_request_param_schema.set(batch.schema)` happens after the row guard and before `as_py()` -/
def readRecordsSchema : Bool := {b(x['read']['recordsSchema'])}
/-- … and after `batch` was re-bound by `resolve_external_location(…)` and `resolve_shm_batch(…)`: it is the schema of the
*resolved* request batch (the one the kwargs are read from), not of a zero-row pointer batch -/
def readRecordsResolved : Bool := {b(x['read']['recordsResolved'])}
/-- classes of the `except` around `as_py()` (the handler raises `RpcError`); `[]` = no handler -/
def readWrap : List HCls := [{', '.join('.' + n for n in x['read']['wrap'])}]

/-- classes of the `except` around the validating read of the request batch (the handler drains and raises `RpcError`) -/
def readValidationWrap : List HCls := [{', '.join('.' + n for n in x['read']['validationWrap'])}]

/-- the bodies of `_validate_params`, `_deserialize_params`, `_deserialize_value` are the ones the model transliterates -/
def validateParamsRecognised : Bool := {b(x['validateParams'])}
def deserializeParamsRecognised : Bool := {b(x['deserializeParams'])}
def deserializeValueRecognised : Bool := {b(x['deserializeValue'])}

/-- module-level / cross-call state reachable from `_validate_params`, `_validate_call_signature`, `_deserialize_params`,
`_deserialize_value` and the same-module helpers they call (mutable module-level containers, `global`s, memoising
decorators, mutable defaults; `ContextVar`s excepted).  The model is a pure function of (declaration, request): must be `[]`. -/
def validationState : List String := [{', '.join('"' + o.replace('"', "'") + '"' for o in x['state'])}]

end VgiVerif.Gen.Validate
"""
    return {"Validate.lean": body}


if __name__ == "__main__":
    import json
    import sys

    sys.path.insert(0, str(REPO))
    print(json.dumps(extract(), indent=1, default=str))
