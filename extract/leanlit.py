"""Lean literals for extracted Python values (shared by the gen_* modules)."""

from __future__ import annotations


def lean_chars(s: str) -> str:
    """Lean `List Char` literal: char literals for printable ASCII (readable, simp-friendly), `Char.ofNat n` otherwise."""
    out = []
    for c in s:
        o = ord(c)
        if 32 <= o < 127 and c not in "'\\":
            out.append(f"'{c}'")
        else:
            out.append(f"Char.ofNat {o}")
    return "[" + ", ".join(out) + "]"


def lean_bool(b: object) -> str:
    return "true" if b else "false"
